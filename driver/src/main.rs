// nn-facts: rustc_private fact extractor for the `neurons` crate.
//
// Injected with RUSTC_WORKSPACE_WRAPPER under `cargo +nightly check --lib`.
// For the crate named by NN_FACTS_CRATE (default "neurons") it writes ONE JSON
// file (NN_FACTS_OUT) at `after_analysis` with
//   * a typed, callee-resolved mirror of every fn body's HIR (closures inline),
//   * MIR facts per body (resolved calls with dominating guards, ADT field
//     writes, Assert terminators),
//   * item facts (ADTs with field visibility, fn signatures, statics).
// The driver judges nothing; rules live in /verif/sa.
#![feature(rustc_private)]
extern crate rustc_ast;
extern crate rustc_driver;
extern crate rustc_hir;
extern crate rustc_interface;
extern crate rustc_middle;
extern crate rustc_span;

use rustc_driver::Compilation;
use rustc_hir as hir;
use rustc_middle::mir;
use rustc_middle::ty::{self, TyCtxt};
use rustc_span::Span;
use std::collections::HashMap;
use std::fmt::Write;

fn esc(s: &str) -> String {
    let mut o = String::with_capacity(s.len() + 2);
    o.push('"');
    for c in s.chars() {
        match c {
            '"' => o.push_str("\\\""),
            '\\' => o.push_str("\\\\"),
            '\n' => o.push_str("\\n"),
            '\r' => o.push_str("\\r"),
            '\t' => o.push_str("\\t"),
            c if (c as u32) < 0x20 => {
                let _ = write!(o, "\\u{:04x}", c as u32);
            }
            c => o.push(c),
        }
    }
    o.push('"');
    o
}

fn arr(v: Vec<String>) -> String {
    format!("[{}]", v.join(","))
}

struct Types {
    map: HashMap<String, usize>,
    list: Vec<String>,
}
impl Types {
    fn id(&mut self, s: String) -> usize {
        if let Some(i) = self.map.get(&s) {
            return *i;
        }
        let i = self.list.len();
        self.map.insert(s.clone(), i);
        self.list.push(s);
        i
    }
}

struct D<'a, 'tcx> {
    tcx: TyCtxt<'tcx>,
    tc: &'tcx ty::TypeckResults<'tcx>,
    types: &'a mut Types,
    unsafe_lines: Vec<usize>,
}

impl<'a, 'tcx> D<'a, 'tcx> {
    fn line(&self, sp: Span) -> usize {
        // use the call-site line for macro-expanded code
        let sp = sp.source_callsite();
        self.tcx.sess.source_map().lookup_char_pos(sp.lo()).line
    }
    fn mac(&self, sp: Span) -> Option<String> {
        if !sp.from_expansion() {
            return None;
        }
        let mut name = None;
        for e in sp.macro_backtrace() {
            if let rustc_span::ExpnKind::Macro(_, n) = e.kind {
                name = Some(n.to_string());
            }
        }
        name.or(Some(format!("{:?}", sp.ctxt().outer_expn_data().kind)))
    }
    fn res_path(&self, res: hir::def::Res) -> String {
        match res {
            hir::def::Res::Def(_, d) => self.tcx.def_path_str(d),
            hir::def::Res::Local(h) => format!("local:{}", self.tcx.hir_name(h)),
            hir::def::Res::SelfCtor(d) | hir::def::Res::SelfTyAlias { alias_to: d, .. } => {
                format!("Self:{}", self.tcx.def_path_str(d))
            }
            other => format!("{:?}", other),
        }
    }
    fn patexpr(&self, pe: &'tcx hir::PatExpr<'tcx>) -> String {
        match &pe.kind {
            hir::PatExprKind::Path(qp) => {
                let res = self.tc.qpath_res(qp, pe.hir_id);
                format!("{{\"k\":\"ppath\",\"path\":{}}}", esc(&self.res_path(res)))
            }
            hir::PatExprKind::Lit { lit, negated } => {
                let s = self
                    .tcx
                    .sess
                    .source_map()
                    .span_to_snippet(lit.span)
                    .unwrap_or_default();
                format!("{{\"k\":\"plit\",\"v\":{},\"neg\":{}}}", esc(&s), negated)
            }
            #[allow(unreachable_patterns)]
            _ => "{\"k\":\"pother\"}".to_string(),
        }
    }
    fn pat(&mut self, p: &'tcx hir::Pat<'tcx>) -> String {
        use hir::PatKind::*;
        match p.kind {
            Binding(mode, hid, ident, sub) => {
                let t = self.types.id(format!("{}", self.tc.node_type(p.hir_id)));
                format!(
                    "{{\"k\":\"bind\",\"name\":{},\"hid\":{},\"mode\":{},\"t\":{}{}}}",
                    esc(ident.as_str()),
                    hid.local_id.as_u32(),
                    esc(&format!("{:?}", mode)),
                    t,
                    match sub {
                        Some(s) => format!(",\"sub\":{}", self.pat(s)),
                        None => String::new(),
                    }
                )
            }
            Tuple(ps, _) => {
                let v: Vec<String> = ps.iter().map(|p| self.pat(p)).collect();
                format!("{{\"k\":\"tuple\",\"ps\":{}}}", arr(v))
            }
            TupleStruct(ref qp, ps, _) => {
                let res = self.tc.qpath_res(qp, p.hir_id);
                let v: Vec<String> = ps.iter().map(|p| self.pat(p)).collect();
                format!(
                    "{{\"k\":\"tstruct\",\"path\":{},\"ps\":{}}}",
                    esc(&self.res_path(res)),
                    arr(v)
                )
            }
            Struct(ref qp, fs, _) => {
                let res = self.tc.qpath_res(qp, p.hir_id);
                let v: Vec<String> = fs
                    .iter()
                    .map(|f| format!("[{},{}]", esc(f.ident.as_str()), self.pat(f.pat)))
                    .collect();
                format!(
                    "{{\"k\":\"struct\",\"path\":{},\"fs\":{}}}",
                    esc(&self.res_path(res)),
                    arr(v)
                )
            }
            Ref(inner, _, _) => format!("{{\"k\":\"ref\",\"p\":{}}}", self.pat(inner)),
            Deref(inner) => format!("{{\"k\":\"deref\",\"p\":{}}}", self.pat(inner)),
            Wild => "{\"k\":\"wild\"}".into(),
            Expr(pe) => self.patexpr(pe),
            Or(ps) => {
                let v: Vec<String> = ps.iter().map(|p| self.pat(p)).collect();
                format!("{{\"k\":\"or\",\"ps\":{}}}", arr(v))
            }
            Slice(before, mid, after) => {
                let b: Vec<String> = before.iter().map(|p| self.pat(p)).collect();
                let a: Vec<String> = after.iter().map(|p| self.pat(p)).collect();
                let m = match mid {
                    Some(m) => self.pat(m),
                    None => "null".into(),
                };
                format!(
                    "{{\"k\":\"slice\",\"before\":{},\"mid\":{},\"after\":{}}}",
                    arr(b),
                    m,
                    arr(a)
                )
            }
            _ => format!(
                "{{\"k\":\"other\",\"dbg\":{}}}",
                esc(&format!("{:?}", std::mem::discriminant(&p.kind)))
            ),
        }
    }
    fn block(&mut self, b: &'tcx hir::Block<'tcx>) -> String {
        if let hir::BlockCheckMode::UnsafeBlock(hir::UnsafeSource::UserProvided) = b.rules {
            if !b.span.from_expansion() {
                let l = self.line(b.span);
                self.unsafe_lines.push(l);
            }
        }
        let mut ss = Vec::new();
        for s in b.stmts {
            match s.kind {
                hir::StmtKind::Let(l) => {
                    let pat = self.pat(l.pat);
                    let init = match l.init {
                        Some(e) => self.expr(e),
                        None => "null".into(),
                    };
                    let els = match l.els {
                        Some(b) => self.block(b),
                        None => "null".into(),
                    };
                    ss.push(format!(
                        "{{\"k\":\"let\",\"pat\":{},\"init\":{},\"els\":{},\"line\":{}}}",
                        pat,
                        init,
                        els,
                        self.line(s.span)
                    ))
                }
                hir::StmtKind::Expr(e) | hir::StmtKind::Semi(e) => ss.push(self.expr(e)),
                hir::StmtKind::Item(_) => {}
            }
        }
        let tail = match b.expr {
            Some(e) => self.expr(e),
            None => "null".into(),
        };
        format!("{{\"k\":\"block\",\"stmts\":{},\"tail\":{}}}", arr(ss), tail)
    }
    fn exprs(&mut self, xs: &'tcx [hir::Expr<'tcx>]) -> String {
        let v: Vec<String> = xs.iter().map(|a| self.expr(a)).collect();
        arr(v)
    }
    fn expr(&mut self, e: &'tcx hir::Expr<'tcx>) -> String {
        use hir::ExprKind::*;
        if let DropTemps(x) = e.kind {
            return self.expr(x);
        }
        let t = self.types.id(format!("{}", self.tc.expr_ty(e)));
        // adjusted type differs when auto-(de)ref applies; record only if different
        let ta = self.types.id(format!("{}", self.tc.expr_ty_adjusted(e)));
        let mut common = format!(
            "\"id\":{},\"t\":{},\"line\":{}",
            e.hir_id.local_id.as_u32(),
            t,
            self.line(e.span)
        );
        if ta != t {
            let _ = write!(common, ",\"ta\":{}", ta);
        }
        if let Some(m) = self.mac(e.span) {
            let _ = write!(common, ",\"mac\":{}", esc(&m));
        }
        match e.kind {
            Lit(l) => format!(
                "{{\"k\":\"lit\",\"v\":{},{}}}",
                esc(&self
                    .tcx
                    .sess
                    .source_map()
                    .span_to_snippet(l.span)
                    .unwrap_or_default()),
                common
            ),
            Path(ref qp) => {
                let res = self.tc.qpath_res(qp, e.hir_id);
                match res {
                    hir::def::Res::Local(hid) => format!(
                        "{{\"k\":\"local\",\"name\":{},\"hid\":{},{}}}",
                        esc(self.tcx.hir_name(hid).as_str()),
                        hid.local_id.as_u32(),
                        common
                    ),
                    _ => format!(
                        "{{\"k\":\"path\",\"def\":{},{}}}",
                        esc(&self.res_path(res)),
                        common
                    ),
                }
            }
            MethodCall(seg, recv, args, _) => {
                let did = self.tc.type_dependent_def_id(e.hir_id);
                let callee = did.map(|d| self.tcx.def_path_str(d)).unwrap_or_default();
                let r = self.expr(recv);
                let a = self.exprs(args);
                format!(
                    "{{\"k\":\"mcall\",\"name\":{},\"callee\":{},\"recv\":{},\"args\":{},{}}}",
                    esc(seg.ident.as_str()),
                    esc(&callee),
                    r,
                    a,
                    common
                )
            }
            Call(f, args) => {
                // resolved callee for path calls (incl. associated fns and tuple ctors)
                let callee = match f.kind {
                    Path(ref qp) => {
                        let res = self.tc.qpath_res(qp, f.hir_id);
                        self.res_path(res)
                    }
                    _ => String::new(),
                };
                let fe = self.expr(f);
                let a = self.exprs(args);
                format!(
                    "{{\"k\":\"call\",\"callee\":{},\"f\":{},\"args\":{},{}}}",
                    esc(&callee),
                    fe,
                    a,
                    common
                )
            }
            Binary(op, l, r) => {
                let (l, r) = (self.expr(l), self.expr(r));
                format!(
                    "{{\"k\":\"bin\",\"op\":{},\"l\":{},\"r\":{},{}}}",
                    esc(&format!("{:?}", op.node)),
                    l,
                    r,
                    common
                )
            }
            Unary(op, x) => {
                let x = self.expr(x);
                format!(
                    "{{\"k\":\"un\",\"op\":{},\"x\":{},{}}}",
                    esc(&format!("{:?}", op)),
                    x,
                    common
                )
            }
            AssignOp(op, l, r) => {
                let (l, r) = (self.expr(l), self.expr(r));
                format!(
                    "{{\"k\":\"assignop\",\"op\":{},\"l\":{},\"r\":{},{}}}",
                    esc(&format!("{:?}", op.node)),
                    l,
                    r,
                    common
                )
            }
            Assign(l, r, _) => {
                let (l, r) = (self.expr(l), self.expr(r));
                format!("{{\"k\":\"assign\",\"l\":{},\"r\":{},{}}}", l, r, common)
            }
            Index(b, i, _) => {
                let (b, i) = (self.expr(b), self.expr(i));
                format!("{{\"k\":\"index\",\"b\":{},\"i\":{},{}}}", b, i, common)
            }
            Field(b, id) => {
                let b = self.expr(b);
                format!(
                    "{{\"k\":\"field\",\"b\":{},\"f\":{},{}}}",
                    b,
                    esc(id.as_str()),
                    common
                )
            }
            AddrOf(_, m, x) => {
                let x = self.expr(x);
                format!(
                    "{{\"k\":\"ref\",\"mut\":{},\"x\":{},{}}}",
                    m.is_mut(),
                    x,
                    common
                )
            }
            Cast(x, _) => {
                let x = self.expr(x);
                format!("{{\"k\":\"cast\",\"x\":{},{}}}", x, common)
            }
            Tup(xs) => {
                let a = self.exprs(xs);
                format!("{{\"k\":\"tup\",\"xs\":{},{}}}", a, common)
            }
            Block(b, _) => {
                let b = self.block(b);
                format!("{{\"k\":\"blk\",\"b\":{},{}}}", b, common)
            }
            If(c, t, f) => {
                let c = self.expr(c);
                let t = self.expr(t);
                let f = match f {
                    Some(x) => self.expr(x),
                    None => "null".into(),
                };
                format!("{{\"k\":\"if\",\"c\":{},\"th\":{},\"el\":{},{}}}", c, t, f, common)
            }
            Let(l) => {
                let p = self.pat(l.pat);
                let i = self.expr(l.init);
                format!("{{\"k\":\"letx\",\"pat\":{},\"init\":{},{}}}", p, i, common)
            }
            Match(s, arms, src) => {
                if let hir::MatchSource::ForLoopDesugar = src {
                    if let Some(fl) = self.forloop(e) {
                        return fl;
                    }
                }
                let sc = self.expr(s);
                let mut av = Vec::new();
                for a in arms.iter() {
                    let p = self.pat(a.pat);
                    let g = match a.guard {
                        Some(g) => self.expr(g),
                        None => "null".into(),
                    };
                    let b = self.expr(a.body);
                    av.push(format!(
                        "{{\"pat\":{},\"guard\":{},\"body\":{},\"line\":{}}}",
                        p,
                        g,
                        b,
                        self.line(a.span)
                    ));
                }
                format!(
                    "{{\"k\":\"match\",\"src\":{},\"scrut\":{},\"arms\":{},{}}}",
                    esc(&format!("{:?}", src)),
                    sc,
                    arr(av),
                    common
                )
            }
            Closure(c) => {
                let b = self.tcx.hir_body(c.body);
                let ps: Vec<String> = b.params.iter().map(|p| self.pat(p.pat)).collect();
                let body = self.expr(b.value);
                format!(
                    "{{\"k\":\"closure\",\"params\":{},\"body\":{},\"capture\":{},\"def\":{},{}}}",
                    arr(ps),
                    body,
                    esc(&format!("{:?}", c.capture_clause)),
                    esc(&self.tcx.def_path_str(c.def_id.to_def_id())),
                    common
                )
            }
            Loop(b, _, src, _) => {
                let b = self.block(b);
                format!(
                    "{{\"k\":\"loop\",\"src\":{},\"body\":{},\"loop_id\":{},{}}}",
                    esc(&format!("{:?}", src)),
                    b,
                    e.hir_id.local_id.as_u32(),
                    common
                )
            }
            Break(d, v) => {
                let v = match v {
                    Some(x) => self.expr(x),
                    None => "null".into(),
                };
                format!(
                    "{{\"k\":\"break\",\"label\":{},\"v\":{},{}}}",
                    match d.target_id {
                        Ok(h) => format!("{}", h.local_id.as_u32()),
                        _ => "null".into(),
                    },
                    v,
                    common
                )
            }
            Continue(d) => format!(
                "{{\"k\":\"continue\",\"label\":{},{}}}",
                match d.target_id {
                    Ok(h) => format!("{}", h.local_id.as_u32()),
                    _ => "null".into(),
                },
                common
            ),
            Ret(v) => {
                let v = match v {
                    Some(x) => self.expr(x),
                    None => "null".into(),
                };
                format!("{{\"k\":\"ret\",\"v\":{},{}}}", v, common)
            }
            Struct(qp, fs, tail) => {
                let res = self.tc.qpath_res(qp, e.hir_id);
                let mut v = Vec::new();
                for f in fs.iter() {
                    let x = self.expr(f.expr);
                    v.push(format!("[{},{}]", esc(f.ident.as_str()), x));
                }
                // functional record update `S { f: e, ..base }`: the base expression supplies the other fields
                let base = match tail {
                    hir::StructTailExpr::Base(b) => format!(",\"base\":{}", self.expr(b)),
                    _ => String::new(),
                };
                format!(
                    "{{\"k\":\"struct\",\"path\":{},\"fs\":{}{},{}}}",
                    esc(&self.res_path(res)),
                    arr(v),
                    base,
                    common
                )
            }
            Array(xs) => {
                let a = self.exprs(xs);
                format!("{{\"k\":\"array\",\"xs\":{},{}}}", a, common)
            }
            Repeat(x, _) => {
                let x = self.expr(x);
                format!("{{\"k\":\"repeat\",\"x\":{},{}}}", x, common)
            }
            _ => format!(
                "{{\"k\":\"other\",\"dbg\":{},{}}}",
                esc(&format!("{:?}", std::mem::discriminant(&e.kind))),
                common
            ),
        }
    }
    fn forloop(&mut self, e: &'tcx hir::Expr<'tcx>) -> Option<String> {
        // match IntoIterator::into_iter(<iter>) { mut it => loop { match Iterator::next(&mut it) {
        //   None => break, Some(<pat>) => <body> } } }
        if let hir::ExprKind::Match(scrut, [arm], hir::MatchSource::ForLoopDesugar) = e.kind {
            if let hir::ExprKind::Call(_, [iter]) = scrut.kind {
                if let hir::ExprKind::Loop(blk, _, hir::LoopSource::ForLoop, _) = arm.body.kind {
                    if let [stmt] = blk.stmts {
                        if let hir::StmtKind::Expr(m) = stmt.kind {
                            if let hir::ExprKind::Match(_, [_none, some], _) = m.kind {
                                let p = match some.pat.kind {
                                    hir::PatKind::Struct(_, [f], _) => Some(f.pat),
                                    hir::PatKind::TupleStruct(_, [p], _) => Some(p),
                                    _ => None,
                                };
                                if let Some(p) = p {
                                    let pat = self.pat(p);
                                    let it = self.expr(iter);
                                    let body = self.expr(some.body);
                                    return Some(format!(
                                        "{{\"k\":\"for\",\"pat\":{},\"iter\":{},\"body\":{},\"loop_id\":{},\"id\":{},\"line\":{}}}",
                                        pat,
                                        it,
                                        body,
                                        arm.body.hir_id.local_id.as_u32(),
                                        e.hir_id.local_id.as_u32(),
                                        self.line(e.span)
                                    ));
                                }
                            }
                        }
                    }
                }
            }
        }
        None
    }
}

fn place_str<'tcx>(tcx: TyCtxt<'tcx>, body: &mir::Body<'tcx>, p: &mir::Place<'tcx>) -> String {
    let mut s = format!("_{}", p.local.as_usize());
    for d in body.var_debug_info.iter() {
        if let mir::VarDebugInfoContents::Place(pl) = d.value {
            if pl.local == p.local && pl.projection.is_empty() {
                s = d.name.to_string();
            }
        }
    }
    let mut t = mir::PlaceTy::from_ty(body.local_decls[p.local].ty);
    for e in p.projection.iter() {
        match e {
            mir::ProjectionElem::Deref => s = format!("(*{})", s),
            mir::ProjectionElem::Field(f, _) => {
                let name = match t.ty.kind() {
                    ty::Adt(adt, _) => {
                        let v = match t.variant_index {
                            Some(v) => adt.variant(v),
                            None => adt.non_enum_variant(),
                        };
                        v.fields[f].name.to_string()
                    }
                    _ => format!("{}", f.as_usize()),
                };
                s = format!("{}.{}", s, name)
            }
            mir::ProjectionElem::Downcast(n, _) => {
                s = format!("({} as {})", s, n.map(|x| x.to_string()).unwrap_or_default())
            }
            mir::ProjectionElem::Index(l) => s = format!("{}[_{}]", s, l.as_usize()),
            _ => s = format!("{}[..]", s),
        }
        t = t.projection_ty(tcx, e);
    }
    s
}

/// (adt path, field name) of the innermost ADT field projection of a place, if any.
fn place_adt_field<'tcx>(
    tcx: TyCtxt<'tcx>,
    body: &mir::Body<'tcx>,
    p: &mir::Place<'tcx>,
) -> Option<(String, String)> {
    let mut t = mir::PlaceTy::from_ty(body.local_decls[p.local].ty);
    let mut last = None;
    for e in p.projection.iter() {
        if let mir::ProjectionElem::Field(f, _) = e {
            if let ty::Adt(adt, _) = t.ty.kind() {
                let v = match t.variant_index {
                    Some(v) => adt.variant(v),
                    None => {
                        if adt.is_enum() {
                            t = t.projection_ty(tcx, e);
                            continue;
                        }
                        adt.non_enum_variant()
                    }
                };
                last = Some((tcx.def_path_str(adt.did()), v.fields[f].name.to_string()));
            }
        }
        t = t.projection_ty(tcx, e);
    }
    last
}

fn operand_str<'tcx>(tcx: TyCtxt<'tcx>, body: &mir::Body<'tcx>, op: &mir::Operand<'tcx>) -> String {
    match op.place() {
        Some(p) => place_str(tcx, body, &p),
        None => format!("{:?}", op),
    }
}

fn mir_facts<'tcx>(tcx: TyCtxt<'tcx>, def: rustc_span::def_id::LocalDefId) -> String {
    let did = def.to_def_id();
    let m = tcx.optimized_mir(did);
    let dom = m.basic_blocks.dominators();
    let line = |sp: Span| tcx.sess.source_map().lookup_char_pos(sp.source_callsite().lo()).line;
    let mut calls = Vec::new();
    let mut writes = Vec::new();
    let mut asserts = Vec::new();
    let mut mutborrows: Vec<String> = Vec::new();
    // local def map: for guard provenance, find the (last in-block) assignment to a local
    for (bb, data) in m.basic_blocks.iter_enumerated() {
        for st in data.statements.iter() {
            if let mir::StatementKind::Assign(b) = &st.kind {
                let (pl, rv) = &**b;
                // mutable borrows / raw pointers to ADT fields (a write could hide behind them)
                let borrowed = match rv {
                    mir::Rvalue::Ref(_, bk, bp) if !matches!(bk, mir::BorrowKind::Shared | mir::BorrowKind::Fake(_)) => Some(bp),
                    mir::Rvalue::RawPtr(_, bp) => Some(bp),
                    _ => None,
                };
                if let Some(bp) = borrowed {
                    if let Some((adt, field)) = place_adt_field(tcx, m, bp) {
                        // only report when the field itself is what is borrowed (last projection)
                        let last_is_field = matches!(bp.projection.last(), Some(mir::ProjectionElem::Field(..)));
                        if last_is_field {
                            mutborrows.push(format!(
                                "{{\"place\":{},\"adt\":{},\"field\":{},\"line\":{}}}",
                                esc(&place_str(tcx, m, bp)),
                                esc(&adt),
                                esc(&field),
                                line(st.source_info.span)
                            ));
                        }
                    }
                }
                if let Some((adt, field)) = place_adt_field(tcx, m, pl) {
                    let cst = match rv {
                        mir::Rvalue::Use(mir::Operand::Constant(c), ..) => {
                            Some(format!("{}", c.const_))
                        }
                        _ => None,
                    };
                    writes.push(format!(
                        "{{\"place\":{},\"adt\":{},\"field\":{},\"const\":{},\"rv\":{},\"line\":{},\"mac\":{}}}",
                        esc(&place_str(tcx, m, pl)),
                        esc(&adt),
                        esc(&field),
                        match cst {
                            Some(c) => esc(&c),
                            None => "null".into(),
                        },
                        esc(&format!("{:?}", rv)),
                        line(st.source_info.span),
                        st.source_info.span.from_expansion()
                    ));
                }
            }
        }
        if let Some(term) = &data.terminator {
            match &term.kind {
                mir::TerminatorKind::Call { func, args, destination, .. } => {
                    let name = if let Some((cdid, cargs)) = func.const_fn_def() {
                        match ty::Instance::try_resolve(
                            tcx,
                            ty::TypingEnv::post_analysis(tcx, did),
                            cdid,
                            cargs,
                        ) {
                            Ok(Some(i)) => tcx.def_path_str(i.def_id()),
                            _ => tcx.def_path_str(cdid),
                        }
                    } else {
                        format!("<indirect:{:?}>", func)
                    };
                    // dominating guards
                    let mut guards = Vec::new();
                    for (b2, d2) in m.basic_blocks.iter_enumerated() {
                        if b2 == bb || !dom.dominates(b2, bb) {
                            continue;
                        }
                        if let Some(t2) = &d2.terminator {
                            if let mir::TerminatorKind::SwitchInt { discr, targets } = &t2.kind {
                                let succs: Vec<_> = targets.all_targets().iter().copied().collect();
                                let doms: Vec<_> =
                                    succs.iter().filter(|s| dom.dominates(**s, bb)).collect();
                                if doms.len() == 1 {
                                    // only count it if that successor has this block as its only
                                    // predecessor-dominating edge (i.e. the edge, not a join)
                                    let val = targets
                                        .iter()
                                        .find(|(_, t)| t == doms[0])
                                        .map(|(v, _)| format!("{}", v))
                                        .unwrap_or("otherwise".into());
                                    let others: Vec<String> = targets
                                        .iter()
                                        .filter(|(_, t)| t != doms[0])
                                        .map(|(v, _)| format!("{}", v))
                                        .collect();
                                    let mut src = format!("{:?}", discr);
                                    if let Some(pl) = discr.place() {
                                        for st in d2.statements.iter().rev() {
                                            if let mir::StatementKind::Assign(b) = &st.kind {
                                                if b.0 == pl {
                                                    src = match &b.1 {
                                                        mir::Rvalue::Use(op, ..) => {
                                                            operand_str(tcx, m, op)
                                                        }
                                                        mir::Rvalue::Discriminant(p) => {
                                                            format!("discr({})", place_str(tcx, m, p))
                                                        }
                                                        r => format!("{:?}", r),
                                                    };
                                                    break;
                                                }
                                            }
                                        }
                                    }
                                    guards.push(format!(
                                        "{{\"src\":{},\"val\":{},\"not\":{}}}",
                                        esc(&src),
                                        esc(&val),
                                        arr(others.iter().map(|o| esc(o)).collect())
                                    ));
                                }
                            }
                        }
                    }
                    let a: Vec<String> =
                        args.iter().map(|a| esc(&operand_str(tcx, m, &a.node))).collect();
                    calls.push(format!(
                        "{{\"callee\":{},\"bb\":{},\"line\":{},\"mac\":{},\"args\":{},\"dest\":{},\"guards\":{}}}",
                        esc(&name),
                        bb.as_usize(),
                        line(term.source_info.span),
                        term.source_info.span.from_expansion(),
                        arr(a),
                        esc(&place_str(tcx, m, destination)),
                        arr(guards)
                    ));
                }
                mir::TerminatorKind::Assert { msg, cond, expected, .. } => {
                    let (kind, ops) = match &**msg {
                        mir::AssertKind::Overflow(op, a, b) => (
                            format!("Overflow({:?})", op),
                            vec![operand_str(tcx, m, a), operand_str(tcx, m, b)],
                        ),
                        mir::AssertKind::BoundsCheck { len, index } => (
                            "BoundsCheck".to_string(),
                            vec![operand_str(tcx, m, len), operand_str(tcx, m, index)],
                        ),
                        mir::AssertKind::DivisionByZero(a) => {
                            ("DivisionByZero".to_string(), vec![operand_str(tcx, m, a)])
                        }
                        mir::AssertKind::RemainderByZero(a) => {
                            ("RemainderByZero".to_string(), vec![operand_str(tcx, m, a)])
                        }
                        mir::AssertKind::OverflowNeg(a) => {
                            ("OverflowNeg".to_string(), vec![operand_str(tcx, m, a)])
                        }
                        other => (format!("{:?}", std::mem::discriminant(other)), vec![]),
                    };
                    asserts.push(format!(
                        "{{\"kind\":{},\"ops\":{},\"cond\":{},\"expected\":{},\"line\":{},\"mac\":{}}}",
                        esc(&kind),
                        arr(ops.iter().map(|o| esc(o)).collect()),
                        esc(&operand_str(tcx, m, cond)),
                        expected,
                        line(term.source_info.span),
                        term.source_info.span.from_expansion()
                    ));
                }
                _ => {}
            }
        }
    }
    format!(
        "{{\"blocks\":{},\"calls\":{},\"writes\":{},\"asserts\":{},\"mutborrows\":{}}}",
        m.basic_blocks.len(),
        arr(calls),
        arr(writes),
        arr(asserts),
        arr(mutborrows)
    )
}

struct Cb;
impl rustc_driver::Callbacks for Cb {
    fn after_analysis<'tcx>(
        &mut self,
        _c: &rustc_interface::interface::Compiler,
        tcx: TyCtxt<'tcx>,
    ) -> Compilation {
        let want = std::env::var("NN_FACTS_CRATE").unwrap_or("neurons".into());
        if tcx.crate_name(rustc_span::def_id::LOCAL_CRATE).as_str() != want {
            return Compilation::Continue;
        }
        let out_path = match std::env::var("NN_FACTS_OUT") {
            Ok(p) => p,
            Err(_) => return Compilation::Continue,
        };
        let mut types = Types { map: HashMap::new(), list: Vec::new() };
        let sm = tcx.sess.source_map();
        let mut fns = Vec::new();
        let mut mirs = Vec::new();
        let mut consts: Vec<String> = Vec::new();
        for owner in tcx.hir_body_owners() {
            let did = owner.to_def_id();
            let kind = tcx.def_kind(did);
            let path = tcx.def_path_str(did);
            match kind {
                hir::def::DefKind::Fn | hir::def::DefKind::AssocFn => {
                    let body = tcx.hir_body_owned_by(owner);
                    let tc = tcx.typeck(owner);
                    let sig = tcx.fn_sig(did).instantiate_identity().skip_norm_wip().skip_binder();
                    let inputs: Vec<String> =
                        sig.inputs().iter().map(|t| esc(&format!("{}", t))).collect();
                    let output = format!("{}", sig.output());
                    let span = tcx.def_span(did);
                    let loc = sm.lookup_char_pos(span.lo());
                    let file = format!("{}", loc.file.name.prefer_local_unconditionally());
                    let vis = format!("{:?}", tcx.visibility(did));
                    let mut d = D { tcx, tc, types: &mut types, unsafe_lines: Vec::new() };
                    let params: Vec<String> = body.params.iter().map(|p| d.pat(p.pat)).collect();
                    let b = d.expr(body.value);
                    let unsafe_lines: Vec<String> = d.unsafe_lines.iter().map(|l| l.to_string()).collect();
                    let header_unsafe = tcx.fn_sig(did).skip_binder().safety().is_unsafe();
                    fns.push(format!(
                        "{}:{{\"unsafe_blocks\":{},\"unsafe_fn\":{},\"path\":{},\"kind\":{},\"vis\":{},\"file\":{},\"line\":{},\"inputs\":{},\"output\":{},\"params\":{},\"body\":{}}}",
                        esc(&path),
                        arr(unsafe_lines),
                        header_unsafe,
                        esc(&path),
                        esc(&format!("{:?}", kind)),
                        esc(&vis),
                        esc(&file),
                        loc.line,
                        arr(inputs),
                        esc(&output),
                        arr(params),
                        b
                    ));
                    mirs.push(format!(
                        "{}:{{\"parent\":{},\"closure\":false,\"facts\":{}}}",
                        esc(&path),
                        esc(&path),
                        mir_facts(tcx, owner)
                    ));
                }
                hir::def::DefKind::Const { .. } | hir::def::DefKind::AssocConst { .. } => {
                    // constant items (also those declared inside a function body): their defining expression
                    let body = tcx.hir_body_owned_by(owner);
                    let tc = tcx.typeck(owner);
                    let mut d = D { tcx, tc, types: &mut types, unsafe_lines: Vec::new() };
                    let b = d.expr(body.value);
                    consts.push(format!("{}:{{\"path\":{},\"body\":{}}}", esc(&path), esc(&path), b));
                }
                hir::def::DefKind::Closure => {
                    let root = tcx.typeck_root_def_id(did);
                    mirs.push(format!(
                        "{}:{{\"parent\":{},\"closure\":true,\"facts\":{}}}",
                        esc(&path),
                        esc(&tcx.def_path_str(root)),
                        mir_facts(tcx, owner)
                    ));
                }
                _ => {}
            }
        }
        // items
        let mut adts = Vec::new();
        let mut statics = Vec::new();
        let mut impls = Vec::new();
        for id in tcx.hir_free_items() {
            let item = tcx.hir_item(id);
            let did = item.owner_id.to_def_id();
            match item.kind {
                hir::ItemKind::Struct(..) | hir::ItemKind::Enum(..) | hir::ItemKind::Union(..) => {
                    let adt = tcx.adt_def(did);
                    let name = tcx.def_path_str(did);
                    let mut vs = Vec::new();
                    for v in adt.variants().iter() {
                        let fs: Vec<String> = v
                            .fields
                            .iter()
                            .map(|f| {
                                format!(
                                    "{{\"name\":{},\"vis\":{},\"ty\":{}}}",
                                    esc(f.name.as_str()),
                                    esc(&format!("{:?}", f.vis)),
                                    esc(&format!(
                                        "{}",
                                        tcx.type_of(f.did).instantiate_identity().skip_norm_wip()
                                    ))
                                )
                            })
                            .collect();
                        vs.push(format!(
                            "{{\"name\":{},\"fields\":{}}}",
                            esc(v.name.as_str()),
                            arr(fs)
                        ));
                    }
                    adts.push(format!(
                        "{}:{{\"kind\":{},\"vis\":{},\"variants\":{}}}",
                        esc(&name),
                        esc(if adt.is_enum() { "enum" } else if adt.is_union() { "union" } else { "struct" }),
                        esc(&format!("{:?}", tcx.visibility(did))),
                        arr(vs)
                    ));
                }
                hir::ItemKind::Static(m, ..) => {
                    statics.push(format!(
                        "{{\"path\":{},\"mut\":{}}}",
                        esc(&tcx.def_path_str(did)),
                        m.is_mut()
                    ));
                }
                hir::ItemKind::Impl(imp) => {
                    let safety = format!("{:?}", imp.of_trait.map(|t| t.safety));
                    impls.push(format!(
                        "{{\"line\":{},\"trait_safety\":{},\"expn\":{}}}",
                        sm.lookup_char_pos(item.span.lo()).line,
                        esc(&safety),
                        item.span.from_expansion()
                    ));
                }
                _ => {}
            }
        }
        let tys: Vec<String> = types.list.iter().map(|t| esc(t)).collect();
        let out = format!(
            "{{\"crate\":{},\"src_root\":{},\"rustc\":{},\"flags\":{},\"types\":{},\"fns\":{{{}}},\"mir\":{{{}}},\"adts\":{{{}}},\"statics\":{},\"impls\":{},\"consts\":{{{}}}}}",
            esc(&want),
            esc(&std::env::var("NN_FACTS_SRC").unwrap_or_default()),
            esc(&tcx.sess.cfg_version),
            esc(&format!(
                "overflow_checks={} debug_assertions={}",
                tcx.sess.overflow_checks(),
                tcx.sess.opts.debug_assertions
            )),
            arr(tys),
            fns.join(","),
            mirs.join(","),
            adts.join(","),
            arr(statics),
            arr(impls),
            consts.join(",")
        );
        std::fs::write(&out_path, out).expect("write facts");
        Compilation::Continue
    }
}

fn main() {
    // RUSTC_WORKSPACE_WRAPPER: argv[1] is the real rustc path
    let mut a = vec!["rustc".to_string()];
    a.extend(std::env::args().skip(2));
    rustc_driver::run_compiler(&a, &mut Cb);
}
