#!/bin/sh
# usage: apply_incrate_test.sh <repo> <src file relative to repo, e.g. src/network.rs> <snippet.rs>
# Inserts the snippet (one or more #[test] fns) right after `use super::*;` of the file's `mod tests`.
set -e
python3 - "$1/$2" "$3" <<'PY'
import sys
p, snip = sys.argv[1], open(sys.argv[2]).read()
s = open(p).read()
i = s.index("mod tests {")
j = s.index("use super::*;", i) + len("use super::*;")
open(p, "w").write(s[:j] + "\n\n" + snip + s[j:])
PY
