    // D4 (C05): identically built feedback blocks must give bit-identical gradients.
    // Insert into `mod tests` of src/feedback.rs (findings/apply_incrate_test.sh).
    #[test]
    fn d04_backward_is_bit_reproducible() {
        let mk = |seed: f32| {
            let mut d = crate::dense::Dense::create(
                tensor::Shape::Single(3),
                tensor::Shape::Single(3),
                &activation::Activation::Tanh,
                false,
                None,
            );
            d.weights = tensor::Tensor::double(
                (0..3)
                    .map(|i| (0..3).map(|j| ((i * 3 + j) as f32 * 0.37 + seed).sin() * 0.9).collect())
                    .collect(),
            );
            network::Layer::Dense(d)
        };
        let x = tensor::Tensor::single(vec![0.31, -0.77, 0.53]);
        let g = tensor::Tensor::single(vec![0.123_456_7, -0.765_432_1, 0.333_333_3]);
        let mut seen = std::collections::BTreeSet::new();
        for _ in 0..300 {
            // identically built blocks; every HashMap gets its own RandomState
            let block = Feedback::create(vec![mk(0.1), mk(1.3)], 5, true, true, Accumulation::Add);
            let (_, _, _, pre, post) = block.forward(&x);
            let (ig, _, _) = block.backward(&g, &vec![pre, post]);
            let bits: Vec<u32> = ig.get_flat().iter().map(|v| v.to_bits()).collect();
            seen.insert(bits);
        }
        assert_eq!(seen.len(), 1, "{} distinct input gradients for identical inputs", seen.len());
    }
