// D5 (C06). Place as /repo/tests/d05.rs; `cargo test --test d05`.
use neurons::{objective, tensor};

#[test]
fn kl_loss_is_finite_for_zero_target_components() {
    let f = objective::Function::create(objective::Objective::KLDivergence, None);
    let p = tensor::Tensor::single(vec![0.25, 0.75]);
    let t = tensor::Tensor::single(vec![0.0, 1.0]);
    let (loss, _) = f.loss(&p, &t);
    assert!(loss.is_finite(), "KL loss for target [0,1] is {}", loss); // unfixed: NaN (0 * ln 0)
    assert!((loss - (1.0f32 / 0.75).ln()).abs() < 1e-6);
}
