    // D9 (C16/C01): weight gradient of the target layer of a skip connection.
    #[test]
    fn d09_skip_target_weight_gradient() {
        let mut net = Network::new(tensor::Shape::Single(2));
        net.dense(2, activation::Activation::Linear, false, None);
        net.dense(2, activation::Activation::Linear, false, None);
        net.connect(0, 1);
        if let Layer::Dense(l) = &mut net.layers[0] {
            l.weights = tensor::Tensor::double(vec![vec![1.0, 2.0], vec![3.0, 4.0]]);
        }
        if let Layer::Dense(l) = &mut net.layers[1] {
            l.weights = tensor::Tensor::double(vec![vec![0.5, -1.0], vec![1.5, 2.0]]);
        }
        let x = tensor::Tensor::single(vec![1.0, -1.0]);
        let t = tensor::Tensor::single(vec![0.0, 0.0]);
        let (pre, act, max, fb) = net.forward(&x);
        // layer 1 consumes out0 + x = [-1,-1] + [1,-1] = [0,-2]; y = W1 [0,-2] = [2,-4]
        assert_eq!(act.last().unwrap().data, tensor::Data::Single(vec![2.0, -4.0]));
        let (_, g) = net.objective.loss(act.last().unwrap(), &t);
        let (wg, _) = net.backward(g, &pre, &act, &max, fb);
        // dL/dy = [2,-4]; dW1 = dL/dy (x) [0,-2]
        assert_eq!(
            wg[0].data,
            tensor::Data::Double(vec![vec![0.0, -4.0], vec![0.0, 8.0]]),
            "weight gradient of the skip target ignores the skipped-in input"
        );
    }
