// D10-D12 (C18). Place as /repo/tests/d10.rs; `cargo test --test d10`.
use neurons::random::Generator;

#[test]
fn d10_large_seed_does_not_overflow() {
    // unfixed: `attempt to multiply with overflow` (48271 * seed >= 2^64)
    let mut g = Generator::create(1_700_000_000_000_000_000);
    let v = g.generate(0.0, 1.0);
    assert!((0.0..=1.0).contains(&v));
}

#[test]
fn d11_generate_stays_in_range() {
    // the state reached from seed 495330176 has current/(m-1) == 1.0 in f32
    let mut g = Generator::create(495330176);
    let v = g.generate(-0.3, 0.9);
    assert!(v >= -0.3 && v <= 0.9, "generate(-0.3, 0.9) returned {}", v);
}

#[test]
fn d12_shuffle_never_panics() {
    // unfixed: index out of bounds (j == len) for this seed
    let mut g = Generator::create(495330176);
    let mut v: Vec<usize> = (0..7).collect();
    g.shuffle(&mut v);
    let mut s = v.clone();
    s.sort();
    assert_eq!(s, (0..7).collect::<Vec<usize>>());
}
