// D6 (C08) and D2 (C02). Place as /repo/tests/d06.rs; `cargo test --test d06`.
use neurons::{activation, maxpool, network, tensor};

fn accepts(kind: &str, size: usize) -> bool {
    std::panic::catch_unwind(|| {
        let mut net = network::Network::new(tensor::Shape::Single(4));
        net.dense(size, activation::Activation::Linear, false, None);
        match kind {
            "conv" => net.convolution(1, (2, 2), (1, 1), (0, 0), (1, 1), activation::Activation::Linear, None),
            "deconv" => net.deconvolution(1, (2, 2), (1, 1), (0, 0), activation::Activation::Linear, None),
            _ => net.maxpool((2, 2), (1, 1)),
        }
    })
    .is_ok()
}

#[test]
fn d06_non_square_flat_sizes_are_rejected() {
    for kind in ["conv", "deconv", "maxpool"] {
        assert!(accepts(kind, 9), "{}: 9 = 3*3 must be accepted", kind);
        for size in [6usize, 8, 12, 15, 20, 24] {
            assert!(!accepts(kind, size), "{}: flat size {} is not a perfect square but was accepted", kind, size);
        }
    }
}

#[test]
fn d02_maxpool_flat_input_equals_spatial_input() {
    let layer = maxpool::Maxpool::create(tensor::Shape::Triple(1, 4, 4), (2, 2), (2, 2));
    let flat: Vec<f32> = (0..16).map(|v| v as f32).collect();
    let spatial: Vec<Vec<Vec<f32>>> = vec![flat.chunks(4).map(|r| r.to_vec()).collect()];
    let (a, _, _) = layer.forward(&tensor::Tensor::single(flat));
    let (b, _, _) = layer.forward(&tensor::Tensor::triple(spatial));
    assert_eq!(a.data, b.data, "flat and CxHxW inputs pooled differently");
}
