// D7 (C09): in-training validation must be dropout-free.
// Place as /repo/tests/d07.rs (integration test, public API only) and run `cargo test --test d07`.
// On the unfixed tree the last in-training validation loss differs from validate() right after learn()
// (same weights, flags cleared), because validate()'s clearing loop stopped at the 2nd dense layer.
use neurons::{activation, network, objective, optimizer, tensor};

#[test]
fn validation_inside_learn_is_dropout_free() {
    let mut net = network::Network::new(tensor::Shape::Single(4));
    net.dense(16, activation::Activation::Tanh, true, Some(0.5));
    net.dense(16, activation::Activation::Tanh, true, Some(0.5));
    net.dense(3, activation::Activation::Linear, true, Some(0.5));
    net.set_optimizer(optimizer::SGD::create(0.01, None));
    net.set_objective(objective::Objective::MSE, None);
    let xs: Vec<tensor::Tensor> = (0..12)
        .map(|i| tensor::Tensor::single((0..4).map(|j| ((i * 7 + j * 3) % 11) as f32 / 11.0).collect()))
        .collect();
    let ys: Vec<tensor::Tensor> = (0..12)
        .map(|i| tensor::Tensor::single((0..3).map(|j| ((i + j) % 5) as f32 / 5.0).collect()))
        .collect();
    let x: Vec<&tensor::Tensor> = xs.iter().collect();
    let y: Vec<&tensor::Tensor> = ys.iter().collect();
    let (_, val_loss, _) = net.learn(&x, &y, Some((&x, &y, 100)), 4, 3, None);
    let (after, _) = net.validate(&x, &y, 1e-6);
    assert_eq!(val_loss.last().unwrap().to_bits(), after.to_bits(),
        "validation inside learn() used dropout: {} vs {}", val_loss.last().unwrap(), after);
}
