// D1 (C01), recorded as a known finding (not repaired). Place as /repo/tests/d01.rs; `cargo test --test d01`.
// The kernel gradient of a convolution with a linear activation is dK[kh][kw] = sum_{oh,ow} g[oh][ow] * x[oh*s+kh*d][ow*s+kw*d],
// independent of the (random) kernel values. The library's result differs as soon as stride != 1 (or dilation != 1).
use neurons::{activation, convolution, tensor};

fn kernel_gradient(stride: usize, dilation: usize) -> (Vec<Vec<f32>>, Vec<Vec<f32>>) {
    let (ih, iw, k) = (7usize, 7usize, 2usize);
    let layer = convolution::Convolution::create(
        tensor::Shape::Triple(1, ih, iw), 1, &activation::Activation::Linear, (k, k), (stride, stride), (0, 0), (dilation, dilation), None);
    let x: Vec<Vec<f32>> = (0..ih).map(|i| (0..iw).map(|j| ((i * iw + j) as f32 * 0.37).sin()).collect()).collect();
    let input = tensor::Tensor::triple(vec![x.clone()]);
    let (pre, _) = layer.forward(&input);
    let (oh, ow) = match pre.shape { tensor::Shape::Triple(_, h, w) => (h, w), _ => unreachable!() };
    let g: Vec<Vec<f32>> = (0..oh).map(|i| (0..ow).map(|j| 1.0 + (i * ow + j) as f32 * 0.5).collect()).collect();
    let (_, kg, _) = layer.backward(&tensor::Tensor::triple(vec![g.clone()]), &input, &pre);
    let got = match kg.data { tensor::Data::Quadruple(d) => d[0][0].clone(), _ => unreachable!() };
    let mut want = vec![vec![0.0f32; k]; k];
    for kh in 0..k { for kw in 0..k { for a in 0..oh { for b in 0..ow {
        want[kh][kw] += g[a][b] * x[a * stride + kh * dilation][b * stride + kw * dilation];
    }}}}
    (got, want)
}

fn close(a: &Vec<Vec<f32>>, b: &Vec<Vec<f32>>) -> bool {
    a.iter().zip(b).all(|(r, s)| r.iter().zip(s).all(|(x, y)| (x - y).abs() < 1e-4))
}

#[test]
fn stride_one_is_correct() { let (g, w) = kernel_gradient(1, 1); assert!(close(&g, &w), "{:?} vs {:?}", g, w); }

#[test]
fn stride_two_kernel_gradient() { let (g, w) = kernel_gradient(2, 1); assert!(close(&g, &w), "stride 2: library {:?}, derivative {:?}", g, w); }

#[test]
fn dilation_two_kernel_gradient() { let (g, w) = kernel_gradient(1, 2); assert!(close(&g, &w), "dilation 2: library {:?}, derivative {:?}", g, w); }
