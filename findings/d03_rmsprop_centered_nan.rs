// D3 (C03). Place as /repo/tests/d03.rs; `cargo test --test d03`.
// Centred RMSprop: velocity - gradient^2 is a variance (>= 0 over the reals) but rounding makes it
// slightly negative for a constant gradient; sqrt then yields NaN (step 1192 on the unfixed tree).
use neurons::{optimizer, tensor};

#[test]
fn centred_rmsprop_never_produces_nan() {
    let mut opt = optimizer::RMSprop::create(0.01, 0.99, 1e-8, None, None, true);
    opt.validate(vec![vec![vec![tensor::Tensor::single(vec![0.0]), tensor::Tensor::single(vec![])]]]);
    let mut w = tensor::Tensor::single(vec![0.5]);
    for step in 1..=3000 {
        let mut g = tensor::Tensor::single(vec![1.3]);
        opt.update(0, 0, false, step, &mut w, &mut g);
        if let tensor::Data::Single(d) = &w.data {
            assert!(d[0].is_finite(), "weight became {} at step {}", d[0], step);
        }
    }
}
