// D8 (C16). Place as /repo/tests/d08.rs; `cargo test --test d08`.
use neurons::{activation, network, tensor};

fn net() -> network::Network {
    let mut net = network::Network::new(tensor::Shape::Single(3));
    for _ in 0..4 {
        net.dense(3, activation::Activation::Linear, false, None);
    }
    net
}

#[test]
fn distinct_sources_and_targets_are_accepted() {
    let mut n = net();
    n.connect(0, 2);
    n.connect(2, 3); // unfixed: panics "Skip connection already exists for layer 2"
    assert_eq!(n.connect.len(), 2);
}

#[test]
fn second_connection_into_same_target_does_not_silently_replace() {
    let mut n = net();
    n.connect(0, 2);
    let r = std::panic::catch_unwind(std::panic::AssertUnwindSafe(|| n.connect(1, 2)));
    // either rejected, or the first one is kept
    assert!(r.is_err() || n.connect.get(&2) == Some(&0), "connect(0,2) was silently replaced by connect(1,2)");
}
