"""Fact extraction and loading.

`get_facts(repo)` returns the JSON fact object for the CURRENT working tree of
`repo` (default /repo).  Facts are cached under /verif/.cache/<hash>/ keyed by a
hash of Cargo.toml, Cargo.lock, src/**, the driver source and the profile, so
every check decides on the sources as they are now; a cache hit means byte-for-byte
identical inputs.
"""
import fcntl
import hashlib
import json
import os
import shutil
import subprocess
import sys
import time

VERIF = os.path.dirname(os.path.dirname(os.path.abspath(__file__)))
CACHE = os.environ.get("NN_VERIF_CACHE", os.path.join(VERIF, ".cache"))
DRIVER_DIR = os.path.join(VERIF, "driver")
DRIVER_BIN = os.path.join(DRIVER_DIR, "target", "release", "nn-facts")

PROFILES = {
    # dev profile: what `cargo test`/`cargo build` use (overflow checks on)
    "dev": "-Zmir-opt-level=0 -Awarnings",
    # release-like flags: overflow checks and debug assertions off
    "rel": "-Zmir-opt-level=0 -Awarnings -C overflow-checks=off -C debug-assertions=off",
}


class NoVerdict(Exception):
    """The tree cannot be analysed (does not compile / toolchain problem): exit 2."""


def _sysroot():
    return subprocess.check_output(["rustc", "+nightly", "--print", "sysroot"], text=True).strip()


def build_driver():
    src = os.path.join(DRIVER_DIR, "src", "main.rs")
    if os.path.exists(DRIVER_BIN) and os.path.getmtime(DRIVER_BIN) >= os.path.getmtime(src):
        return
    env = dict(os.environ, CARGO_NET_OFFLINE="true")
    r = subprocess.run(["cargo", "+nightly", "build", "--release", "--offline"], cwd=DRIVER_DIR,
                       env=env, stdout=subprocess.PIPE, stderr=subprocess.STDOUT, text=True)
    if r.returncode != 0:
        raise NoVerdict("driver build failed:\n" + r.stdout[-4000:])


def tree_hash(repo, profile, crate):
    h = hashlib.sha256()
    h.update(("profile=%s crate=%s v2\n" % (profile, crate)).encode())   # content-addressed: the only path-dependent fact is src_root, reset on load
    files = []
    for name in ("Cargo.toml", "Cargo.lock"):
        p = os.path.join(repo, name)
        if os.path.exists(p):
            files.append(p)
    for root, dirs, fs in os.walk(os.path.join(repo, "src")):
        dirs.sort()
        for f in sorted(fs):
            files.append(os.path.join(root, f))
    files.append(os.path.join(DRIVER_DIR, "src", "main.rs"))
    for p in files:
        h.update(os.path.relpath(p, repo).encode() + b"\0")
        with open(p, "rb") as fh:
            h.update(fh.read())
        h.update(b"\0")
    return h.hexdigest()[:24]


def get_facts(repo="/repo", profile="dev", crate="neurons", quiet=False, slot="", normalise=True):
    repo = os.path.abspath(repo)
    build_driver()
    key = tree_hash(repo, profile, crate)
    d = os.path.join(CACHE, "facts", key)
    out = os.path.join(d, "facts.json")
    os.makedirs(os.path.join(CACHE, "facts"), exist_ok=True)
    slot = slot or os.environ.get("NN_VERIF_SLOT", "")
    lockp = os.path.join(CACHE, "lock-" + profile + slot)
    with open(lockp, "w") as lk:
        fcntl.flock(lk, fcntl.LOCK_EX)
        if not os.path.exists(out):
            os.makedirs(d, exist_ok=True)
            tdir = os.path.join(CACHE, "target-" + profile + slot)
            # cargo's freshness cache would skip the wrapper on a warm target dir
            fp = os.path.join(tdir, "debug", ".fingerprint")
            if os.path.isdir(fp):
                for n in os.listdir(fp):
                    if n.startswith(crate + "-"):
                        shutil.rmtree(os.path.join(fp, n), ignore_errors=True)
            tmp = out + ".tmp"
            if os.path.exists(tmp):
                os.remove(tmp)
            env = dict(os.environ)
            env.update({
                "CARGO_NET_OFFLINE": "true",
                "LD_LIBRARY_PATH": _sysroot() + "/lib:" + env.get("LD_LIBRARY_PATH", ""),
                "RUSTFLAGS": PROFILES[profile],
                "RUSTC_WORKSPACE_WRAPPER": DRIVER_BIN,
                "NN_FACTS_OUT": tmp,
                "NN_FACTS_SRC": repo,
                "NN_FACTS_CRATE": crate,
                "CARGO_TARGET_DIR": tdir,
            })
            t0 = time.time()
            r = subprocess.run(["cargo", "+nightly", "check", "--offline", "--lib"], cwd=repo, env=env,
                               stdout=subprocess.PIPE, stderr=subprocess.STDOUT, text=True)
            if r.returncode != 0 or not os.path.exists(tmp):
                shutil.rmtree(d, ignore_errors=True)
                raise NoVerdict("cargo check of %s failed (exit %s); no program to judge:\n%s"
                                % (repo, r.returncode, r.stdout[-6000:]))
            os.rename(tmp, out)
            if not quiet:
                print("[facts] extracted %s (%s) in %.1fs -> %s" % (repo, profile, time.time() - t0, key),
                      file=sys.stderr)
            _prune()
    # second level: the facts after the (deterministic, source-only) pre-passes, keyed by the pre-pass sources and tables
    pk = None
    if normalise is True:
        import pickle
        pk = os.path.join(d, "processed-%s.pkl" % _prepass_hash())
        if os.path.exists(pk):
            try:
                with open(pk, "rb") as fh:
                    f = pickle.load(fh)
                f["src_root"] = repo
                return f
            except Exception:  # noqa: a truncated file from an interrupted run
                pass
    with open(out) as fh:
        f = json.load(fh)
    f["src_root"] = repo   # the cache is content-addressed (same Cargo files + src/** + driver + profile => same facts)
    f["_key"] = key
    f["_profile"] = profile
    if normalise:
        from . import names, inline, desugar
        desugar.run(f)
        inline.inline_new_helpers(f)
        desugar.run(f)      # inlined helper bodies may contain the same surface forms
        if normalise != "no-names":
            names.normalise(f)
    if pk is not None:
        import pickle
        try:
            tmpk = pk + ".%d.tmp" % os.getpid()
            with open(tmpk, "wb") as fh:
                pickle.dump(f, fh, protocol=pickle.HIGHEST_PROTOCOL)
            os.replace(tmpk, pk)
        except OSError:
            pass
    return f


_PREPASS_HASH = []


def _prepass_hash():
    if not _PREPASS_HASH:
        h = hashlib.sha256()
        here = os.path.dirname(os.path.abspath(__file__))
        for n in ("desugar.py", "inline.py", "names.py", "names.json", "pinned_fns.json", "hir.py"):
            try:
                with open(os.path.join(here, n), "rb") as fh:
                    h.update(fh.read())
            except OSError:
                h.update(b"-")
        _PREPASS_HASH.append(h.hexdigest()[:16])
    return _PREPASS_HASH[0]


def _prune(keep=1200):
    base = os.path.join(CACHE, "facts")
    ds = []
    for n in os.listdir(base):
        try:
            ds.append((os.path.getmtime(os.path.join(base, n)), n))
        except OSError:
            pass
    ds.sort()
    for _, n in ds[:-keep]:
        shutil.rmtree(os.path.join(base, n), ignore_errors=True)
