"""Element-wise arm extractor (front half of E1).

Given the body of a rank arm and the tensor roots bound by the arm's pattern, follow the
binding chain of the repository's traversal idioms down to the scalar level and return the
per-element scalar program together with a `cellname` function mapping scalar places to the
root they are an (aligned) element of.

Only a whitelist of "every element, aligned, in order" idioms is recognised:
  iter / iter_mut / into_iter / zip / enumerate / cloned / copied / map / for_each / collect /
  extend / sum / `for` over those / `(0..R.len()).for_each(|i| ..)` and `for j in 0..R[i].len()`
Anything else (rev, skip, take, step_by, chunks, filter, ...) raises Unrecognised.
"""
from .hir import strip, pretty, short, pat_binds, walk, children


class Unrecognised(Exception):
    pass


SCALAR_TYS = ("f32", "&f32", "&mut f32", "&&f32", "f64", "&f64")
SRC_METHODS = {"iter", "iter_mut", "into_iter"}
PASS_METHODS = {"cloned", "copied", "by_ref"}
WRAP_METHODS = {"collect", "sum", "count"}


class Result:
    def __init__(self):
        self.body = None          # scalar program node
        self.env = {}             # hid -> ("elem", root) | ("idx", level) | ("root", name, depth)
        self.levels = 0           # traversal depth reached
        self.reduction = None     # "sum" if the traversal result is summed
        self.style = []           # idioms seen, per level
        self.params = []          # closure/loop patterns per level

    def cellname(self, crate):
        env = self.env

        def f(n):
            n = strip(n)
            k = n.get("k")
            if k == "local" and n["hid"] in env:
                e = env[n["hid"]]
                if e[0] == "elem":
                    return e[1]
                return None
            if k == "index":
                # R[i][j].. with index vector == loop indices in order
                idx = []
                b = n
                while b.get("k") == "index":
                    idx.append(strip(b["i"]))
                    b = strip(b["b"])
                idx.reverse()
                if b.get("k") == "local" and b["hid"] in env and env[b["hid"]][0] == "root":
                    _, name, depth = env[b["hid"]]
                    lv = []
                    for i in idx:
                        if i.get("k") == "local" and i["hid"] in env and env[i["hid"]][0] == "idx":
                            lv.append(env[i["hid"]][1])
                        else:
                            return None
                    if lv == list(range(depth, depth + len(lv))) and (crate.ty(n) or "").lstrip("&") in ("f32", "mut f32"):
                        return name
            return None
        return f


def _unwrap_block(n):
    """A block consisting only of a tail / a single expression statement."""
    n = strip(n)
    while n is not None and n.get("k") == "blk":
        b = n["b"]
        if not b["stmts"] and b["tail"] is not None:
            n = strip(b["tail"])
        elif len(b["stmts"]) == 1 and b["tail"] is None and b["stmts"][0].get("k") != "let":
            n = strip(b["stmts"][0])
        else:
            break
    return n


def _is_range_len(n, lets=None):
    """`0..X.len()` -> X node, else None.  Also `0..X.len().min(Y.len())` (what zipping X and Y visits) -> X; a bound named by an
    immutable `let` is looked through."""
    n = strip(n)
    if n.get("k") == "struct" and n["path"] == "std::ops::Range":
        fs = dict((a, b) for a, b in n["fs"])
        st, en = strip(fs["start"]), strip(fs["end"])
        seen = 0
        while en is not None and en.get("k") == "local" and lets and en["hid"] in lets and seen < 4:
            en = strip(lets[en["hid"]])
            seen += 1
        if en is None or not (st.get("k") == "lit" and st["v"] == "0"):
            return None
        if en.get("k") == "mcall" and en["name"] == "len" and not en["args"]:
            return strip(en["recv"])
        ops = None
        if en.get("k") == "mcall" and en["name"] == "min" and len(en["args"]) == 1:
            ops = [strip(en["recv"]), strip(en["args"][0])]
        elif en.get("k") == "call" and str(en.get("callee", "")).endswith(("cmp::min", "Ord::min")) and len(en["args"]) == 2:
            ops = [strip(en["args"][0]), strip(en["args"][1])]
        if ops and all(o.get("k") == "mcall" and o["name"] == "len" and not o["args"] for o in ops):
            return strip(ops[0]["recv"])
    return None


class Extractor:
    def __init__(self, crate, roots):
        """roots: {hid: name} of the tensors bound by the arm pattern (depth 0)."""
        self.c = crate
        self.res = Result()
        for h, name in roots.items():
            self.res.env[h] = ("root", name, 0)

    # -- places
    def place(self, n):
        """Resolve X in `X.iter()` to ('root', name, depth): a root local, possibly indexed by loop indices."""
        n = strip(n)
        env = self.res.env
        if n.get("k") == "local" and n["hid"] in env and env[n["hid"]][0] == "root":
            return env[n["hid"]]
        if n.get("k") == "index":
            idx = []
            b = n
            while b.get("k") == "index":
                idx.append(strip(b["i"]))
                b = strip(b["b"])
            idx.reverse()
            if b.get("k") == "local" and b["hid"] in env and env[b["hid"]][0] == "root":
                _, name, depth = env[b["hid"]]
                for j, i in enumerate(idx):
                    if not (i.get("k") == "local" and i["hid"] in env and env[i["hid"]] == ("idx", depth + j)):
                        raise Unrecognised("index %s is not the loop index of level %d" % (pretty(i), depth + j))
                return ("root", name, depth + len(idx))
        raise Unrecognised("not a tensor root: %s" % short(pretty(n), 60))

    def source(self, n, level):
        """Iterator expression -> binding structure."""
        n = strip(n)
        k = n.get("k")
        if k == "mcall":
            nm = n["name"]
            if nm in SRC_METHODS and not n["args"]:
                r = self.place(n["recv"])
                if r[2] != level:
                    raise Unrecognised("traversal of %s at depth %d inside level %d" % (r[1], r[2], level))
                return ("root", r[1], r[2] + 1)
            if nm == "zip" and len(n["args"]) == 1:
                return ("tuple", [self.source(n["recv"], level), self.source(n["args"][0], level)])
            if nm == "enumerate":
                return ("tuple", [("idx", level), self.source(n["recv"], level)])
            if nm in PASS_METHODS:
                return self.source(n["recv"], level)
            if nm == "flatten" and not n["args"]:
                # `X.iter_mut().flatten()`: every element of every element, in order - one more level in the same loop
                inner = self.source(n["recv"], level)
                if inner[0] != "root":
                    raise Unrecognised("flatten of a zipped / enumerated traversal")
                self.flattened = getattr(self, "flattened", 0) + 1
                return ("root", inner[1], inner[2] + 1)
            raise Unrecognised("iterator adaptor `%s` is not an every-element, in-order traversal" % nm)
        if k in ("local", "index"):
            # `for x in data` / `for x in &data`
            r = self.place(n)
            if r[2] != level:
                raise Unrecognised("traversal of %s at depth %d inside level %d" % (r[1], r[2], level))
            return ("root", r[1], r[2] + 1)
        x = _is_range_len(n, getattr(self, "lets", None))
        if x is not None:
            r = self.place(x)
            if r[2] != level:
                raise Unrecognised("index range over depth %d at level %d" % (r[2], level))
            return ("idx", level)
        raise Unrecognised("unrecognised iteration source: %s" % short(pretty(n), 80))

    def bind(self, pat, item):
        env = self.res.env
        while pat.get("k") in ("ref", "deref"):
            pat = pat["p"]
        if item[0] == "tuple":
            if pat.get("k") != "tuple" or len(pat["ps"]) != len(item[1]):
                raise Unrecognised("closure pattern %s does not match the zipped structure" % pat.get("k"))
            for p, it in zip(pat["ps"], item[1]):
                self.bind(p, it)
            return
        if pat.get("k") == "wild":
            return
        if pat.get("k") != "bind":
            raise Unrecognised("unsupported element pattern")
        ty = self.c.types[pat["t"]]
        if item[0] == "idx":
            env[pat["hid"]] = ("idx", item[1])
        elif ty in SCALAR_TYS or ty.lstrip("&").replace("mut ", "") in ("f32", "f64"):
            env[pat["hid"]] = ("elem", item[1])
        else:
            env[pat["hid"]] = ("root", item[1], item[2])

    def scalar_reached(self):
        return any(e[0] == "elem" for e in self.res.env.values())

    def descend(self, n, level):
        n = _unwrap_block(n)
        k = n.get("k")
        res = self.res
        if k == "mcall":
            nm = n["name"]
            if nm in WRAP_METHODS:
                if nm == "sum":
                    res.reduction = "sum"
                return self.descend(n["recv"], level)
            if nm in ("extend", "push") and len(n["args"]) == 1:
                return self.descend(n["args"][0], level)       # the collection receives what the argument traversal yields
            if nm in SRC_METHODS | PASS_METHODS:
                # a bare traversal with no per-element closure: yields the elements themselves, in order
                item = self.source(n, level)
                if item[0] == "root":
                    res.levels = level + (3 - 0) if False else self._identity_levels(item, level)
                    res.style.append("identity")
                    res.body = {"k": "identity", "root": item[1]}
                    res.identity = item[1]
                    return res
            if nm in ("map", "for_each", "flat_map") and len(n["args"]) == 1:
                cl = strip(n["args"][0])
                if cl.get("k") != "closure" or len(cl["params"]) != 1:
                    raise Unrecognised("%s without a single-parameter closure" % nm)
                f0 = getattr(self, "flattened", 0)
                item = self.source(n["recv"], level)
                extra = getattr(self, "flattened", 0) - f0
                self.bind(cl["params"][0], item)
                res.style.append(nm)
                res.levels = level + 1 + extra
                return self.inner(cl["body"], level + 1 + extra, item)
            raise Unrecognised("unrecognised traversal method `%s`: %s" % (nm, short(pretty(n), 80)))
        if k == "call" and len(n.get("args") or []) == 1 and str(n.get("callee", "")).startswith(("tensor::Tensor::", "tensor::Data::")) \
                and str(n["callee"]).rsplit("::", 1)[-1].lower() in ("single", "double", "triple", "quadruple"):
            return self.descend(n["args"][0], level)           # `Tensor::single(<traversal>)`: the constructor only wraps the data
        if k in ("local", "index"):
            # a root passed whole to extend()/collect: all remaining levels in order
            r = self.place(n)
            if r[2] == level:
                res.style.append("identity")
                res.levels = self._identity_levels(("root", r[1], r[2] + 1), level)
                res.body = {"k": "identity", "root": r[1]}
                res.identity = r[1]
                return res
        if k == "for":
            f0 = getattr(self, "flattened", 0)
            item = self.source(n["iter"], level)
            extra = getattr(self, "flattened", 0) - f0
            self.bind(n["pat"], item)
            res.style.append("for")
            res.levels = level + 1 + extra
            return self.inner(n["body"], level + 1 + extra, item)
        if k == "blk":
            # a block with several statements: exactly one of them may contain the traversal
            b = n["b"]
            nodes = list(b["stmts"]) + ([b["tail"]] if b["tail"] is not None else [])
            cands = []
            self.lets = getattr(self, "lets", {})
            for s in nodes:
                if s.get("k") == "let" and s["pat"].get("k") == "bind" and s.get("init") is not None and "Mut)" not in str(s["pat"].get("mode")):
                    self.lets[s["pat"]["hid"]] = s["init"]
                    i0 = strip(s["init"])
                    while i0 is not None and i0.get("k") in ("ref",) and not i0.get("mut"):
                        i0 = strip(i0["x"])
                    if i0 is not None and i0.get("k") == "local" and i0["hid"] in self.res.env and self.res.env[i0["hid"]][0] == "root":
                        self.res.env[s["pat"]["hid"]] = self.res.env[i0["hid"]]        # `let row = t;`: another name for the same sub-tensor
            for s in nodes:
                tgt = s["init"] if s.get("k") == "let" else s
                if tgt is None:
                    continue
                if self.contains_traversal(tgt):
                    cands.append(tgt)
            if len(cands) != 1:
                raise Unrecognised("block with %d traversal statements" % len(cands))
            return self.descend(cands[0], level)
        raise Unrecognised("not a traversal: %s" % short(pretty(n), 80))

    def _identity_levels(self, item, level):
        """levels covered when the remaining sub-structure is taken whole: use the rank bookkeeping of the roots"""
        return getattr(self, "rank", level + 1)

    def contains_traversal(self, n):
        """does n contain an iteration (iter/iter_mut/into_iter/for/0..len) over a known root?"""
        for x in walk(n):
            k = x.get("k")
            try:
                if k == "mcall" and x["name"] in SRC_METHODS and not x["args"]:
                    self.place(x["recv"])
                    return True
                if k == "for":
                    it = strip(x["iter"])
                    r = _is_range_len(it, getattr(self, "lets", None))
                    self.place(r if r is not None else it)
                    return True
                if k == "mcall" and x["name"] in ("for_each", "map"):
                    r = _is_range_len(x["recv"], getattr(self, "lets", None))
                    if r is not None:
                        self.place(r)
                        return True
            except Unrecognised:
                continue
        return False

    def inner(self, body, level, item):
        if self.scalar_reached() or self._idx_scalar(body):
            self.res.body = body
            return self.res
        return self.descend(body, level)

    def _idx_scalar(self, body):
        """index-loop style: the body addresses f32 cells R[i][j].. of the roots"""
        cn = self.res.cellname(self.c)
        for x in walk(body, into_closures=False):
            if x.get("k") == "index" and cn(x) is not None:
                # make sure there is no deeper loop below
                deeper = [y for y in walk(body, into_closures=True) if y.get("k") == "for" or (y.get("k") == "mcall" and y["name"] in ("for_each", "map"))]
                return not deeper
        return False


def extract(crate, arm_body, roots, rank=None):
    ex = Extractor(crate, roots)
    if rank is not None:
        ex.rank = rank
    r = ex.descend(arm_body, 0)
    if r.body is None:
        raise Unrecognised("no scalar level found")
    return r
