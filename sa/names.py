"""Name normalisation of local variables.

No property is about the *name* of a local variable, but many rules locate a construct through the
name it has on the pinned tree (`activated`, `fposts`, `current` ...).  To keep a pure renaming (the
most common behaviour-preserving edit) from changing any verdict, every binding gets a structural
signature -- its position (n-th parameter; the pattern slot of a `let` / `for` / match arm / closure)
plus the rendered text of the expression it is bound from, with the already-normalised names of the
earlier bindings substituted -- and `names.json` (generated once from the pinned tree by
`tools/gen_names.py`) maps signature -> the name on the pinned tree.  `normalise(facts)` renames every
binding whose signature is in the table (the `hid` identity of bindings is untouched, so data flow is
exactly what rustc resolved); a binding with an unknown signature keeps the name written in the source.
The mapping is per function and injective on signatures (duplicates get an ordinal), so two distinct
bindings are never merged and no use is ever redirected: only the spelling changes.
"""
import hashlib
import re
import json
import os

from .hir import pretty, pat_binds, npretty

TABLE = os.path.join(os.path.dirname(os.path.abspath(__file__)), "names.json")


def _pat_shape(p):
    if p is None:
        return "_"
    k = p.get("k")
    if k == "bind":
        return "$" + ("@" + _pat_shape(p["sub"]) if p.get("sub") else "")
    if k in ("tuple", "or"):
        return k + "(" + ",".join(_pat_shape(q) for q in p["ps"]) + ")"
    if k == "tstruct":
        return p["path"] + "(" + ",".join(_pat_shape(q) for q in p["ps"]) + ")"
    if k == "struct":
        return p["path"] + "{" + ",".join("%s:%s" % (a, _pat_shape(q)) for a, q in p["fs"]) + "}"
    if k in ("ref", "deref"):
        return "&" + _pat_shape(p["p"])
    if k == "ppath":
        return p["path"]
    if k == "plit":
        return "lit"
    return k or "?"


def _binds(p):
    """bind nodes of a pattern, in order."""
    out = []
    if p is None:
        return out
    k = p.get("k")
    if k == "bind":
        out.append(p)
        if p.get("sub"):
            out += _binds(p["sub"])
    elif k in ("tuple", "tstruct", "or"):
        for q in p["ps"]:
            out += _binds(q)
    elif k == "struct":
        for _, q in p["fs"]:
            out += _binds(q)
    elif k in ("ref", "deref"):
        out += _binds(p["p"])
    return out


class _Walker:
    def __init__(self, table, record, types=None):
        self.types = types or []
        self.known = set(table.values()) if table else set()
        self.table = table        # sig -> name (None when recording)
        self.record = record      # dict to fill when generating
        self.ren = {}             # hid -> name
        self.sigof = {}           # hid -> signature (structural identity of the binding, independent of any name)
        self.seen = {}            # sig -> count
        self.renamed = 0

    def bind(self, pat, ctx):
        shape = _pat_shape(pat)
        for i, b in enumerate(_binds(pat)):
            if b.get("name") == "self":
                continue
            ty = self.types[b["t"]] if b.get("t") is not None and b["t"] < len(self.types) else "?"
            ty = re.sub(r"@[^}]*", "", ty)   # closure types carry file:line:col
            raw = "%s|%s|%d|%s|%s" % (ctx, shape, i, ty, b.get("mode"))
            sig = hashlib.sha1(raw.encode()).hexdigest()[:16]
            k = self.seen.get(sig, 0)
            self.seen[sig] = k + 1
            sig = "%s#%d" % (sig, k)
            self.sigof[b["hid"]] = sig
            if self.record is not None:
                self.record[sig] = b["name"]
            elif self.table is not None and sig in self.table and b["name"] not in self.known:
                # a binding that still carries a pinned-tree name was not renamed by the edit: leave it
                want = self.table[sig]
                if want != b["name"]:
                    self.ren[b["hid"]] = want
                    b["name"] = want
                    self.renamed += 1

    def fix(self, n):
        """apply pending renames to the `local` nodes under n (needed before rendering it)."""
        if not self.ren or n is None:
            return
        stack = [n]
        while stack:
            x = stack.pop()
            if isinstance(x, dict):
                if x.get("k") == "local" and x.get("hid") in self.ren:
                    x["name"] = self.ren[x["hid"]]
                stack.extend(x.values())
            elif isinstance(x, list):
                stack.extend(x)

    def text(self, n):
        """rendering used inside signatures: locals are spelled by the signature of their binding, not by name, so that
        one unrecognised name does not change the signatures of the bindings computed from it"""
        if n is None:
            return ""
        self.fix(n)
        import copy
        m = copy.deepcopy(n)
        # closures and statement blocks inside the expression are identified by the calls they make, in order
        # (so inserting a statement into such a body does not change the identity of the binding computed from it)
        from .hir import calls as _calls
        stack = [m]
        while stack:
            x = stack.pop()
            if isinstance(x, dict):
                if x.get("k") == "closure" and isinstance(x.get("body"), dict):
                    x["body"] = {"k": "lit", "v": "<" + ",".join(sorted(c_.rsplit("::", 1)[-1] for _, c_ in _calls(x["body"]))) + ">"}
                elif x.get("k") == "blk" and isinstance(x.get("b"), dict) and x["b"].get("stmts"):
                    x["b"] = {"k": "block", "stmts": [], "tail": {"k": "lit", "v": "<" + ",".join(sorted(c_.rsplit("::", 1)[-1] for _, c_ in _calls(x))) + ">"}}
                stack.extend(v for v in x.values() if isinstance(v, (dict, list)))
            elif isinstance(x, list):
                stack.extend(x)
        stack = [m]
        while stack:
            x = stack.pop()
            if isinstance(x, dict):
                if x.get("k") in ("local", "bind") and x.get("hid") in self.sigof and x.get("name") != "self":
                    x["name"] = "$" + self.sigof[x["hid"]][:10]
                stack.extend(x.values())
            elif isinstance(x, list):
                stack.extend(x)
        return npretty(m)

    def visit(self, n, clctx="free"):
        if n is None:
            return
        if isinstance(n, list):
            for x in n:
                self.visit(x)
            return
        if not isinstance(n, dict):
            return
        k = n.get("k")
        if k in ("let", "letx"):
            self.visit(n.get("init"))
            self.bind(n["pat"], "let:" + self.text(n.get("init")))
            self.visit(n.get("els"))
            return
        if k == "for":
            self.visit(n["iter"])
            self.bind(n["pat"], "for:" + self.text(n["iter"]))
            self.visit(n["body"])
            return
        if k == "match":
            self.visit(n["scrut"])
            sc = self.text(n["scrut"])
            for a in n["arms"]:
                self.bind(a["pat"], "arm:" + sc)
                self.visit(a.get("guard"))
                self.visit(a["body"])
            return
        if k == "closure":
            for i, p in enumerate(n["params"]):
                self.bind(p, "cl:%s:%d" % (clctx, i))
            self.visit(n["body"])
            return
        if k == "mcall":
            self.visit(n["recv"])
            rc = None
            for i, a in enumerate(n["args"]):
                if isinstance(a, dict) and a.get("k") == "closure":
                    if rc is None:
                        rc = self.text(n["recv"])
                    self.visit(a, "%s(%s)#%d" % (n["callee"], rc, i))
                else:
                    self.visit(a)
            return
        if k == "call":
            self.visit(n.get("f"))
            for i, a in enumerate(n["args"]):
                if isinstance(a, dict) and a.get("k") == "closure":
                    self.visit(a, "%s#%d" % (n.get("callee"), i))
                else:
                    self.visit(a)
            return
        for key, v in n.items():
            if key in ("k", "t", "ta", "line", "id", "hid", "name", "pat"):
                continue
            if isinstance(v, (dict, list)):
                self.visit(v)


def _run(fn, table, record, types=None):
    w = _Walker(table, record, types)
    for i, p in enumerate(fn.get("params") or []):
        w.bind(p, "param%d" % i)
    w.visit(fn.get("body"))
    w.fix(fn.get("body"))
    return w.renamed


def signatures(facts):
    """{fn path: {signature: name}} of the given (un-normalised) facts."""
    out = {}
    for path, fn in facts["fns"].items():
        rec = {}
        _run(fn, None, rec, facts["types"])
        if rec:
            out[path] = rec
    return out


_cache = {}


def load_table():
    if "t" not in _cache:
        try:
            with open(TABLE) as fh:
                _cache["t"] = json.load(fh)
        except OSError:
            _cache["t"] = {}
    return _cache["t"]


def normalise(facts):
    """Rename bindings to the pinned tree's names where their signature is known. Returns #renamed."""
    table = load_table()
    total = 0
    for path, fn in facts["fns"].items():
        t = table.get(path)
        if t:
            total += _run(fn, t, None, facts["types"])
    facts["_names_normalised"] = total
    return total
