"""Helpers over the JSON mirror of typed HIR produced by the driver."""


class Crate:
    def __init__(self, facts):
        self.f = facts
        self.types = facts["types"]
        self.fns = facts["fns"]
        self.mir = facts["mir"]
        self.adts = facts["adts"]

    def fn(self, path):
        return self.fns.get(path)

    def ty(self, node):
        t = node.get("t")
        return self.types[t] if t is not None else None

    def tya(self, node):
        t = node.get("ta", node.get("t"))
        return self.types[t] if t is not None else None

    def loc(self, fn, node=None):
        line = None
        if node is not None:
            line = node.get("line")
        if line is None:
            line = fn["line"]
        return "%s:%s" % (fn["file"], line)

    def mir_bodies(self, fnpath):
        """MIR fact records of a fn and of all closures nested in it."""
        return [(k, v["facts"]) for k, v in self.mir.items() if v["parent"] == fnpath]


CHILD_KEYS = {
    "mcall": ("recv", "args"), "call": ("f", "args"), "bin": ("l", "r"), "un": ("x",),
    "assignop": ("l", "r"), "assign": ("l", "r"), "index": ("b", "i"), "field": ("b",),
    "ref": ("x",), "cast": ("x",), "tup": ("xs",), "blk": ("b",), "if": ("c", "th", "el"),
    "letx": ("init",), "match": ("scrut", "arms"), "closure": ("body",), "loop": ("body",),
    "break": ("v",), "ret": ("v",), "struct": ("fs", "base"), "array": ("xs",), "repeat": ("x",),
    "for": ("iter", "body"), "block": ("stmts", "tail"), "let": ("init", "els"),
}


def children(n):
    """Direct child expression/statement nodes of n (in evaluation-ish order)."""
    k = n.get("k")
    if k is None:
        # match arm
        if "pat" in n and "body" in n:
            out = []
            if n.get("guard"):
                out.append(n["guard"])
            out.append(n["body"])
            return out
        return []
    out = []
    for key in CHILD_KEYS.get(k, ()):
        v = n.get(key)
        if v is None:
            continue
        if isinstance(v, list):
            for x in v:
                if isinstance(x, list):  # struct field [name, expr]
                    out.append(x[1])
                elif isinstance(x, dict):
                    out.append(x)
        elif isinstance(v, dict):
            out.append(v)
    return out


def walk(n, into_closures=True):
    """Pre-order traversal of all nodes below (and including) n."""
    stack = [n]
    while stack:
        x = stack.pop()
        if x is None:
            continue
        yield x
        if x.get("k") == "closure" and not into_closures and x is not n:
            continue
        cs = children(x)
        for c in reversed(cs):
            stack.append(c)


def find(n, pred, into_closures=True):
    return [x for x in walk(n, into_closures) if pred(x)]


def calls(n, into_closures=True):
    """All call-like nodes with a resolved callee: (node, callee)."""
    out = []
    for x in walk(n, into_closures):
        k = x.get("k")
        if k == "mcall":
            out.append((x, x["callee"]))
        elif k == "call" and x.get("callee"):
            out.append((x, x["callee"]))
    return out


def strip(n):
    """Strip transparent wrappers: blocks with only a tail, refs, derefs, DropTemps, parens."""
    while n is not None:
        k = n.get("k")
        if k == "blk" and not n["b"]["stmts"] and n["b"]["tail"] is not None:
            n = n["b"]["tail"]
        elif k == "ref":
            n = n["x"]
        elif k == "un" and n["op"] == "Deref":
            n = n["x"]
        else:
            break
    return n


def pat_binds(p):
    """All bindings (name, hid) in a pattern."""
    out = []
    if p is None:
        return out
    k = p.get("k")
    if k == "bind":
        out.append((p["name"], p["hid"]))
        if p.get("sub"):
            out += pat_binds(p["sub"])
    elif k in ("tuple", "tstruct", "or"):
        for q in p["ps"]:
            out += pat_binds(q)
    elif k == "struct":
        for _, q in p["fs"]:
            out += pat_binds(q)
    elif k in ("ref", "deref"):
        out += pat_binds(p["p"])
    return out


def pat_str(p):
    if p is None:
        return "_"
    k = p.get("k")
    if k == "bind":
        return p["name"]
    if k == "tuple":
        return "(" + ", ".join(pat_str(q) for q in p["ps"]) + ")"
    if k == "tstruct":
        return p["path"] + "(" + ", ".join(pat_str(q) for q in p["ps"]) + ")"
    if k == "struct":
        return p["path"] + "{" + ", ".join("%s: %s" % (a, pat_str(q)) for a, q in p["fs"]) + "}"
    if k == "ref":
        return "&" + pat_str(p["p"])
    if k == "deref":
        return pat_str(p["p"])
    if k == "wild":
        return "_"
    if k == "ppath":
        return p["path"]
    if k == "plit":
        return ("-" if p.get("neg") else "") + p["v"]
    if k == "or":
        return " | ".join(pat_str(q) for q in p["ps"])
    return "<pat:%s>" % k


BINOPS = {"Add": "+", "Sub": "-", "Mul": "*", "Div": "/", "Rem": "%", "And": "&&", "Or": "||",
          "Lt": "<", "Le": "<=", "Gt": ">", "Ge": ">=", "Eq": "==", "Ne": "!=", "BitAnd": "&",
          "BitOr": "|", "BitXor": "^", "Shl": "<<", "Shr": ">>"}


def pretty(n, depth=0):
    """Compact pseudo-Rust rendering (for reports and debugging)."""
    if n is None:
        return ""
    k = n.get("k")
    p = pretty
    if k == "lit":
        return n["v"]
    if k == "local":
        return n["name"]
    if k == "path":
        return n["def"]
    if k == "mcall":
        return "%s.%s(%s)" % (p(n["recv"]), n["name"], ", ".join(p(a) for a in n["args"]))
    if k == "call":
        return "%s(%s)" % (n["callee"] or p(n["f"]), ", ".join(p(a) for a in n["args"]))
    if k == "bin":
        return "(%s %s %s)" % (p(n["l"]), BINOPS.get(n["op"], n["op"]), p(n["r"]))
    if k == "un":
        return {"Deref": "*", "Not": "!", "Neg": "-"}.get(n["op"], n["op"]) + p(n["x"])
    if k == "assignop":
        return "%s %s= %s" % (p(n["l"]), BINOPS.get(n["op"].replace("Assign", ""), n["op"]), p(n["r"]))
    if k == "assign":
        return "%s = %s" % (p(n["l"]), p(n["r"]))
    if k == "index":
        return "%s[%s]" % (p(n["b"]), p(n["i"]))
    if k == "field":
        return "%s.%s" % (p(n["b"]), n["f"])
    if k == "ref":
        return ("&mut " if n["mut"] else "&") + p(n["x"])
    if k == "cast":
        return "(%s as _)" % p(n["x"])
    if k == "tup":
        return "(" + ", ".join(p(a) for a in n["xs"]) + ")"
    if k == "blk":
        return p(n["b"])
    if k == "block":
        parts = [p(s) for s in n["stmts"]]
        if n["tail"] is not None:
            parts.append(p(n["tail"]))
        return "{ " + "; ".join(parts) + " }"
    if k == "let":
        return "let %s = %s" % (pat_str(n["pat"]), p(n["init"]))
    if k == "if":
        s = "if %s %s" % (p(n["c"]), p(n["th"]))
        if n["el"] is not None:
            s += " else " + p(n["el"])
        return s
    if k == "letx":
        return "let %s = %s" % (pat_str(n["pat"]), p(n["init"]))
    if k == "match":
        return "match %s { %s }" % (p(n["scrut"]), ", ".join(
            "%s%s => %s" % (pat_str(a["pat"]), (" if " + p(a["guard"])) if a["guard"] else "", p(a["body"]))
            for a in n["arms"]))
    if k == "closure":
        return "|%s| %s" % (", ".join(pat_str(q) for q in n["params"]), p(n["body"]))
    if k == "for":
        return "for %s in %s %s" % (pat_str(n["pat"]), p(n["iter"]), p(n["body"]))
    if k == "loop":
        return "loop %s" % p(n["body"])
    if k == "break":
        return "break"
    if k == "continue":
        return "continue"
    if k == "ret":
        return "return %s" % p(n["v"])
    if k == "struct":
        return "%s { %s }" % (n["path"], ", ".join("%s: %s" % (a, p(b)) for a, b in n["fs"]))
    if k == "array":
        return "[" + ", ".join(p(a) for a in n["xs"]) + "]"
    if k == "repeat":
        return "[%s; _]" % p(n["x"])
    return "<%s>" % k


def is_panic(n):
    """Macro-expanded diverging code (panic!/unimplemented!/assert failure arm)."""
    return n.get("mac") in ("panic", "unimplemented", "unreachable", "todo")


def short(s, n=160):
    return s if len(s) <= n else s[: n - 3] + "..."


# ---------------------------------------------------------------------------------------------
# canonical pretty-printing: immutable simple `let`s are inlined, so introducing / removing /
# renaming a temporary does not change the text that rules compare.

def let_table(body):
    """hid -> init node for `let x = <init>` with a plain, immutable, single binding pattern."""
    t = {}
    for s in walk(body):
        if s.get("k") == "let" and s.get("init") is not None and s["pat"].get("k") == "bind" and "Mut" not in s["pat"].get("mode", ""):
            t[s["pat"]["hid"]] = s["init"]
    return t


def _pure(n):
    for x in walk(n):
        if x.get("k") in ("assign", "assignop", "closure", "for", "loop", "match", "if", "break", "continue", "ret"):
            return False
    return True


def cpretty(n, table, depth=0):
    """pretty() after inlining the immutable lets of `table` (only pure initialisers) and dropping `&`/`*`."""
    if n is None:
        return ""
    k = n.get("k")
    if k == "local" and n["hid"] in table and depth < 6:
        init = table[n["hid"]]
        if _pure(init):
            return cpretty(init, table, depth + 1)
        return n["name"]
    if k == "ref":
        return cpretty(n["x"], table, depth)
    if k == "un" and n["op"] == "Deref":
        return cpretty(n["x"], table, depth)
    if k == "blk" and not n["b"]["stmts"] and n["b"]["tail"] is not None:
        return cpretty(n["b"]["tail"], table, depth)
    c = lambda x: cpretty(x, table, depth)
    if k == "mcall":
        return "%s.%s(%s)" % (c(n["recv"]), n["name"], ", ".join(c(a) for a in n["args"]))
    if k == "call":
        return "%s(%s)" % (n["callee"] or c(n["f"]), ", ".join(c(a) for a in n["args"]))
    if k == "bin":
        return "(%s %s %s)" % (c(n["l"]), BINOPS.get(n["op"], n["op"]), c(n["r"]))
    if k == "index":
        return "%s[%s]" % (c(n["b"]), c(n["i"]))
    if k == "field":
        return "%s.%s" % (c(n["b"]), n["f"])
    if k == "cast":
        return "(%s as _)" % c(n["x"])
    if k == "tup":
        return "(" + ", ".join(c(a) for a in n["xs"]) + ")"
    if k == "un":
        return {"Not": "!", "Neg": "-"}.get(n["op"], n["op"]) + c(n["x"])
    if k == "assign":
        return "%s = %s" % (pretty(n["l"]), c(n["r"]))
    if k == "assignop":
        return "%s %s= %s" % (pretty(n["l"]), BINOPS.get(n["op"].replace("Assign", ""), n["op"]), c(n["r"]))
    return pretty(n)


def resolve(n, table, depth=0):
    """follow immutable pure lets and strip refs/derefs/transparent blocks: the expression a local stands for"""
    n = strip(n)
    while n is not None and n.get("k") == "local" and n["hid"] in table and depth < 8 and _pure(table[n["hid"]]):
        n = strip(table[n["hid"]])
        depth += 1
    return n


# ---------------------------------------------------------------------------------------------
# operand-order canonical form: `1 + j` and `j + 1`, `a == b` and `b == a`, `a > b` and `b < a` print the same

_COMMUT = {"Add", "Mul", "Eq", "Ne", "And", "Or", "BitAnd", "BitOr", "BitXor"}
_SWAP = {"Gt": "Lt", "Ge": "Le"}


def canon(n):
    """copy of the tree with operands of exactly-commutative operators sorted and > / >= turned into < / <="""
    if isinstance(n, list):
        return [canon(x) for x in n]
    if not isinstance(n, dict):
        return n
    d = {k: canon(v) for k, v in n.items()}
    if d.get("k") == "if" and d.get("el") is not None:
        c_ = d["c"]
        while c_ is not None and c_.get("k") == "blk" and not c_["b"]["stmts"] and c_["b"]["tail"] is not None:
            c_ = c_["b"]["tail"]
        while c_ is not None and c_.get("k") == "un" and c_.get("op") == "Not":
            el = d["el"]
            if el.get("k") == "blk" and not el["b"]["stmts"] and el["b"]["tail"] is not None and el["b"]["tail"].get("k") == "if":
                el = el["b"]["tail"]          # `else { if .. }` prints like `else if ..`
            d["c"], d["th"], d["el"] = c_["x"], el, d["th"]
            c_ = d["c"]
            while c_ is not None and c_.get("k") == "blk" and not c_["b"]["stmts"] and c_["b"]["tail"] is not None:
                c_ = c_["b"]["tail"]
    if d.get("k") == "match" and len(d.get("arms", [])) >= 2 and all(a.get("guard") is None for a in d["arms"]):
        def vpath(p):
            while p.get("k") in ("ref", "deref"):
                p = p["p"]
            return p.get("path") if p.get("k") in ("tstruct", "ppath", "struct") else None
        arms, last = d["arms"], []
        pl = arms[-1]["pat"]
        while pl.get("k") in ("ref", "deref"):
            pl = pl["p"]
        if pl.get("k") == "wild":
            arms, last = arms[:-1], arms[-1:]
        paths = [vpath(a["pat"]) for a in arms]
        if len(arms) >= 2 and all(paths) and len(set(paths)) == len(paths):
            d["arms"] = [a for _, a in sorted(zip(paths, arms), key=lambda z: z[0])] + last
    if d.get("k") == "bin":
        if d["op"] in _SWAP:
            d["op"] = _SWAP[d["op"]]
            d["l"], d["r"] = d["r"], d["l"]
        elif d["op"] in _COMMUT and pretty(d["r"]) < pretty(d["l"]):
            d["l"], d["r"] = d["r"], d["l"]
    return d


def npretty(n):
    return pretty(canon(n))


# ---------------------------------------------------------------------------------------------
# `if let P = e { A } else { B }` read as `match e { P => A, _ => B }` (for rules that are stated on match arms)

_MATCHIFIED = {}


def matchified(fn):
    """copy of a function record in which every `if let PAT = e {A} [else {B}]` (not part of a let-chain) is a two-armed match"""
    import copy
    key = id(fn)
    if key in _MATCHIFIED and _MATCHIFIED[key][0] is fn:
        return _MATCHIFIED[key][1]
    f2 = copy.deepcopy(fn)

    def rec(n):
        if isinstance(n, list):
            return [rec(x) for x in n]
        if not isinstance(n, dict):
            return n
        for k_, v in list(n.items()):
            if isinstance(v, (dict, list)):
                n[k_] = rec(v)
        if n.get("k") == "if":
            c = n["c"]
            while c is not None and c.get("k") == "blk" and not c["b"]["stmts"] and c["b"]["tail"] is not None:
                c = c["b"]["tail"]
            if c is not None and c.get("k") == "letx":
                el = n["el"] if n["el"] is not None else {"k": "tup", "xs": [], "line": n.get("line")}
                return {"k": "match", "scrut": c["init"], "src": "Normal", "line": n.get("line"), "t": n.get("t"), "from_if_let": True,
                        "arms": [{"pat": c["pat"], "guard": None, "body": n["th"]}, {"pat": {"k": "wild"}, "guard": None, "body": el}]}
        return n
    f2["body"] = rec(f2["body"])
    _MATCHIFIED[key] = (fn, f2)
    return f2
