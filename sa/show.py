import sys, json
sys.path.insert(0, '/verif')
from sa.facts import get_facts
from sa.hir import Crate, pretty
f = get_facts(sys.argv[1] if len(sys.argv) > 2 else '/repo')
c = Crate(f)
name = sys.argv[-1]
for k, fn in c.fns.items():
    if k.endswith(name):
        print('==', k, fn['vis'], fn['inputs'], '->', fn['output'])
        print(pretty(fn['body']))
        for mk, m in c.mir_bodies(k):
            print('  MIR', mk, 'calls', len(m['calls']), 'writes', [(w['place'], w['const']) for w in m['writes']], 'asserts', [(a['kind'], a['ops']) for a in m['asserts']])
