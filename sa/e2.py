"""E2: interval / sign / NaN abstract interpretation with symbolic bounds.

Abstract value: extended-real interval [lo, hi] (Fractions or +-inf), a may-be-NaN bit and
two sets of symbolic bounds: lbs = {(sym, off)} meaning value >= sym + off, ubs likewise
value <= sym + off.  Float soundness: every float operation is monotone (IEEE-754, round
to nearest), so the rounded result of an exact result in [a, b] lies in [down32(a), up32(b)];
after every f32 operation the interval is widened outward to representable f32 values.
Symbolic bounds are only propagated through operations for which monotonicity makes them
exact (documented at each rule).  Integer arithmetic is exact and produces overflow /
division obligations that the caller must see discharged.

This is an abstract interpreter over the straight-line code of a few small functions; it does
not enumerate program paths and hands nothing to a solver.
"""
import struct
from fractions import Fraction as Fr

from .hir import strip, pretty, short, pat_binds

INF = float("inf")


# ---------------------------------------------------------------- f32 helpers
def _f32_bits(d):
    return struct.unpack("<I", struct.pack("<f", d))[0]


def _bits_f32(b):
    return struct.unpack("<f", struct.pack("<I", b))[0]


F32_MAX = Fr(_bits_f32(0x7F7FFFFF))


def _next_up(f):
    if f == 0.0:
        return _bits_f32(1)
    b = _f32_bits(f)
    return _bits_f32(b + 1) if f > 0 else _bits_f32(b - 1)


def _next_down(f):
    if f == 0.0:
        return -_bits_f32(1)
    b = _f32_bits(f)
    return _bits_f32(b - 1) if f > 0 else _bits_f32(b + 1)


def up32(x):
    """smallest f32 >= x (x Fraction or +-inf)"""
    if x in (INF, -INF):
        return x
    if x > F32_MAX:
        return INF
    if x < -F32_MAX:
        return -F32_MAX
    f = _bits_f32(_f32_bits(float(x)))
    while Fr(f) < x:
        f = _next_up(f)
    while True:
        g = _next_down(f)
        if Fr(g) >= x:
            f = g
        else:
            break
    return Fr(f)


def down32(x):
    if x in (INF, -INF):
        return x
    r = up32(-x)
    return -r if r not in (INF, -INF) else -r


def near32(x):
    """f32 nearest to the exact rational x (ties to even)."""
    lo, hi = down32(x), up32(x)
    if lo == hi:
        return lo
    if hi == INF:
        return INF if x - lo >= (Fr(2) ** 127 * (2 - Fr(2) ** -23) - lo) else lo  # pragma: no cover
    dl, dh = x - lo, hi - x
    if dl < dh:
        return lo
    if dh < dl:
        return hi
    return lo if _f32_bits(float(lo)) % 2 == 0 else hi


INT_RANGES = {
    "u8": (0, 2 ** 8 - 1), "u16": (0, 2 ** 16 - 1), "u32": (0, 2 ** 32 - 1), "u64": (0, 2 ** 64 - 1),
    "usize": (0, 2 ** 64 - 1), "i8": (-2 ** 7, 2 ** 7 - 1), "i16": (-2 ** 15, 2 ** 15 - 1),
    "i32": (-2 ** 31, 2 ** 31 - 1), "i64": (-2 ** 63, 2 ** 63 - 1), "isize": (-2 ** 63, 2 ** 63 - 1),
}


class AV:
    __slots__ = ("lo", "hi", "nan", "lbs", "ubs", "ty")

    def __init__(self, lo, hi, nan=False, lbs=(), ubs=(), ty="f32"):
        self.lo, self.hi, self.nan = lo, hi, nan
        self.lbs, self.ubs = frozenset(lbs), frozenset(ubs)
        self.ty = ty

    def __repr__(self):
        def b(x):
            return str(x) if x in (INF, -INF) else (str(x.numerator) if x.denominator == 1 else "%.9g" % float(x))
        s = "[%s, %s]" % (b(self.lo), b(self.hi))
        if self.nan:
            s += "|NaN"
        if self.lbs:
            s += " >={%s}" % ",".join("%s%+d" % (a, o) if o else a for a, o in sorted(self.lbs))
        if self.ubs:
            s += " <={%s}" % ",".join("%s%+d" % (a, o) if o else a for a, o in sorted(self.ubs))
        return s

    @property
    def is_int(self):
        return self.ty in INT_RANGES

    def const(self):
        return self.lo if (self.lo == self.hi and not self.nan and self.lo not in (INF, -INF)) else None

    def le_sym(self, sym, off=0):
        return any(s == sym and o <= off for (s, o) in self.ubs)

    def ge_sym(self, sym, off=0):
        return any(s == sym and o >= off for (s, o) in self.lbs)


def top(ty):
    if ty in INT_RANGES:
        lo, hi = INT_RANGES[ty]
        return AV(Fr(lo), Fr(hi), False, ty=ty)
    return AV(-INF, INF, True, ty=ty)


def finite(ty="f32"):
    return AV(-F32_MAX, F32_MAX, False, ty=ty)


def join(a, b):
    return AV(min(a.lo, b.lo), max(a.hi, b.hi), a.nan or b.nan, a.lbs & b.lbs, a.ubs & b.ubs, a.ty)


def _mul(x, y):
    if x == 0 or y == 0:
        return Fr(0)  # 0 * inf handled separately (NaN bit)
    if x in (INF, -INF) or y in (INF, -INF):
        return INF if (x > 0) == (y > 0) else -INF
    return x * y


def _join_maps(a, b):
    out = {}
    for k in set(a) | set(b):
        if k in a and k in b:
            out[k] = a[k] if a[k] is b[k] else join(a[k], b[k])
        # a key defined on one side only is a branch-local binding: dropped
    return out


def _find_bind(p, hid):
    if p.get("k") == "bind" and p["hid"] == hid:
        return p
    for q in p.get("ps", []) or []:
        r = _find_bind(q, hid)
        if r:
            return r
    if p.get("k") in ("ref", "deref"):
        return _find_bind(p["p"], hid)
    if p.get("k") == "bind" and p.get("sub"):
        return _find_bind(p["sub"], hid)
    return None


class Eval:
    """Evaluates HIR expressions abstractly.

    env: hid -> AV for locals; fields: name -> AV for `self.<name>`;
    ob(kind, ok, node, detail) records an obligation; summaries: callee -> fn(evaluator, node, recv, args) -> AV
    """

    def __init__(self, crate, env, fields, ob, summaries=None, sym_of=None):
        self.c = crate
        self.env = dict(env)
        self.fields = dict(fields)
        self.ob = ob
        self.summaries = summaries or {}
        self.sym_of = sym_of or (lambda n: None)
        self.ret = None
        self.symfacts = {}     # sym -> (lo, hi) refinements valid at the current program point
        self.cellkey = lambda n: None   # node -> key of an abstract cell (element of a tensor root)
        self.cells = {}                 # key -> AV
        self.some = {}                  # place name -> AV of the payload of `if let Some(x) = <place>`
        self.inv_fields = {}   # field -> AV loop/struct invariant (assumed at loop heads, re-checked after bodies)

    # -- float rounding
    def _fl(self, lo, hi, nan, lbs=(), ubs=()):
        return AV(down32(lo) if lo != -INF else lo, up32(hi) if hi != INF else hi, nan, lbs, ubs, "f32")

    def node_ty(self, n):
        return self.c.ty(n)

    def lit(self, n):
        v = n["v"].replace("_", "")
        ty = self.node_ty(n)
        for suf in ("u64", "u32", "usize", "i32", "i64", "f32", "f64", "u8", "u16", "isize", "i8", "i16"):
            if v.endswith(suf) and not v.startswith("0x"):
                v = v[: -len(suf)]
                break
        if v in ("true", "false"):
            return AV(Fr(1 if v == "true" else 0), Fr(1 if v == "true" else 0), ty="bool")
        x = Fr(v)
        if ty in ("f32", "f64"):
            x = near32(x)
        return AV(x, x, False, ty=ty)

    def eval(self, n):
        n0 = n
        k = n.get("k")
        ck = self.cellkey(strip(n)) if k in ("local", "index", "un", "ref") else None
        if ck is not None:
            return self.cells.get(ck, top("f32"))
        if k == "lit":
            return self.lit(n)
        if k == "local":
            if n["hid"] in self.env:
                return self._resym(self.env[n["hid"]])
            return top(self.node_ty(n))
        if k == "blk":
            return self.block(n["b"])
        if k == "ref" or (k == "un" and n["op"] == "Deref"):
            return self.eval(n["x"])
        if k == "field":
            b = strip(n["b"])
            if b is not None and b.get("k") == "local" and b["name"] == "self" and n["f"] in self.fields:
                return self.fields[n["f"]]
            pn = pretty(n)
            if pn in self.fields:
                return self.fields[pn]
            s = self.sym_of(n)
            t = top(self.node_ty(n))
            if s:
                return AV(t.lo, t.hi, t.nan, {(s, 0)}, {(s, 0)}, t.ty)
            return t
        if k == "un" and n["op"] == "Not":
            self.eval(n["x"])
            return top("bool")
        if k == "un" and n["op"] == "Neg":
            x = self.eval(n["x"])
            return AV(-x.hi, -x.lo, x.nan, ty=x.ty)
        if k == "cast":
            return self.cast(self.eval(n["x"]), self.node_ty(n), n)
        if k == "bin":
            return self.bin(n)
        if k == "if":
            # condition refinement is not modelled: both branches are executed on copies of the state and joined
            cnd = strip(n["c"])
            inv = False
            while cnd.get("k") == "un" and cnd["op"] == "Not":   # `if !c {A} else {B}`: refine with c, branches swapped
                cnd = strip(cnd["x"])
                inv = not inv
            st0 = (dict(self.env), dict(self.fields), dict(self.cells))
            if cnd.get("k") == "letx":
                src = pretty(strip(cnd["init"]))
                i0_ = strip(cnd["init"])
                if i0_.get("k") == "local" and i0_["hid"] in getattr(self, "alias", {}):
                    src = self.alias[i0_["hid"]]      # `let decay = self.decay; if let Some(d) = decay`
                binds = pat_binds(cnd["pat"])
                for nm, hid in binds:
                    self.env[hid] = self.some.get(src, top(self.c.types[_find_bind(cnd["pat"], hid)["t"]].lstrip("&")))
            else:
                self.eval(n["c"])
            ref = self._refinement(cnd)
            if ref:
                self._apply_ref(ref, not inv)
            a = self.eval(n["th"])
            st1 = (self.env, self.fields, self.cells)
            self.env, self.fields, self.cells = (dict(st0[0]), dict(st0[1]), dict(st0[2]))
            if ref:
                self._apply_ref(ref, inv)
            b = self.eval(n["el"]) if n["el"] is not None else None
            st2 = (self.env, self.fields, self.cells)
            self.env, self.fields, self.cells = [_join_maps(x, y) for x, y in zip(st1, st2)]
            if b is None:
                return a
            if a.ty == "()" or b.ty == "()":
                return a
            return join(a, b)
        if k == "mcall":
            return self.mcall(n)
        if k == "call":
            return self.call(n)
        if k == "match":
            return self.match_option(n)
        if k == "tup":
            for x in n["xs"]:
                self.eval(x)
            return top(self.node_ty(n))
        if k == "assign":
            v = self.eval(n["r"])
            self.assign(n["l"], v)
            return top("()")
        if k == "assignop":
            l = self.eval(n["l"])
            r = self.eval(n["r"])
            v = self.arith(n["op"].replace("Assign", ""), l, r, n)
            self.assign(n["l"], v)
            return top("()")
        if k == "struct":
            for _, e in n["fs"]:
                self.eval(e)
            return top(self.node_ty(n))
        if k == "for":
            return self.for_range(n)
        if k == "path" and str(n.get("def", "")).rsplit("::", 1)[0].endswith(("impl f32>", "f32::consts", "std::f32", "core::f32")):
            # associated constants of f32
            nm = n["def"].rsplit("::", 1)[-1]
            consts = {"EPSILON": Fr(1, 2 ** 23), "MAX": F32_MAX, "MIN": -F32_MAX, "MIN_POSITIVE": Fr(1, 2 ** 126)}
            if nm in consts:
                return AV(consts[nm], consts[nm], False, ty="f32")
            if nm == "INFINITY":
                return AV(INF, INF, False, ty="f32")
            if nm == "NEG_INFINITY":
                return AV(-INF, -INF, False, ty="f32")
            if nm == "NAN":
                return AV(-INF, INF, True, ty="f32")
        raise ValueError("E2 cannot evaluate node kind %r: %s" % (k, short(pretty(n0), 80)))

    def sym_av(self, sym, ty):
        t = top(ty)
        lo, hi = self.symfacts.get(sym, (t.lo, t.hi))
        return AV(max(lo, t.lo), min(hi, t.hi), False, {(sym, 0)}, {(sym, 0)}, ty)

    def for_range(self, n):
        """`for i in a..b { body }` evaluated once with i in [a, b-1]; fields assigned in the body are
        set to their declared invariants at the loop head and must satisfy them again after the body."""
        it = strip(n["iter"])
        if not (it.get("k") == "struct" and it["path"] == "std::ops::Range"):
            raise ValueError("E2: only `for` over a Range is supported: " + short(pretty(it), 60))
        fs = dict((a, b) for a, b in it["fs"])
        a, b = self.eval(fs["start"]), self.eval(fs["end"])
        binds = pat_binds(n["pat"])
        if len(binds) != 1:
            raise ValueError("E2: loop pattern")
        saved_facts = dict(self.symfacts)
        # inside the body: a <= i <= b - 1, hence b >= a + 1
        for (s_, o) in b.lbs & b.ubs:
            if o == 0:
                lo, hi = self.symfacts.get(s_, (b.lo, b.hi))
                self.symfacts[s_] = (max(lo, a.lo + 1), hi)
        i = AV(a.lo, b.hi - 1, False, a.lbs, {(s_, o - 1) for (s_, o) in b.ubs}, b.ty)
        self.env[binds[0][1]] = i
        for f, inv in self.inv_fields.items():
            self.fields[f] = inv
        self.eval(n["body"])
        for f, inv in self.inv_fields.items():
            cur = self.fields.get(f)
            ok = cur is not None and cur.lo >= inv.lo and cur.hi <= inv.hi and (inv.nan or not cur.nan)
            self.ob("loop-invariant", ok, n, "field %s after loop body: %r, invariant %r" % (f, cur, inv))
            self.fields[f] = inv
        self.symfacts = saved_facts
        return top("()")

    def match_option(self, n):
        """`match <option place> { Some(x) => A, None => B }`: both arms on copies of the state, joined."""
        some = none = None
        for a in n["arms"]:
            p_ = a["pat"]
            while p_.get("k") in ("ref", "deref"):
                p_ = p_["p"]
            if p_.get("k") == "tstruct" and p_["path"].endswith("::Some") and len(p_["ps"]) == 1:
                some = (a, p_["ps"][0])
            elif (p_.get("k") == "ppath" and p_["path"].endswith("::None")) or p_.get("k") == "wild":
                none = a
        if len(n["arms"]) != 2 or some is None or none is None:
            raise ValueError("E2 cannot evaluate this match: " + short(pretty(n), 60))
        src = pretty(strip(n["scrut"]))
        sc0 = strip(n["scrut"])
        payload = None
        if sc0 is not None and sc0.get("k") == "mcall" and sc0.get("name") == "checked_sub" and len(sc0.get("args") or []) == 1:
            # Some(l - r) exactly when l >= r: the payload is the difference, which is then known not to be negative
            l_, r_ = self.eval(sc0["recv"]), self.eval(sc0["args"][0])
            if l_.is_int and r_.is_int:
                lo_, hi_ = max(l_.lo - r_.hi, Fr(0)), l_.hi - r_.lo
                lbs_ = {(s_, o - int(r_.hi)) for (s_, o) in l_.lbs} if r_.lo == r_.hi else set()
                ubs_ = {(s_, o - int(r_.lo)) for (s_, o) in l_.ubs} if r_.lo == r_.hi else set()
                payload = AV(lo_, max(hi_, lo_), False, lbs_, ubs_, l_.ty)

        def diverges(e):
            e = strip(e)
            while e is not None and e.get("k") in ("blk", "block"):
                b_ = e["b"] if e.get("k") == "blk" else e
                items_ = list(b_["stmts"]) + ([b_["tail"]] if b_.get("tail") is not None else [])
                if len(items_) != 1:
                    return False
                e = strip(items_[0])
            return e is not None and e.get("k") in ("ret", "continue", "break")
        st0 = (dict(self.env), dict(self.fields), dict(self.cells))
        for nm, hid in pat_binds(some[1]):
            b = _find_bind(some[1], hid)
            self.env[hid] = payload if payload is not None else self.some.get(src, top(self.c.types[b["t"]].lstrip("&")))
        a = self.eval(some[0]["body"])
        if diverges(none["body"]):
            return a          # the other arm leaves: what follows is only reached through this one
        st1 = (self.env, self.fields, self.cells)
        self.env, self.fields, self.cells = (dict(st0[0]), dict(st0[1]), dict(st0[2]))
        b = self.eval(none["body"])
        st2 = (self.env, self.fields, self.cells)
        self.env, self.fields, self.cells = [_join_maps(x, y) for x, y in zip(st1, st2)]
        if a.ty == "()" or b.ty == "()":
            return a
        return join(a, b)

    def _resym(self, av):
        """re-tighten a value that is exactly `sym + off` with the current facts about sym"""
        if not av.is_int:
            return av
        lo, hi = av.lo, av.hi
        for (s_, o) in av.lbs & av.ubs:
            if s_ in self.symfacts:
                flo, fhi = self.symfacts[s_]
                lo, hi = max(lo, flo + o), min(hi, fhi + o)
        if lo == av.lo and hi == av.hi:
            return av
        return AV(lo, hi, av.nan, av.lbs, av.ubs, av.ty)

    def _refinement(self, cnd):
        """`x > 0.0` / `x >= 0.0` / `0.0 < x` with x a cell or local -> (kind, key, strict);
        integer `a op b` between locals -> ("rel", op, l, r)"""
        if cnd.get("k") != "bin" or cnd["op"] not in ("Gt", "Ge", "Lt", "Le"):
            return None
        l, r, op = strip(cnd["l"]), strip(cnd["r"]), cnd["op"]
        if (self.c.ty(l) or "").lstrip("&") in INT_RANGES and l.get("k") == "local" and r.get("k") != "lit":
            return ("rel", (l, r), op)
        if l.get("k") == "lit" and r.get("k") != "lit":
            l, r = r, l
            op = {"Gt": "Lt", "Lt": "Gt", "Ge": "Le", "Le": "Ge"}[op]
        if r.get("k") != "lit" or Fr(r["v"].replace("_", "").rstrip("f32").rstrip("f64") or "0") != 0:
            return None
        ck = self.cellkey(l)
        if ck is not None:
            return ("cell", ck, op)
        if l.get("k") == "local":
            return ("env", l["hid"], op)
        return None

    def _apply_rel(self, l, r, op, branch):
        # normalise to a relation  l <rel> r  that holds on this branch
        rel = op if branch else {"Gt": "Le", "Ge": "Lt", "Lt": "Ge", "Le": "Gt"}[op]
        lv = self.env.get(l["hid"])
        try:
            saved = self.ob
            self.ob = lambda *a, **k: None
            rv = self.eval(r)
            self.ob = saved
        except ValueError:
            self.ob = saved
            return
        if lv is None or not lv.is_int or not rv.is_int:
            return
        if rel in ("Le", "Lt"):
            d = 0 if rel == "Le" else -1
            ubs = set(lv.ubs) | {(s_, o + d) for (s_, o) in rv.ubs}
            self.env[l["hid"]] = AV(lv.lo, min(lv.hi, rv.hi + d), False, lv.lbs, ubs, lv.ty)
        else:
            d = 0 if rel == "Ge" else 1
            lbs = set(lv.lbs) | {(s_, o + d) for (s_, o) in rv.lbs}
            self.env[l["hid"]] = AV(max(lv.lo, rv.lo + d), lv.hi, False, lbs, lv.ubs, lv.ty)

    def _apply_ref(self, ref, branch):
        kind, key, op = ref
        if kind == "rel":
            return self._apply_rel(key[0], key[1], op, branch)
        store = self.cells if kind == "cell" else self.env
        v = store.get(key)
        if v is None or v.ty not in ("f32", "f64"):
            return
        tiny = Fr(1, 2 ** 149)   # smallest positive f32
        pos = (op in ("Gt", "Ge")) == branch
        strict = (op in ("Gt", "Lt")) == branch
        if pos:
            lo = max(v.lo, tiny if strict else Fr(0))
            store[key] = AV(lo, max(v.hi, lo), False if branch else v.nan, v.lbs, v.ubs, v.ty)
        else:
            hi = min(v.hi, -tiny if strict else Fr(0))
            # the negated comparison also holds for NaN
            store[key] = AV(min(v.lo, hi), hi, v.nan if not branch else False, v.lbs, v.ubs, v.ty)

    def assign(self, l, v):
        l = strip(l)
        ck = self.cellkey(l)
        if ck is not None:
            self.cells[ck] = v
            return
        if l.get("k") == "local":
            self.env[l["hid"]] = v
        elif l.get("k") == "field" and strip(l["b"]).get("k") == "local" and strip(l["b"])["name"] == "self":
            self.fields[l["f"]] = v
        else:
            raise ValueError("E2: unsupported assignment target " + pretty(l))

    def block(self, b):
        last = None
        for i_, s in enumerate(b["stmts"]):
            s0 = strip(s)
            if s0 is not None and s0.get("k") == "if" and s0["el"] is None:
                # guard clause `if c { return v; }`: the block's value is `if c { v } else { <rest> }`
                th = strip(s0["th"])
                while th is not None and th.get("k") == "blk" and len(th["b"]["stmts"]) + (1 if th["b"]["tail"] is not None else 0) == 1:
                    th = strip((th["b"]["stmts"] or [th["b"]["tail"]])[0])
                if th is not None and th.get("k") in ("ret", "break") and th.get("v") is not None:
                    rest = {"k": "blk", "b": {"k": "block", "stmts": b["stmts"][i_ + 1:], "tail": b["tail"]}}
                    return self.eval({"k": "if", "c": s0["c"], "th": th["v"], "el": rest})
            last = self.stmt(s)
        if b["tail"] is not None:
            return self.eval(b["tail"])
        s_last = strip(b["stmts"][-1]) if b["stmts"] else None
        if last is not None and s_last is not None and s_last.get("k") == "mcall" and s_last["name"] == "push":
            return last          # per-element body `out.push(e);`: the element value
        return top("()")

    def stmt(self, s):
        k = s.get("k")
        if k == "let":
            v = self.eval(s["init"]) if s["init"] is not None else None
            binds = pat_binds(s["pat"])
            if len(binds) == 1 and s["pat"].get("k") == "bind" and v is not None:
                self.env[binds[0][1]] = v
            return
        return self.eval(s)

    # -- arithmetic
    def bin(self, n):
        op = n["op"]
        l = self.eval(n["l"])
        r = self.eval(n["r"])
        if op in ("Lt", "Le", "Gt", "Ge", "Eq", "Ne", "And", "Or"):
            return AV(Fr(0), Fr(1), ty="bool")
        if op == "Mul" and l.ty not in INT_RANGES and pretty(strip(n["l"])) == pretty(strip(n["r"])):
            # x * x: a square (both operands are the same expression, evaluated without side effects)
            return self.fmath("powi", l, [AV(Fr(2), Fr(2), ty="i32")], n)
        return self.arith(op, l, r, n)

    def arith(self, op, l, r, n):
        ty = l.ty if l.ty not in ("()",) else r.ty
        if ty in INT_RANGES:
            return self.int_arith(op, l, r, n, ty)
        return self.f_arith(op, l, r, n)

    def int_arith(self, op, l, r, n, ty):
        lo_t, hi_t = INT_RANGES[ty]
        if op == "Add":
            lo, hi = l.lo + r.lo, l.hi + r.hi
            lbs = {(s, o + int(r.lo)) for (s, o) in l.lbs} | {(s, o + int(l.lo)) for (s, o) in r.lbs}
            ubs = {(s, o + int(r.hi)) for (s, o) in l.ubs} | {(s, o + int(l.hi)) for (s, o) in r.ubs}
        elif op == "Sub":
            lo, hi = l.lo - r.hi, l.hi - r.lo
            lbs = {(s, o - int(r.hi)) for (s, o) in l.lbs}
            ubs = {(s, o - int(r.lo)) for (s, o) in l.ubs}
            # x - y with y <= x symbolically: result >= 0
            if any(r.le_sym(s, o) for (s, o) in l.lbs):
                lo = max(lo, Fr(0))
        elif op == "Mul":
            cs = [_mul(a, b) for a in (l.lo, l.hi) for b in (r.lo, r.hi)]
            lo, hi, lbs, ubs = min(cs), max(cs), set(), set()
        elif op in ("Div", "Rem"):
            nz = r.lo > 0 or r.hi < 0
            self.ob("div-by-zero", nz, n, "divisor of `%s` in %r" % (short(pretty(n), 80), r))
            lbs, ubs = set(), set()
            if not nz:
                return top(ty)
            if op == "Rem":
                m = max(abs(r.lo), abs(r.hi))
                if l.lo >= 0:
                    lo, hi = Fr(0), min(l.hi, m - 1)
                else:
                    lo, hi = -(m - 1), m - 1
                if r.lo > 0 and l.lo >= 0:
                    ubs = {(s, o - 1) for (s, o) in r.ubs}
            else:
                cs = [Fr(int(a / b)) for a in (l.lo, l.hi) for b in (r.lo, r.hi)]
                lo, hi = min(cs), max(cs)
        elif op == "Shl" and l.lo == l.hi and r.lo == r.hi and l.lo >= 0 and 0 <= r.lo < 64:
            lo = hi = Fr(int(l.lo) << int(r.lo))          # a constant shifted by a constant
            lbs, ubs = set(), set()
        else:
            raise ValueError("E2: integer operator %s" % op)
        ok = lo >= lo_t and hi <= hi_t
        if op in ("Add", "Sub", "Mul"):
            self.ob("overflow", ok, n, "`%s` : %s in [%s, %s], type range [%s, %s]" % (short(pretty(n), 80), ty, lo, hi, lo_t, hi_t))
        if not ok:
            return top(ty)
        return AV(lo, hi, False, lbs, ubs, ty)

    def f_arith(self, op, l, r, n):
        nan = l.nan or r.nan
        lbs, ubs = set(), set()
        linf = INF in (abs(l.lo), abs(l.hi))
        rinf = INF in (abs(r.lo), abs(r.hi))
        if op == "Add":
            lo, hi = l.lo + r.lo if not (l.lo == -INF or r.lo == -INF) else -INF, l.hi + r.hi if not (l.hi == INF or r.hi == INF) else INF
            if (l.hi == INF and r.lo == -INF) or (l.lo == -INF and r.hi == INF):
                nan = True
            # monotone: x + y >= s when x >= s (s an f32 value) and y >= 0; fl(x+y) >= fl(s+0) = s
            if r.lo >= 0:
                lbs |= {(s, o) for (s, o) in l.lbs if o == 0}
            if l.lo >= 0:
                lbs |= {(s, o) for (s, o) in r.lbs if o == 0}
            if r.hi <= 0:
                ubs |= {(s, o) for (s, o) in l.ubs if o == 0}
            if l.hi <= 0:
                ubs |= {(s, o) for (s, o) in r.ubs if o == 0}
        elif op == "Sub":
            lo = l.lo - r.hi if not (l.lo == -INF or r.hi == INF) else -INF
            hi = l.hi - r.lo if not (l.hi == INF or r.lo == -INF) else INF
            if (l.hi == INF and r.hi == INF) or (l.lo == -INF and r.lo == -INF):
                nan = True
            # a - b with b <= a (symbolically): exact result >= 0, rounding keeps >= 0
            if any(r.le_sym(s, 0) for (s, o) in l.lbs if o == 0) or any(l.ge_sym(s, 0) for (s, o) in r.ubs if o == 0):
                lo = max(lo, Fr(0))
        elif op == "Mul":
            cs = [_mul(a, b) for a in (l.lo, l.hi) for b in (r.lo, r.hi)]
            lo, hi = min(cs), max(cs)
            if (linf and r.lo <= 0 <= r.hi) or (rinf and l.lo <= 0 <= l.hi):
                nan = True
        elif op == "Div":
            if r.lo <= 0 <= r.hi:
                # division by (possibly) zero: +-inf, and 0/0 = NaN
                lo, hi = -INF, INF
                if l.lo <= 0 <= l.hi:
                    nan = True
                self.ob("float-div-by-zero", False, n, "denominator of `%s` may be 0: %r" % (short(pretty(n), 80), r))
            else:
                cs = []
                for a in (l.lo, l.hi):
                    for b in (r.lo, r.hi):
                        if b in (INF, -INF):
                            cs.append(Fr(0))
                        elif a in (INF, -INF):
                            cs.append(INF if (a > 0) == (b > 0) else -INF)
                        else:
                            cs.append(a / b)
                lo, hi = min(cs), max(cs)
                if linf and rinf:
                    nan = True
        elif op == "Rem":
            lo, hi = -INF, INF
            nan = True
        else:
            raise ValueError("E2: float operator %s" % op)
        return self._fl(lo, hi, nan, lbs, ubs)

    def cast(self, x, ty, n):
        if ty in ("f32", "f64"):
            if x.is_int:
                c = x.const()
                if c is not None:
                    v = near32(c)
                    return AV(v, v, False, ty="f32")
                return AV(down32(x.lo), up32(x.hi), False, ty="f32")
            return AV(x.lo, x.hi, x.nan, x.lbs, x.ubs, "f32")
        if ty in INT_RANGES:
            lo_t, hi_t = INT_RANGES[ty]
            if x.is_int or x.ty == "bool":
                ok = x.lo >= lo_t and x.hi <= hi_t
                if not ok:
                    # `as` wraps silently; the value set is then unknown
                    return top(ty)
                return AV(x.lo, x.hi, False, x.lbs, x.ubs, ty)
            # float -> int: saturating, NaN -> 0, truncation toward zero
            import math
            lo = Fr(lo_t) if x.lo == -INF else Fr(max(lo_t, math.floor(x.lo) if x.lo >= 0 else math.ceil(x.lo)))
            hi = Fr(hi_t) if x.hi == INF else Fr(min(hi_t, math.floor(x.hi) if x.hi >= 0 else math.ceil(x.hi)))
            if x.nan:
                lo, hi = min(lo, Fr(0)), max(hi, Fr(0))
            return AV(lo, hi, False, ty=ty)
        return top(ty)

    # -- calls
    def mcall(self, n):
        callee = n["callee"]
        name = n["name"]
        if callee in self.summaries:
            return self.summaries[callee](self, n)
        if n["name"] == "push" and len(n["args"]) == 1 and callee.startswith("std::vec::Vec"):
            # per-element bodies written as `out.push(e)`: the element value is e
            return self.eval(n["args"][0])
        if callee in self.c.fns:
            r = self.inline_local(callee, [n["recv"]] + list(n["args"]), n)
            if r is not None:
                return r
        recv = self.eval(n["recv"])
        args = [self.eval(a) for a in n["args"]]
        base = callee.rsplit("::", 1)[0]
        isf = "f32" in base or "f64" in base
        if name == "pow" and recv.is_int:
            a, b = recv.const(), args[0].const()
            if a is not None and b is not None:
                v = a ** int(b)
                lo_t, hi_t = INT_RANGES[recv.ty]
                self.ob("overflow", lo_t <= v <= hi_t, n, "`%s` = %s" % (short(pretty(n)), v))
                return AV(Fr(v), Fr(v), False, ty=recv.ty)
            return top(recv.ty)
        if name in ("min", "max") and not isf and recv.is_int:
            a = args[0]
            if name == "min":
                lbs = {s for s in recv.lbs if s in a.lbs}
                return AV(min(recv.lo, a.lo), min(recv.hi, a.hi), False, lbs, recv.ubs | a.ubs, recv.ty)
            ubs = {s for s in recv.ubs if s in a.ubs}
            return AV(max(recv.lo, a.lo), max(recv.hi, a.hi), False, recv.lbs | a.lbs, ubs, recv.ty)
        if isf:
            return self.fmath(name, recv, args, n)
        raise ValueError("E2: unsupported method call %s (%s)" % (callee, short(pretty(n), 80)))

    def inline_local(self, callee, arg_nodes, n):
        callee = callee[5:] if callee.startswith("Self:") else callee
        fn = self.c.fns.get(callee)
        if fn is None or getattr(self, "depth", 0) > 3 or fn.get("output") not in ("f32", "f64", "usize", "bool", "i32"):
            return None
        if len(fn["params"]) != len(arg_nodes):
            return None
        env = {}
        for p_, a_ in zip(fn["params"], arg_nodes):
            while p_.get("k") in ("ref", "deref"):
                p_ = p_["p"]
            if p_.get("k") != "bind":
                return None
            if p_["name"] == "self":
                continue
            env[p_["hid"]] = self.eval(a_)
        sub = Eval(self.c, env, self.fields, self.ob, self.summaries, self.sym_of)
        sub.depth = getattr(self, "depth", 0) + 1
        sub.some = self.some
        return sub.eval(fn["body"])

    def call(self, n):
        callee = n["callee"]
        if callee in self.summaries:
            return self.summaries[callee](self, n)
        r = self.inline_local(callee, n["args"], n)
        if r is not None:
            return r
        args = [self.eval(a) for a in n["args"]]
        base, name = callee.rsplit("::", 1) if "::" in callee else ("", callee)
        if "f32" in base or "f64" in base:
            return self.fmath(name, args[0], args[1:], n)
        if callee in ("std::cmp::min", "std::cmp::max", "core::cmp::min", "core::cmp::max", "std::cmp::Ord::min", "std::cmp::Ord::max", "core::cmp::Ord::min", "core::cmp::Ord::max") \
                and len(args) == 2 and args[0].is_int and args[1].is_int:
            # the function form of the integer `a.min(b)` / `a.max(b)`
            recv, a = args
            if name == "min":
                lbs = {s_ for s_ in recv.lbs if s_ in a.lbs}
                return AV(min(recv.lo, a.lo), min(recv.hi, a.hi), False, lbs, recv.ubs | a.ubs, recv.ty)
            ubs = {s_ for s_ in recv.ubs if s_ in a.ubs}
            return AV(max(recv.lo, a.lo), max(recv.hi, a.hi), False, recv.lbs | a.lbs, ubs, recv.ty)
        raise ValueError("E2: unsupported call %s (%s)" % (callee, short(pretty(n), 80)))

    def fmath(self, name, x, args, n):
        import math
        if name == "max":
            a = args[0]
            # IEEE maxNum: a NaN operand is ignored
            lo = max(x.lo, a.lo)
            if x.nan:
                lo = min(lo, a.lo)
            if a.nan:
                lo = min(lo, x.lo)
            hi = max(x.hi, a.hi)
            lbs = set()
            if not a.nan:
                lbs |= a.lbs          # result >= a >= s  (also when x is NaN: result == a)
            if not x.nan:
                lbs |= x.lbs
            ubs = {s for s in x.ubs if s in a.ubs}
            return AV(lo, hi, x.nan and a.nan, lbs, ubs, "f32")
        if name == "min":
            a = args[0]
            hi = min(x.hi, a.hi)
            if x.nan:
                hi = max(hi, a.hi)
            if a.nan:
                hi = max(hi, x.hi)
            lo = min(x.lo, a.lo)
            ubs = set()
            if not a.nan:
                ubs |= a.ubs
            if not x.nan:
                ubs |= x.ubs
            lbs = {s for s in x.lbs if s in a.lbs}
            return AV(lo, hi, x.nan and a.nan, lbs, ubs, "f32")
        if name == "clamp":
            a, b = args
            self.ob("clamp-min-le-max", (a.hi <= b.lo) or any(s in b.lbs for s in a.lbs) or any(s in a.ubs for s in b.ubs), n,
                    "f32::clamp panics unless min <= max: min=%r max=%r" % (a, b))
            return AV(max(x.lo, a.lo), min(x.hi, b.hi), x.nan, x.lbs | a.lbs, x.ubs | b.ubs, "f32")
        if name == "abs":
            if x.lo >= 0:
                return AV(x.lo, x.hi, x.nan, ty="f32")
            if x.hi <= 0:
                return AV(-x.hi, -x.lo, x.nan, ty="f32")
            return AV(Fr(0), max(-x.lo, x.hi), x.nan, ty="f32")
        if name == "sqrt":
            neg = x.lo < 0
            self.ob("sqrt-domain", not neg, n, "argument of sqrt in %r%s" % (x, " may be negative -> NaN" if neg else ""))
            lo = Fr(0) if x.lo <= 0 else Fr(math.sqrt(float(x.lo))) * Fr(999999, 1000000)
            hi = INF if x.hi == INF else Fr(math.sqrt(float(max(x.hi, 0)))) * Fr(1000001, 1000000)
            return self._fl(lo, hi, x.nan or neg)
        if name == "ln":
            bad = x.lo <= 0
            self.ob("ln-domain", not bad, n, "argument of ln in %r%s" % (x, " may be <= 0 -> -inf/NaN" if bad else ""))
            if bad:
                return AV(-INF, INF, True, ty="f32")
            lo = Fr(math.log(float(x.lo))) - Fr(1, 1000)
            hi = INF if x.hi == INF else Fr(math.log(float(x.hi))) + Fr(1, 1000)
            return self._fl(lo, hi, x.nan)
        if name == "exp":
            lo = Fr(0) if x.lo < -80 else Fr(math.exp(float(x.lo))) * Fr(999, 1000)
            hi = INF if x.hi > 80 else Fr(math.exp(float(x.hi))) * Fr(1001, 1000)
            return self._fl(lo, hi, x.nan)
        if name == "tanh":
            return AV(Fr(-1), Fr(1), x.nan, ty="f32")
        if name == "cosh":
            return AV(Fr(1), INF, x.nan, ty="f32")
        if name in ("powi", "powf"):
            e = args[0].const()
            if e is not None and e == 2:
                m = max(abs(x.lo), abs(x.hi))
                lo = Fr(0) if x.lo <= 0 <= x.hi else min(abs(x.lo), abs(x.hi)) ** 2
                hi = INF if m == INF else m * m
                return self._fl(lo, hi, x.nan)
            ex = args[0]
            if x.lo >= 0 and x.hi <= 1 and ex.lo >= 1 and not x.nan:
                return AV(Fr(0), x.hi, False, ty="f32")   # 0 <= x <= 1, n >= 1  =>  0 <= x^n <= x
            return AV(-INF, INF, True, ty="f32")
        if name == "is_nan":
            return AV(Fr(0), Fr(1), ty="bool")
        raise ValueError("E2: unsupported float intrinsic %s" % name)


def eval_fn_lets(ev, fn, upto=None):
    """Evaluate the scalar `let`s at the top of fn (before node `upto`) so hoisted temporaries are known."""
    from .hir import walk
    b = fn["body"]
    while b.get("k") == "blk":
        b = b["b"]
    for s in b["stmts"]:
        if upto is not None and (s is upto or any(x is upto for x in walk(s))):
            break
        if s.get("k") == "let" and s["pat"].get("k") == "bind" and s["init"] is not None:
            ty = (ev.c.types[s["pat"]["t"]] or "").lstrip("&")
            if ty.startswith("std::option::Option<") and "Mut)" not in str(s["pat"].get("mode")):
                i0 = strip(s["init"])
                if i0.get("k") == "field":
                    if not hasattr(ev, "alias"):
                        ev.alias = {}
                    ev.alias[s["pat"]["hid"]] = pretty(i0)
            if ty in ("f32", "f64", "usize", "i32", "u64", "bool"):
                saved = ev.ob
                ev.ob = lambda *a, **k: None     # obligations of hoisted temporaries are re-generated at their uses
                try:
                    ev.stmt(s)
                except ValueError:
                    pass
                ev.ob = saved
