"""E1: scalar-expression extraction and canonical rational normal form.

Poly  = {monomial: Fraction}, monomial = sorted tuple of (atom, exponent)
Rat   = (num: Poly, den: Poly); equality by cross-multiplication (equality over the reals;
        rounding is deliberately ignored - stated wherever used).
Atoms = variables and applications of uninterpreted functions to canonicalised arguments.

`Sym` executes a loop-free scalar program (the per-element body of an element-wise arm)
symbolically over a store of named cells, forking on parameter guards, and yields one store
per guard valuation.  It is an AST canonicaliser, not a solver: no search, no path queries.
"""
from fractions import Fraction as Fr

from .hir import strip, pretty, short, pat_binds, children


# ------------------------------------------------------------------ polynomials
def p_const(c):
    c = Fr(c)
    return {(): c} if c != 0 else {}


def p_atom(a):
    return {((a, 1),): Fr(1)}


def p_add(a, b, sign=1):
    r = dict(a)
    for m, c in b.items():
        v = r.get(m, 0) + sign * c
        if v == 0:
            r.pop(m, None)
        else:
            r[m] = v
    return r


def _m_mul(m1, m2):
    d = dict(m1)
    for a, e in m2:
        d[a] = d.get(a, 0) + e
    return tuple(sorted((a, e) for a, e in d.items() if e != 0))


def p_mul(a, b):
    r = {}
    for m1, c1 in a.items():
        for m2, c2 in b.items():
            m = _m_mul(m1, m2)
            v = r.get(m, 0) + c1 * c2
            if v == 0:
                r.pop(m, None)
            else:
                r[m] = v
    return r


def p_eq(a, b):
    return a == b


def p_str(p):
    if not p:
        return "0"
    parts = []
    for m in sorted(p):
        c = p[m]
        mon = "*".join(a if e == 1 else "%s^%d" % (a, e) for a, e in m)
        if not mon:
            parts.append(str(c))
        elif c == 1:
            parts.append(mon)
        elif c == -1:
            parts.append("-" + mon)
        else:
            parts.append("%s*%s" % (c, mon))
    return " + ".join(parts).replace("+ -", "- ")


class Rat:
    __slots__ = ("n", "d")

    def __init__(self, n, d=None):
        self.n = n
        self.d = d if d is not None else p_const(1)

    @staticmethod
    def const(c):
        return Rat(p_const(c))

    @staticmethod
    def atom(a):
        return Rat(p_atom(a))

    def __add__(self, o):
        o = _r(o)
        if self.d == o.d:
            return Rat(p_add(self.n, o.n), self.d)._norm()
        return Rat(p_add(p_mul(self.n, o.d), p_mul(o.n, self.d)), p_mul(self.d, o.d))._norm()

    __radd__ = __add__

    def __neg__(self):
        return Rat({m: -c for m, c in self.n.items()}, self.d)

    def __sub__(self, o):
        return self + (-_r(o))

    def __rsub__(self, o):
        return _r(o) - self

    def __mul__(self, o):
        o = _r(o)
        return Rat(p_mul(self.n, o.n), p_mul(self.d, o.d))._norm()

    __rmul__ = __mul__

    def __truediv__(self, o):
        o = _r(o)
        if not o.n:
            return Rat.atom("div0(%s)" % self)
        return Rat(p_mul(self.n, o.d), p_mul(self.d, o.n))._norm()

    def __rtruediv__(self, o):
        return _r(o) / self

    def __pow__(self, k):
        k = int(k)
        if k < 0:
            return Rat.const(1) / (self ** (-k))
        r = Rat.const(1)
        for _ in range(k):
            r = r * self
        return r

    def _norm(self):
        # normalise constant denominators and sign; cancel a common monomial-free constant
        if len(self.d) == 1 and () in self.d:
            c = self.d[()]
            if c != 1:
                self.n = {m: v / c for m, v in self.n.items()}
                self.d = p_const(1)
        elif len(self.d) == 1:
            # single-monomial denominator: cancel common atom powers with every numerator monomial
            (dm, dc), = self.d.items()
            if self.n:
                common = dict(dm)
                for m in self.n:
                    md = dict(m)
                    for a in list(common):
                        common[a] = min(common[a], md.get(a, 0))
                        if common[a] <= 0:
                            del common[a]
                if common:
                    cm = tuple(sorted((a, -e) for a, e in common.items()))
                    self.n = {_m_mul(m, cm): v for m, v in self.n.items()}
                    dm = _m_mul(dm, cm)
                self.n = {m: v / dc for m, v in self.n.items()}
                self.d = {dm: Fr(1)}
        if not self.n:
            self.d = p_const(1)
        return self

    def __eq__(self, o):
        o = _r(o)
        return p_mul(self.n, o.d) == p_mul(o.n, self.d)

    def __ne__(self, o):
        return not self.__eq__(o)

    def __hash__(self):
        return hash(str(self))

    def is_const(self):
        return (not self.n or set(self.n) == {()}) and set(self.d) == {()}

    def const_value(self):
        if self.is_const():
            return self.n.get((), Fr(0)) / self.d[()]
        return None

    def atoms(self):
        s = set()
        for p in (self.n, self.d):
            for m in p:
                for a, _ in m:
                    s.add(a)
        return s

    def __str__(self):
        if self.d == p_const(1):
            return p_str(self.n)
        return "(%s)/(%s)" % (p_str(self.n), p_str(self.d))

    __repr__ = __str__


def _r(x):
    return x if isinstance(x, Rat) else Rat.const(x)


REG = {}   # atom string -> (function name, [args as Rat or str])


def fn_atom(name, *args):
    a = "%s(%s)" % (name, ", ".join(str(x) for x in args))
    REG[a] = (name, list(args))
    return Rat.atom(a)


def rewrite(x, rule):
    """Rebuild x bottom-up; rule(name, args, atom_str) -> Rat | None (None keeps the atom with rewritten args).
    Plain variable atoms are passed as rule(None, [], atom)."""
    x = _r(x)

    def atom(a):
        if a in REG:
            name, args = REG[a]
            nargs = [rewrite(y, rule) if isinstance(y, Rat) else y for y in args]
            r = rule(name, nargs, a)
            if r is not None:
                return _r(r)
            if name == "sqrt":
                return r_sqrt(nargs[0])
            if name == "abs":
                return r_abs(nargs[0])
            if name == "ite":
                return ite(nargs[0], nargs[1], nargs[2])
            if name in ("gt0", "ge0", "eq0", "ne0") and isinstance(nargs[0], Rat):
                return Rat.atom(cmp_atom(name[:2].capitalize(), nargs[0], 0))
            if name in ("and", "or"):
                nargs = sorted(nargs, key=str)
            return fn_atom(name, *nargs)
        r = rule(None, [], a)
        return _r(r) if r is not None else Rat.atom(a)

    def poly(p):
        tot = Rat.const(0)
        for m, c in p.items():
            t = Rat.const(c)
            for a, e in m:
                t = t * (atom(a) ** e)
            tot = tot + t
        return tot
    return poly(x.n) / poly(x.d) if x.d != p_const(1) else poly(x.n)


def diff(x, var):
    """d x / d var  (var an atom string). Function atoms: chain rule through a small derivative table."""
    x = _r(x)

    def d_atom(a):
        if a == var:
            return Rat.const(1)
        if a in REG:
            name, args = REG[a]
            u = args[0] if args and isinstance(args[0], Rat) else None
            if name == "ln" and u is not None:
                return diff(u, var) / u
            if name == "exp" and u is not None:
                return Rat.atom(a) * diff(u, var)
            if name == "sqrt" and u is not None:
                du = diff(u, var)
                return du / (2 * Rat.atom(a)) if du.n else Rat.const(0)
            if name == "abs" and u is not None:
                du = diff(u, var)
                return fn_atom("sgn", u) * du if du.n else Rat.const(0)
            if name == "tanh" and u is not None:
                return (1 - Rat.atom(a) * Rat.atom(a)) * diff(u, var)
            if name == "cosh" and u is not None:
                return fn_atom("sinh", u) * diff(u, var)
            if name == "sinh" and u is not None:
                return fn_atom("cosh", u) * diff(u, var)
            if name == "ite":
                c_, t_, e_ = args
                return ite(c_, diff(t_, var), diff(e_, var))
            # any other function of var: not differentiable here
            for y in args:
                if isinstance(y, Rat) and var in _all_atoms(y):
                    raise ValueError("cannot differentiate %s with respect to %s" % (a, var))
            return Rat.const(0)
        return Rat.const(0)

    def d_poly(p):
        tot = Rat.const(0)
        for m, c in p.items():
            for i, (a, e) in enumerate(m):
                da = d_atom(a)
                if not da.n:
                    continue
                rest = Rat({tuple(x_ for j, x_ in enumerate(m) if j != i): Fr(1)})
                tot = tot + Rat.const(c) * rest * (Rat.atom(a) ** (e - 1)) * e * da
        return tot
    n, d = Rat(x.n), Rat(x.d)
    if x.d == p_const(1):
        return d_poly(x.n)
    return (d_poly(x.n) * d - n * d_poly(x.d)) / (d * d)


def _all_atoms(x):
    out = set()
    for a in _r(x).atoms():
        out.add(a)
        if a in REG:
            for y in REG[a][1]:
                if isinstance(y, Rat):
                    out |= _all_atoms(y)
    return out


def r_sqrt(x):
    """sqrt with the one rewrite sqrt(u^2) = |u| (u a polynomial with unit denominator)."""
    x = _r(x)
    c = x.const_value()
    if c is not None and c >= 0:
        import math
        n, d = math.isqrt(c.numerator), math.isqrt(c.denominator)
        if n * n == c.numerator and d * d == c.denominator:
            return Rat.const(Fr(n, d))
    if len(x.n) >= 1 and x.d == p_const(1):
        # perfect square of a polynomial with <= 2 terms: try u = sqrt of leading structure
        for u in _square_root_candidates(x):
            if (u * u) == x:
                return r_abs(u)
    return fn_atom("sqrt", x)


def _square_root_candidates(x):
    # candidates built from the distinct atoms with even powers: only the pattern (a - b)^2 and a^2 are needed
    atoms = sorted(x.atoms())
    out = []
    if len(atoms) == 1:
        out.append(Rat.atom(atoms[0]))
    if len(atoms) == 2:
        a, b = Rat.atom(atoms[0]), Rat.atom(atoms[1])
        out += [a - b, a + b]
    return out


def r_abs(x):
    x = _r(x)
    c = x.const_value()
    if c is not None:
        return Rat.const(abs(c))
    # canonical sign: make the first monomial's coefficient positive
    if x.n:
        m0 = sorted(x.n)[0]
        if x.n[m0] < 0:
            x = -x
    return fn_atom("abs", x)


def cmp_atom(op, l, r, integer=False):
    """Canonical comparison atom: `l op r`  ->  gt/ge/eq/ne(l - r) with canonical orientation."""
    d = _r(l) - _r(r)
    if op in ("Lt", "Le"):
        d = -d
        op = {"Lt": "Gt", "Le": "Ge"}[op]
    if integer and op == "Ge":
        d = d + 1
        op = "Gt"
    if op in ("Eq", "Ne") and d.n:
        m0 = sorted(d.n)[0]
        if d.n[m0] < 0:
            d = -d
    a = "%s0(%s)" % (op.lower(), d)
    REG[a] = (op.lower() + "0", [d])
    if integer:
        INT_ATOMS.add(a)
    return a


INT_ATOMS = set()   # comparison atoms over integers (their negation is again a comparison)


def negate_cond(x):
    """canonical logical negation of a normalised condition (a Rat holding one atom, or an atom string)."""
    a = str(x)
    if a in REG:
        name, args = REG[a]
        if name == "not":
            return args[0] if isinstance(args[0], Rat) else Rat.atom(str(args[0]))
        if name == "eq0":
            return Rat.atom(cmp_atom("Ne", args[0], 0))
        if name == "ne0":
            return Rat.atom(cmp_atom("Eq", args[0], 0))
        if name == "gt0" and a in INT_ATOMS:      # !(d > 0)  <=>  1 - d > 0 over the integers
            return Rat.atom(cmp_atom("Gt", 1 - _r(args[0]), 0, integer=True))
    if a in REG and REG[a][0] in ("or", "and"):
        # De Morgan, when every part has a canonical negation (so that guard-clause and nested spellings coincide)
        parts = [negate_cond(x) for x in REG[a][1]]
        if not any(str(q) in REG and REG[str(q)][0] == "not" for q in parts):
            p0, p1 = sorted(parts, key=str)
            return fn_atom("and" if REG[a][0] == "or" else "or", p0, p1)
    if a == "true":
        return Rat.atom("false")
    if a == "false":
        return Rat.atom("true")
    return fn_atom("not", x if isinstance(x, Rat) else Rat.atom(a))


def ite(cond, a, b):
    a, b = _r(a), _r(b)
    if a == b:
        return a
    cs = str(cond)
    # canonical orientation: never branch on a negation / on `!=`
    if cs in REG and REG[cs][0] in ("not", "ne0"):
        return ite(negate_cond(cs), b, a)
    return fn_atom("ite", cs, a, b)


# ------------------------------------------------------------------ HIR -> Rat
INT_TYS = ("usize", "u64", "u32", "i32", "i64", "u8", "u16", "isize", "i8", "i16")


class Norm:
    """Normalise HIR scalar expressions. env: hid -> Rat. `cell(node)` may map an lvalue-like node to a Rat."""

    def __init__(self, crate, env=None, cell=None):
        self.c = crate
        self.env = dict(env or {})
        self.cell = cell or (lambda n: None)
        self.reduce_hook = None
        self.depth = 0

    def lit(self, n):
        v = n["v"].replace("_", "")
        for suf in ("usize", "u64", "u32", "i32", "i64", "f32", "f64", "u8", "u16", "isize"):
            if v.endswith(suf) and not v.startswith("0x"):
                v = v[: -len(suf)]
                break
        if v in ("true", "false"):
            return Rat.atom(v)
        return Rat.const(Fr(v))

    def place_name(self, n):
        """Canonical name for a place expression made of locals, fields, derefs and indices."""
        n = strip(n)
        k = n.get("k")
        if k == "local":
            return "%s" % n["name"]
        if k == "field":
            return "%s.%s" % (self.place_name(n["b"]), n["f"])
        if k == "index":
            return "%s[%s]" % (self.place_name(n["b"]), self.norm(n["i"]))
        if k == "mcall" and n["name"] in ("len",) and not n["args"]:
            return "len(%s)" % self.place_name(n["recv"])
        if k == "cast":
            return self.place_name(n["x"])
        raise ValueError("not a place: " + short(pretty(n), 60))

    def norm(self, n):
        n = strip(n)
        r = self.cell(n)
        if r is not None:
            return r
        k = n.get("k")
        if k == "lit":
            return self.lit(n)
        if k == "local":
            if n["hid"] in self.env:
                return self.env[n["hid"]]
            return Rat.atom(n["name"])
        if k == "field" and str(n.get("f", "")).isdigit():
            # `.N` of a local known to be the tuple (a, b, ..): its N-th component
            b0 = strip(n["b"])
            while b0 is not None and b0.get("k") in ("ref", "un"):
                b0 = strip(b0["x"])
            if b0 is not None and b0.get("k") == "local" and b0["hid"] in self.env:
                tv = str(self.env[b0["hid"]])
                if tv in REG and REG[tv][0] == "tup" and int(n["f"]) < len(REG[tv][1]):
                    return _r(REG[tv][1][int(n["f"])])
        if k in ("field", "index"):
            return Rat.atom(self.place_name(n))
        if k == "cast":
            x = self.norm(n["x"])
            src = self.c.ty(strip(n["x"])) or ""
            dst = self.c.ty(n) or ""
            if src.lstrip("&") in ("f32", "f64") and dst in INT_TYS:
                return fn_atom("trunc", x)
            return x
        if k == "un":
            if n["op"] == "Neg":
                return -self.norm(n["x"])
            if n["op"] == "Not":
                return negate_cond(self.norm(n["x"]))
        if k == "bin":
            op = n["op"]
            if op in ("Lt", "Le", "Gt", "Ge", "Eq", "Ne"):
                lt = (self.c.ty(strip(n["l"])) or "").lstrip("&")
                return Rat.atom(cmp_atom(op, self.norm(n["l"]), self.norm(n["r"]), integer=lt in INT_TYS))
            if op in ("And", "Or"):
                a, b = sorted([self.norm(n["l"]), self.norm(n["r"])], key=str)
                return fn_atom(op.lower(), a, b)
            l, r = self.norm(n["l"]), self.norm(n["r"])
            ty = (self.c.ty(n) or "").lstrip("&")
            if op == "Add":
                return l + r
            if op == "Sub":
                return l - r
            if op == "Mul":
                return l * r
            if op == "Div":
                if ty in INT_TYS:
                    return fn_atom("idiv", l, r)
                return l / r
            if op == "Rem":
                return fn_atom("imod" if ty in INT_TYS else "fmod", l, r)
        if k == "mcall":
            return self.mcall(n)
        if k == "call":
            return self.call(n)
        if k == "if":
            c = strip(n["c"])
            if c.get("k") == "letx":
                raise ValueError("if-let inside a scalar expression")
            return ite(self.norm(n["c"]), self.norm(n["th"]), self.norm(n["el"]))
        if k == "blk":
            b = n["b"]
            saved = dict(self.env)
            nodes = list(b["stmts"])
            try:
                for i_, s in enumerate(nodes):
                    if s.get("k") == "let" and s["pat"].get("k") == "bind" and s["init"] is not None:
                        self.env[s["pat"]["hid"]] = self.norm(s["init"])
                        continue
                    s0 = strip(s)
                    if s0 is not None and s0.get("k") == "if" and s0["el"] is None:
                        # guard clause `if c { return v; }` (or `break 'inlined v`): the value is ite(c, v, <rest of the block>)
                        th = strip(s0["th"])
                        while th is not None and th.get("k") == "blk" and len(th["b"]["stmts"]) + (1 if th["b"]["tail"] is not None else 0) == 1:
                            th = strip((th["b"]["stmts"] or [th["b"]["tail"]])[0])
                        if th is not None and th.get("k") in ("ret", "break") and th.get("v") is not None:
                            cond = self.norm(s0["c"])
                            v_then = self.norm(th["v"])
                            rest = {"k": "blk", "b": {"k": "block", "stmts": nodes[i_ + 1:], "tail": b["tail"]}}
                            v_rest = self.norm(rest)
                            return ite(cond, v_then, v_rest)
                    raise ValueError("statement in scalar block: " + short(pretty(s), 60))
                t_ = b["tail"]
                if t_ is not None and strip(t_).get("k") in ("ret", "break") and strip(t_).get("v") is not None:
                    t_ = strip(t_)["v"]
                r = self.norm(t_)
                return r
            finally:
                self.env = saved
        if k == "match":
            sc_ = strip(n["scrut"])
            if sc_ is not None and sc_.get("k") == "mcall" and sc_.get("name") == "partial_cmp" and len(sc_["args"]) == 1:
                return self.match_ordering(n, sc_)
            return self.match_option(n)
        if k == "path":
            return Rat.atom(n["def"])
        if k == "tup":
            return fn_atom("tup", *[self.norm(x) for x in n["xs"]])
        raise ValueError("E1 cannot normalise %s: %s" % (k, short(pretty(n), 80)))

    def match_ordering(self, n, sc):
        """`match a.partial_cmp(b) { Some(Equal) => E, Some(Greater) => G, Some(Less) | None => L }` as ite(a == b, E, ite(a > b, G, L)):
        the ordering tests are the comparisons themselves; the unordered case (a NaN operand) makes every comparison false, so it must share
        its value with the case that is reached last (the final `else` of the comparison chain)."""
        a, b = self.norm(sc["recv"]), self.norm(sc["args"][0])
        ty = (self.c.ty(strip(sc["recv"])) or "").lstrip("&")
        isint = ty in INT_TYS
        case = {}

        def kinds(p_):
            while p_.get("k") in ("ref", "deref"):
                p_ = p_["p"]
            if p_.get("k") == "or":
                out = []
                for q in p_["ps"]:
                    out += kinds(q)
                return out
            if p_.get("k") == "wild":
                return ["*"]
            if p_.get("k") == "ppath" and p_["path"].endswith("::None"):
                return ["None"]
            if p_.get("k") == "tstruct" and p_["path"].endswith("::Some") and len(p_["ps"]) == 1:
                q = p_["ps"][0]
                while q.get("k") in ("ref", "deref"):
                    q = q["p"]
                if q.get("k") == "ppath" and q["path"].rsplit("::", 1)[-1] in ("Equal", "Greater", "Less"):
                    return [q["path"].rsplit("::", 1)[-1]]
                if q.get("k") == "wild":
                    return ["Some*"]
            raise ValueError("E1: unsupported pattern on an Ordering")
        for arm in n["arms"]:
            if arm.get("guard") is not None:
                raise ValueError("E1: guarded arm on an Ordering")
            v = self.norm(arm["body"])
            for kd in kinds(arm["pat"]):
                targets = {"*": ["Equal", "Greater", "Less", "None"], "Some*": ["Equal", "Greater", "Less"]}.get(kd, [kd])
                for t_ in targets:
                    case.setdefault(t_, v)
        if set(case) != {"Equal", "Greater", "Less", "None"}:
            raise ValueError("E1: Ordering match does not cover every case")
        eq = cmp_atom("Eq", a, b, integer=isint)
        # chain `==`, then one strict comparison; the remaining ordered case must agree with the unordered one
        if case["Less"] == case["None"]:
            return ite(eq, case["Equal"], ite(cmp_atom("Gt", a, b, integer=isint), case["Greater"], case["Less"]))
        if case["Greater"] == case["None"]:
            return ite(eq, case["Equal"], ite(cmp_atom("Lt", a, b, integer=isint), case["Less"], case["Greater"]))
        if case["Equal"] == case["None"]:
            return ite(cmp_atom("Gt", a, b, integer=isint), case["Greater"], ite(cmp_atom("Lt", a, b, integer=isint), case["Less"], case["Equal"]))
        raise ValueError("E1: the unordered case of an Ordering match has a value of its own")

    def match_option(self, n):
        """`match <place> { Some(x) => A, None => B }` as ite(is_some(place), A[x := place.Some], B)"""
        arms = n["arms"]
        if len(arms) != 2:
            raise ValueError("E1: match in scalar expression")
        some = none = None
        for a in arms:
            p_ = a["pat"]
            while p_.get("k") in ("ref", "deref"):
                p_ = p_["p"]
            if p_.get("k") == "tstruct" and p_["path"].endswith("::Some") and len(p_["ps"]) == 1:
                some = (a, p_["ps"][0])
            elif (p_.get("k") == "ppath" and p_["path"].endswith("::None")) or p_.get("k") == "wild":
                none = a
        if some is None or none is None:
            raise ValueError("E1: match in scalar expression")
        src = self.place_name(n["scrut"])
        saved = dict(self.env)
        for nm, hid in pat_binds(some[1]):
            self.env[hid] = Rat.atom("%s.Some" % src)
        t = self.norm(some[0]["body"])
        self.env = saved
        e = self.norm(none["body"])
        return ite("is_some(%s)" % src, t, e)

    def math(self, name, x, args, n):
        if name in ("powi", "powf", "pow"):
            e = args[0].const_value()
            if e is not None and e.denominator == 1 and abs(e) <= 8:
                return x ** int(e)
            return fn_atom("pow", x, args[0])
        if name == "sqrt":
            return r_sqrt(x)
        if name == "abs":
            return r_abs(x)
        if name in ("exp", "ln", "tanh", "cosh", "sinh", "recip", "floor", "ceil", "round"):
            if name == "recip":
                return Rat.const(1) / x
            return fn_atom(name, x)
        if name in ("max", "min"):
            a, b = sorted([str(x), str(args[0])])
            return fn_atom(name, a, b)
        if name == "clamp":
            return fn_atom("clamp", x, args[0], args[1])
        if name in ("clone", "to_owned", "into", "unwrap", "copied", "cloned"):
            return x
        if name == "len":
            return Rat.atom("len(%s)" % x)
        if name == "is_nan":
            return fn_atom("is_nan", x)
        raise ValueError("E1: unknown scalar method %s in %s" % (name, short(pretty(n), 80)))

    def mcall(self, n):
        name = n["name"]
        if name == "len" and not n["args"]:
            if self.reduce_hook is not None:
                r = self.reduce_hook(self, n)        # e.g. the length of a named flat copy of the target is N
                if r is not None:
                    return r
            try:
                return Rat.atom(self.place_name(n))
            except ValueError:
                pass
        if self.reduce_hook is not None:
            r = self.reduce_hook(self, n)
            if r is not None:
                return r
        if n["callee"] in self.c.fns:
            r = self.inline_local(n["callee"], [n["recv"]] + list(n["args"]))
            if r is not None:
                return r
        base = n["callee"].rsplit("::", 1)[0]
        x = self.norm(n["recv"])
        args = [self.norm(a) for a in n["args"]]
        if not ("f32" in base or "f64" in base) and name not in ("clone", "to_owned", "into", "unwrap", "copied", "cloned", "len",
                                                                   "min", "max", "pow", "abs"):
            # method on a non-scalar: uninterpreted
            return fn_atom(n["callee"], x, *args)
        return self.math(name, x, args, n)

    def inline_local(self, callee, arg_nodes):
        """Inline a crate-local helper whose body is a pure scalar expression of its parameters."""
        callee = callee[5:] if callee.startswith("Self:") else callee
        fn = self.c.fns.get(callee)
        if fn is None or self.depth > 4:
            return None
        ret = fn.get("output", "")
        if ret not in ("f32", "usize", "bool", "f64", "i32"):
            return None
        params = fn["params"]
        if len(params) != len(arg_nodes):
            return None
        env = {}
        for p_, a_ in zip(params, arg_nodes):
            while p_.get("k") in ("ref", "deref"):
                p_ = p_["p"]
            if p_.get("k") != "bind":
                return None
            if p_["name"] == "self":
                env[p_["hid"]] = Rat.atom("self")
                continue
            env[p_["hid"]] = self.norm(a_)
        sub = Norm(self.c, env, None)
        sub.reduce_hook = self.reduce_hook
        sub.depth = self.depth + 1
        try:
            return sub.norm(fn["body"])
        except ValueError:
            return None

    def call(self, n):
        callee = n["callee"]
        r = self.inline_local(callee, n["args"])
        if r is not None:
            return r
        args = [self.norm(a) for a in n["args"]]
        name = callee.rsplit("::", 1)[-1]
        base = callee.rsplit("::", 1)[0] if "::" in callee else ""
        if "f32" in base or "f64" in base:
            return self.math(name, args[0], args[1:], n)
        if callee.startswith("local:"):
            return fn_atom("apply_" + callee[6:], *args)
        return fn_atom(callee, *args)


# ------------------------------------------------------------------ symbolic execution of scalar programs
class Sym:
    """Symbolically executes a per-element body.

    cells: function node -> cell name or None (e.g. `weights[i][j]` -> "weights" once the index vector
    has been verified by the caller).  Parameter guards (conditions that do not mention a cell) fork the
    execution; data-dependent conditions become ite() atoms.
    """

    def __init__(self, crate, cellname, init=None, env=None):
        self.c = crate
        self.cellname = cellname
        self.init = init or {}
        self.env0 = dict(env or {})

    def run(self, body):
        store0 = {}
        paths = self._exec_block(body, [((), store0, dict(self.env0))])
        return [(g, st) for (g, st, _) in paths]

    def _norm(self, store, env):
        def cell(n):
            nm = self.cellname(n)
            if nm is not None:
                return store.get(nm, self.init.get(nm, Rat.atom(nm)))
            return None
        return Norm(self.c, env, cell)

    def _has_effects(self, n):
        from .hir import walk
        return any(x.get("k") in ("assign", "assignop") for x in walk(n))

    def _mentions_cell(self, n, store):
        from .hir import walk
        for x in walk(n):
            if self.cellname(x) is not None:
                return True
        return False

    def _exec_block(self, n, states):
        n = strip(n)
        if n.get("k") == "blk":
            b = n["b"]
            for s in b["stmts"]:
                states = self._exec_stmt(s, states)
            if b["tail"] is not None:
                states = self._exec_stmt(b["tail"], states)
            return states
        return self._exec_stmt(n, states)

    def _exec_stmt(self, s, states):
        k = s.get("k")
        out = []
        if k == "let":
            if s["pat"].get("k") != "bind" or s["init"] is None:
                raise ValueError("E1: unsupported let pattern in scalar program: " + short(pretty(s), 60))
            init = strip(s["init"])
            if init.get("k") in ("if", "match") and self._has_effects(init):
                # value-producing conditional with side effects: execute it as a statement, the value is `<value>`
                res = self._exec_stmt(init, [(g, dict(st), env) for (g, st, env) in states])
                for (g, st, env) in res:
                    st = dict(st)
                    v = st.pop("<value>", None)
                    if v is None:
                        raise ValueError("E1: conditional initialiser without a value")
                    env = dict(env)
                    env[s["pat"]["hid"]] = v
                    out.append((g, st, env))
                return out
            for (g, st, env) in states:
                env = dict(env)
                env[s["pat"]["hid"]] = self._norm(st, env).norm(s["init"])
                out.append((g, st, env))
            return out
        if k in ("assign", "assignop"):
            for (g, st, env) in states:
                nm = self.cellname(strip(s["l"]))
                N = self._norm(st, env)
                r = N.norm(s["r"])
                if k == "assignop":
                    l = N.norm(s["l"])
                    op = s["op"].replace("Assign", "")
                    r = {"Add": l + r, "Sub": l - r, "Mul": l * r, "Div": l / r}[op]
                st = dict(st)
                if nm is not None:
                    st[nm] = r
                elif strip(s["l"]).get("k") == "local":
                    env = dict(env)
                    env[strip(s["l"])["hid"]] = r
                else:
                    raise ValueError("E1: assignment to a non-cell: " + short(pretty(s), 60))
                out.append((g, st, env))
            return out
        if k == "if":
            c = strip(s["c"])
            for (g, st, env) in states:
                if c.get("k") == "letx":
                    # `if let Some(x) = <param>`: parameter guard with a binding
                    src = Norm(self.c, env).place_name(c["init"]) if strip(c["init"]).get("k") in ("field", "local") else str(self._norm(st, env).norm(c["init"]))
                    i0 = strip(c["init"])
                    if i0.get("k") == "local" and i0["hid"] in env and len(env[i0["hid"]].atoms()) == 1 and str(env[i0["hid"]]) in env[i0["hid"]].atoms():
                        src = str(env[i0["hid"]])       # `let decay = self.decay; if let Some(d) = decay`: the guard is about self.decay
                    binds = pat_binds(c["pat"])
                    env_t = dict(env)
                    for nm, hid in binds:
                        env_t[hid] = Rat.atom("%s.Some" % src)
                    gname = "is_some(%s)" % src
                    out += self._exec_block(s["th"], [(g + ((gname, True),), st, env_t)])
                    if s["el"] is not None:
                        out += self._exec_block(s["el"], [(g + ((gname, False),), st, env)])
                    else:
                        out.append((g + ((gname, False),), st, env))
                    continue
                cond = str(self._norm(st, env).norm(s["c"]))
                if not self._mentions_cell(s["c"], st) and not any(a in cond for a in st):
                    # canonical guard polarity: never fork on a negation (`if !c {A} else {B}` forks on c, swapped)
                    pos_, neg_ = True, False
                    if cond in REG and REG[cond][0] == "not":
                        cond = str(negate_cond(cond))
                        pos_, neg_ = False, True
                    t = self._exec_block(s["th"], [(g + ((cond, pos_),), st, env)])
                    e = self._exec_block(s["el"], [(g + ((cond, neg_),), st, env)]) if s["el"] is not None else [(g + ((cond, neg_),), st, env)]
                    out += t + e
                else:
                    t = self._exec_block(s["th"], [(g, st, env)])
                    e = self._exec_block(s["el"], [(g, st, env)]) if s["el"] is not None else [(g, st, env)]
                    if len(t) != 1 or len(e) != 1:
                        raise ValueError("E1: nested parameter guard under a data-dependent condition")
                    (_, st_t, env_t), (_, st_e, env_e) = t[0], e[0]
                    merged = {}
                    for nm in set(st_t) | set(st_e):
                        a = st_t.get(nm, self.init.get(nm, Rat.atom(nm)))
                        b = st_e.get(nm, self.init.get(nm, Rat.atom(nm)))
                        merged[nm] = ite(cond, a, b)
                    env_m = dict(env)
                    for h in set(env_t) | set(env_e):
                        if h in env_t and h in env_e and env_t[h] != env_e[h]:
                            env_m[h] = ite(cond, env_t[h], env_e[h])
                        elif h in env_t and h in env_e:
                            env_m[h] = env_t[h]
                    out.append((g, merged, env_m))
            return out
        if k == "blk":
            return self._exec_block(s, states)
        if k == "match" and strip(s["scrut"]) is not None and strip(s["scrut"]).get("k") == "mcall" and strip(s["scrut"]).get("name") == "partial_cmp" \
                and not self._has_effects(s):
            # an effect-free match on an Ordering is a value: `match a.partial_cmp(b) { .. }`
            for (g, st, env) in states:
                st = dict(st)
                st["<value>"] = self._norm(st, env).norm(s)
                out.append((g, st, env))
            return out
        if k == "match":
            # `match <param option> { Some(x) => .., None => .. }` as a parameter guard
            arms_ = s["arms"]
            some = none = None
            for a in arms_:
                p_ = a["pat"]
                while p_.get("k") in ("ref", "deref"):
                    p_ = p_["p"]
                if p_.get("k") == "tstruct" and p_["path"].endswith("::Some") and len(p_["ps"]) == 1:
                    some = (a, p_["ps"][0])
                elif (p_.get("k") == "ppath" and p_["path"].endswith("::None")) or p_.get("k") == "wild":
                    none = a
            if len(arms_) != 2 or some is None or none is None:
                raise ValueError("E1: match in scalar program")
            for (g, st, env) in states:
                src = Norm(self.c, env).place_name(s["scrut"])
                env_t = dict(env)
                for nm, hid in pat_binds(some[1]):
                    env_t[hid] = Rat.atom("%s.Some" % src)
                gname = "is_some(%s)" % src
                out += self._exec_block(some[0]["body"], [(g + ((gname, True),), st, env_t)])
                out += self._exec_block(none["body"], [(g + ((gname, False),), st, env)])
            return out
        if k == "mcall" and s["name"] == "push" and len(s["args"]) == 1 and self.cellname(strip(s["recv"])) is None:
            # building the result with push() in a loop: the pushed expression is the element's value
            for (g, st, env) in states:
                st = dict(st)
                st["<value>"] = self._norm(st, env).norm(s["args"][0])
                out.append((g, st, env))
            return out
        # expression statement without effect on cells (value of the block): record as result
        for (g, st, env) in states:
            st = dict(st)
            st["<value>"] = self._norm(st, env).norm(s)
            out.append((g, st, env))
        return out


def r_max(a, b):
    x, y = sorted([str(_r(a)), str(_r(b))])
    return fn_atom("max", x, y)


def r_min(a, b):
    x, y = sorted([str(_r(a)), str(_r(b))])
    return fn_atom("min", x, y)


# ------------------------------------------------------------------ IEEE operation trees (association-sensitive)
def optree(crate, n, env, cell):
    """Nested tuple describing the floating-point operations of a scalar expression exactly as written:
    commutative operands of ONE operation are sorted, but nesting (association) is preserved."""
    n = strip(n)
    nm = cell(n)
    if nm is not None:
        return ("cell", nm)
    k = n.get("k")
    if k == "lit":
        return ("lit", str(Fr(n["v"].replace("_", "").rstrip("f32").rstrip("f64").rstrip("u64").rstrip("usize"))) if n["v"][0].isdigit() else n["v"])
    if k == "local":
        if n["hid"] in env:
            return env[n["hid"]]
        return ("var", n["name"])
    if k in ("field", "index"):
        return ("place", pretty(n))
    if k == "cast":
        return optree(crate, n["x"], env, cell)
    if k == "un" and n["op"] == "Neg":
        return ("neg", optree(crate, n["x"], env, cell))
    if k == "bin":
        a, b = optree(crate, n["l"], env, cell), optree(crate, n["r"], env, cell)
        op = n["op"].lower()
        if op in ("add", "mul"):
            a, b = sorted([a, b], key=repr)
        return (op, a, b)
    if k == "mcall":
        return ("call", n["name"], optree(crate, n["recv"], env, cell)) + tuple(optree(crate, a, env, cell) for a in n["args"])
    if k == "call":
        return ("call", n["callee"].rsplit("::", 1)[-1]) + tuple(optree(crate, a, env, cell) for a in n["args"])
    if k == "if":
        return ("if", pretty(n["c"]), optree(crate, n["th"], env, cell), optree(crate, n["el"], env, cell) if n["el"] is not None else None)
    if k == "blk":
        b = n["b"]
        env = dict(env)
        for s_ in b["stmts"]:
            if s_.get("k") == "let" and s_["pat"].get("k") == "bind" and s_["init"] is not None:
                env[s_["pat"]["hid"]] = optree(crate, s_["init"], env, cell)
            else:
                return ("stmt", pretty(s_))
        return optree(crate, b["tail"], env, cell) if b["tail"] is not None else ("unit",)
    return ("other", pretty(n))


def optree_of_update(crate, body, cell):
    """operation tree of the single cell update performed by a per-element body (`*a op= e`, `*a = e`, or a value)"""
    body = strip(body)
    stmts = []
    if body.get("k") == "blk":
        stmts = list(body["b"]["stmts"]) + ([body["b"]["tail"]] if body["b"]["tail"] is not None else [])
    else:
        stmts = [body]
    env = {}
    out = []
    for s_ in stmts:
        s_ = s_ if s_.get("k") in ("let",) else strip(s_)
        if s_.get("k") == "let" and s_["pat"].get("k") == "bind" and s_["init"] is not None:
            env[s_["pat"]["hid"]] = optree(crate, s_["init"], env, cell)
        elif s_.get("k") == "assignop":
            op = s_["op"].replace("Assign", "").lower()
            a, b = optree(crate, s_["l"], env, cell), optree(crate, s_["r"], env, cell)
            if op in ("add", "mul"):
                a, b = sorted([a, b], key=repr)
            out.append(("set", optree(crate, s_["l"], env, cell), (op, a, b)))
        elif s_.get("k") == "assign":
            out.append(("set", optree(crate, s_["l"], env, cell), optree(crate, s_["r"], env, cell)))
        else:
            out.append(("value", optree(crate, s_, env, cell)))
    return tuple(out)
