"""metamorph.py [transform ...]: systematic negative controls on the extracted program.

Each transform rewrites the HIR mirror of /repo's current tree in a behaviour-preserving way *everywhere at once*
and every rule module is re-run on the result.  Any change of verdict is a false alarm in waiting: the rule depends
on spelling, statement position, operand order or branch order rather than on behaviour.

  alpha    every local binding renamed
  noise    a no-op `let` inserted before every statement and before every block tail
  commute  operands of exact-commutative primitive operations swapped (a+b, a*b, a==b, a<b -> b>a ...)
  flip     `if c {A} else {B}`  ->  `if !c {B} else {A}`
  arms     arms of matches over disjoint enum-variant patterns reversed
  unlet    an immutable temporary used once, first thing in the next statement, inlined there (inverse of letify)
  iflet    two-armed `match e { P => A, _ => B }` turned into `if let P = e { A } else { B }`
  foreach  `X.for_each(|p| body)` statements turned into `for p in X { body }`
  letify   the first-evaluated nested call of a statement hoisted into a fresh temporary `let`
"""
import copy, os, sys
from . import facts as F, core, rules, names

NUM = {"f32", "f64", "usize", "u8", "u16", "u32", "u64", "i8", "i16", "i32", "i64", "isize"}


def _walk(n):
    stack = [n]
    while stack:
        x = stack.pop()
        if isinstance(x, dict):
            yield x
            stack.extend(x.values())
        elif isinstance(x, list):
            stack.extend(x)


def t_alpha(fx):
    for fn in fx["fns"].values():
        for part in (fn.get("params"), fn.get("body")):
            for x in _walk(part):
                if x.get("k") in ("bind", "local") and "hid" in x and x.get("name") not in (None, "self"):
                    x["name"] = "q%s" % x["hid"]
    return names.normalise(fx)


def t_noise(fx):
    tid = fx["types"].index("()")
    n = 0
    for fn in fx["fns"].values():
        for x in list(_walk(fn.get("body"))):
            if x.get("k") == "block":
                new = []
                for s in x["stmts"]:
                    n += 1
                    new.append({"k": "let", "pat": {"k": "bind", "name": "_noise%d" % n, "hid": 5000000 + n, "mode": "BindingMode(No, Not)", "t": tid},
                                "init": {"k": "tup", "xs": [], "t": tid}, "els": None, "line": s.get("line")})
                    new.append(s)
                if x["tail"] is not None and x["stmts"]:
                    n += 1
                    new.append({"k": "let", "pat": {"k": "bind", "name": "_noise%d" % n, "hid": 5000000 + n, "mode": "BindingMode(No, Not)", "t": tid},
                                "init": {"k": "tup", "xs": [], "t": tid}, "els": None, "line": None})
                x["stmts"] = new
    return n


def _prim(fx, n):
    t = n.get("ta", n.get("t"))
    if t is None:
        return False
    s = fx["types"][t]
    return s.lstrip("&").replace("mut ", "").strip() in NUM


def _pure(n, crate_fns):
    for x in _walk(n):
        if x.get("k") in ("call", "mcall"):
            c = x.get("callee") or ""
            if c in crate_fns or c.startswith("Self:") or "rand" in c.lower():
                return False
        if x.get("k") in ("assign", "assignop", "closure", "macro"):
            return False
    return True


def t_commute(fx):
    n = 0
    SW = {"Lt": "Gt", "Gt": "Lt", "Le": "Ge", "Ge": "Le", "Eq": "Eq", "Ne": "Ne", "Add": "Add", "Mul": "Mul"}
    for fn in fx["fns"].values():
        for x in _walk(fn.get("body")):
            if x.get("k") == "bin" and x["op"] in SW and _prim(fx, x["l"]) and _prim(fx, x["r"]) and _pure(x["l"], fx["fns"]) and _pure(x["r"], fx["fns"]):
                x["l"], x["r"] = x["r"], x["l"]
                x["op"] = SW[x["op"]]
                n += 1
    return n


def t_flip(fx):
    bt = fx["types"].index("bool")
    n = 0
    for fn in fx["fns"].values():
        for x in _walk(fn.get("body")):
            if x.get("k") == "if" and x.get("el") is not None:
                c = x["c"]
                if any(y.get("k") == "letx" for y in _walk(c)):
                    continue
                el = x["el"]
                # `else if` chains: the else branch is an `if` expression, wrap it in a block
                if el.get("k") == "if":
                    el = {"k": "blk", "b": {"k": "block", "stmts": [], "tail": el}, "t": x.get("t")}
                x["c"] = {"k": "un", "op": "Not", "x": c, "t": bt}
                x["th"], x["el"] = el, x["th"]
                n += 1
    return n


def t_arms(fx):
    n = 0

    def vp(p):
        while p.get("k") in ("ref", "deref"):
            p = p["p"]
        return p.get("path") if p.get("k") in ("tstruct", "ppath", "struct") else None
    for fn in fx["fns"].values():
        for x in _walk(fn.get("body")):
            if x.get("k") == "match" and len(x["arms"]) >= 2 and all(a.get("guard") is None for a in x["arms"]):
                arms = x["arms"]
                last = []
                p_last = arms[-1]["pat"]
                while p_last.get("k") in ("ref", "deref"):
                    p_last = p_last["p"]
                if p_last.get("k") == "wild":
                    arms, last = arms[:-1], arms[-1:]
                paths = [vp(a["pat"]) for a in arms]
                if len(arms) >= 2 and all(paths) and len(set(paths)) == len(paths):
                    x["arms"] = list(reversed(arms)) + last
                    n += 1
    return n


def t_letify(fx):
    """`stmt(f(g(x), ..))`  ->  `let tmp = g(x); stmt(f(tmp, ..))`: the first-evaluated nested call of a statement's
    outermost call is hoisted into a fresh immutable temporary (values only: no references, no closures inside)."""
    n = 0

    def strip_(e):
        while e is not None and e.get("k") == "blk" and not e["b"]["stmts"] and e["b"]["tail"] is not None:
            e = e["b"]["tail"]
        return e

    def top_call(st):
        k = st.get("k")
        if k == "let" and st.get("init") is not None and st.get("els") is None:
            return strip_(st["init"])
        if k in ("assign", "assignop"):
            return strip_(st["r"])
        if k in ("call", "mcall"):
            return st
        return None

    def hoistable(a):
        a0 = strip_(a)
        if a0 is None or a0.get("k") not in ("call", "mcall") or a0.get("mac") or (a0.get("f") or {}).get("mac"):
            return False
        t = a0.get("t")
        ty = fx["types"][t] if t is not None else "&"
        if ty.startswith("&") or ty in ("()", "!") or "Iter" in ty or "iter::" in ty or "Map<" in ty or "Zip<" in ty or "Chunks" in ty or "impl " in ty or "{closure" in ty:
            return False
        for x in _walk(a0):
            if x.get("k") in ("closure", "ret", "break", "continue", "assign", "assignop", "letx"):
                return False
        return True
    for fn in fx["fns"].values():
        for b in list(_walk(fn.get("body"))):
            if b.get("k") != "block":
                continue
            new = []
            for st in b["stmts"]:
                tc = top_call(st)
                done = False
                if tc is not None and tc.get("k") in ("call", "mcall") and not tc.get("mac") and not (tc.get("f") or {}).get("mac"):
                    slots = ([("recv", None)] if tc["k"] == "mcall" else []) + [("args", i) for i in range(len(tc["args"]))]
                    for (key, i) in slots:
                        a = tc[key] if i is None else tc[key][i]
                        a0 = strip_(a)
                        if a0 is None:
                            break
                        if a0.get("k") in ("local", "lit", "path", "field"):
                            continue        # a place / constant: evaluating it has no effect, look at the next operand
                        if a0.get("k") == "ref" and strip_(a0["x"]) is not None and strip_(a0["x"]).get("k") in ("local", "field"):
                            continue
                        if hoistable(a):
                            n += 1
                            hid = 7000000 + n
                            t = a0.get("t")
                            new.append({"k": "let", "pat": {"k": "bind", "name": "_tmp%d" % n, "hid": hid, "mode": "BindingMode(No, Not)", "t": t},
                                        "init": a0, "els": None, "line": st.get("line")})
                            loc = {"k": "local", "name": "_tmp%d" % n, "hid": hid, "t": t, "line": st.get("line")}
                            if i is None:
                                tc[key] = loc
                            else:
                                tc[key][i] = loc
                        break
                new.append(st)
            b["stmts"] = new
    return n


def t_unlet(fx):
    """`let t = e; stmt(.. t ..)`  ->  `stmt(.. e ..)` for an immutable temporary used exactly once, in the next statement,
    outside any closure or loop of that statement, and evaluated there before anything else that has an effect."""
    n = 0
    for fn in fx["fns"].values():
        body = fn.get("body")
        if body is None:
            continue
        uses = {}
        for x in _walk(body):
            if x.get("k") == "local":
                uses[x["hid"]] = uses.get(x["hid"], 0) + 1
        for b in list(_walk(body)):
            if b.get("k") != "block":
                continue
            i = 0
            while i < len(b["stmts"]):
                st = b["stmts"][i]
                nxt = b["stmts"][i + 1] if i + 1 < len(b["stmts"]) else b["tail"]
                ok = (st.get("k") == "let" and st.get("init") is not None and st.get("els") is None and st["pat"].get("k") == "bind"
                      and "Mut" not in str(st["pat"].get("mode")) and not str(st["pat"].get("mode", "")).startswith("BindingMode(Ref")
                      and uses.get(st["pat"]["hid"], 0) == 1 and nxt is not None)
                if ok:
                    init = st["init"]
                    ty = fx["types"][st["pat"]["t"]] if st["pat"].get("t") is not None else "&"
                    if ty.startswith("&") or any(x.get("k") in ("closure", "assign", "assignop", "ret", "break", "continue", "for", "loop", "if", "match") or x.get("mac") for x in _walk(init)):
                        ok = False
                if ok:
                    # find the use: must be reachable from nxt without entering a closure / loop / branch, and be the first effectful operand
                    hid = st["pat"]["hid"]
                    found = [None]

                    def visit(node, parent, key, idx):
                        if found[0] is not None or not isinstance(node, dict):
                            return "stop" if found[0] is not None else None
                        k = node.get("k")
                        if k == "local" and node.get("hid") == hid:
                            found[0] = (parent, key, idx)
                            return "stop"
                        if k in ("closure", "for", "loop", "if", "match", "block"):
                            return "blocked" if any(y.get("k") == "local" and y.get("hid") == hid for y in _walk(node)) else None
                        order = {"mcall": ("recv", "args"), "call": ("args",), "bin": ("l", "r"), "un": ("x",), "ref": ("x",), "cast": ("x",),
                                 "field": ("b",), "index": ("b", "i"), "tup": ("xs",), "let": ("init",), "assign": ("r",), "assignop": ("r",),
                                 "blk": (), "struct": (), "array": ("xs",)}.get(k, ())
                        for kk in order:
                            v = node.get(kk)
                            if isinstance(v, list):
                                for j, e in enumerate(v):
                                    r = visit(e, node, kk, j)
                                    if r:
                                        return r
                                    if isinstance(e, dict) and e.get("k") in ("call", "mcall"):
                                        return "blocked"       # something with a possible effect is evaluated before the use
                            elif isinstance(v, dict):
                                r = visit(v, node, kk, None)
                                if r:
                                    return r
                                if v.get("k") in ("call", "mcall"):
                                    return "blocked"
                        return None
                    visit(nxt, None, None, None)
                    if found[0] is not None and found[0][0] is not None:
                        parent, key, idx = found[0]
                        if idx is None:
                            parent[key] = init
                        else:
                            parent[key][idx] = init
                        del b["stmts"][i]
                        n += 1
                        continue
                i += 1
    return n


def t_foreach(fx):
    """`X.for_each(|p| body);`  ->  `for p in X { body }`  (closures without `return`; same elements, same order)"""
    n = 0
    unit = fx["types"].index("()")
    for fn in fx["fns"].values():
        for b in list(_walk(fn.get("body"))):
            if b.get("k") != "block":
                continue

            def conv(s):
                nonlocal n
                s0 = s
                while s0 is not None and s0.get("k") == "blk" and not s0["b"]["stmts"] and s0["b"]["tail"] is not None:
                    s0 = s0["b"]["tail"]
                if s0 is None or s0.get("k") != "mcall" or s0.get("name") != "for_each" or len(s0["args"]) != 1:
                    return s
                cl = s0["args"][0]
                while cl.get("k") == "blk" and not cl["b"]["stmts"] and cl["b"]["tail"] is not None:
                    cl = cl["b"]["tail"]
                if cl.get("k") != "closure" or len(cl["params"]) != 1 or any(y.get("k") == "ret" for y in _walk(cl["body"])):
                    return s
                if "rayon" in (s0.get("callee") or ""):
                    return s
                n += 1
                body = cl["body"]
                if body.get("k") != "blk":
                    body = {"k": "blk", "b": {"k": "block", "stmts": [body], "tail": None}, "t": unit}
                return {"k": "for", "pat": cl["params"][0], "iter": s0["recv"], "body": body, "loop_id": 6000000 + n, "id": 6000000 + n, "line": s0.get("line")}
            b["stmts"] = [conv(s) for s in b["stmts"]]
            if b["tail"] is not None:
                t2 = conv(b["tail"])
                if t2 is not b["tail"]:
                    b["stmts"].append(t2)
                    b["tail"] = None
    return n


def t_while(fx):
    """`for i in a..b { body }`  ->  `let end = b; let mut i = a; while i < end { body; i += 1; }`
    (index loops whose body neither `continue`s nor rebinds the counter; a is a literal)"""
    n = 0
    types = fx["types"]
    bool_t = types.index("bool") if "bool" in types else None
    unit = types.index("()")
    for fn in fx["fns"].values():
        for b in list(_walk(fn.get("body"))):
            if b.get("k") != "block":
                continue
            out = []
            items = list(b["stmts"])
            tail_moved = False
            if b.get("tail") is not None and b["tail"].get("k") == "for":
                items.append(b["tail"])
                tail_moved = True
            for s in items:
                ok = s.get("k") == "for" and s["pat"].get("k") == "bind" and not s["pat"].get("sub")
                it = s.get("iter") if ok else None
                while it is not None and it.get("k") == "blk" and not it["b"]["stmts"] and it["b"]["tail"] is not None:
                    it = it["b"]["tail"]
                ok = ok and it is not None and it.get("k") == "struct" and it.get("path") == "std::ops::Range"
                if ok:
                    fs = dict((a_, b_) for a_, b_ in it["fs"])
                    st = fs["start"]
                    ok = st.get("k") == "lit" and not any(y.get("k") == "continue" for y in _walk(s["body"])) and s["body"].get("k") == "blk"
                if not ok:
                    out.append(s)
                    continue
                n += 1
                ih = s["pat"]["hid"]
                it_ty = s["pat"].get("t")
                eh = 7000000 + n
                line = s.get("line")
                loc = lambda: {"k": "local", "name": s["pat"]["name"], "hid": ih, "t": it_ty, "line": line}
                endl = lambda: {"k": "local", "name": "__end%d" % n, "hid": eh, "t": it_ty, "line": line}
                body = s["body"]["b"]
                stmts = list(body["stmts"]) + ([body["tail"]] if body.get("tail") is not None else [])
                inc = {"k": "assignop", "op": "AddAssign", "l": loc(), "r": {"k": "lit", "v": "1", "t": it_ty, "line": line}, "t": unit, "line": line}
                lid = s.get("loop_id")
                th = {"k": "blk", "b": {"k": "block", "stmts": stmts + [inc], "tail": None}, "t": unit, "line": line}
                el = {"k": "blk", "b": {"k": "block", "stmts": [{"k": "break", "label": lid, "v": None, "mac": "Desugaring(WhileLoop)", "line": line}], "tail": None},
                      "mac": "Desugaring(WhileLoop)", "t": unit, "line": line}
                cond = {"k": "bin", "op": "Lt", "l": loc(), "r": endl(), "t": bool_t, "line": line}
                lp = {"k": "loop", "src": "While", "loop_id": lid, "line": line, "t": unit,
                      "body": {"k": "block", "stmts": [], "tail": {"k": "if", "c": cond, "th": th, "el": el, "mac": "Desugaring(WhileLoop)", "t": unit, "line": line}}}
                if "id" in s:
                    lp["id"] = s["id"]
                pat_i = dict(s["pat"])
                pat_i["mode"] = "BindingMode(No, Mut)"
                out.append({"k": "let", "pat": {"k": "bind", "name": "__end%d" % n, "hid": eh, "mode": "BindingMode(No, Not)", "t": it_ty}, "init": fs["end"], "els": None, "line": line})
                out.append({"k": "let", "pat": pat_i, "init": st, "els": None, "line": line})
                out.append(lp)
            b["stmts"] = out
            if tail_moved:
                b["tail"] = None
    return n


def t_iflet(fx):
    """`match e { P => A, _ / None => B }` (two arms, no guards, second arm binds nothing)  ->  `if let P = e { A } else { B }`"""
    n = 0
    for fn in fx["fns"].values():
        for x in list(_walk(fn.get("body"))):
            if x.get("k") == "match" and len(x.get("arms", [])) == 2 and all(a.get("guard") is None for a in x["arms"]) and x.get("src") in (None, "Normal"):
                p2 = x["arms"][1]["pat"]
                while p2.get("k") in ("ref", "deref"):
                    p2 = p2["p"]
                p1 = x["arms"][0]["pat"]
                while p1.get("k") in ("ref", "deref"):
                    p1 = p1["p"]
                if p2.get("k") not in ("wild", "ppath") or p1.get("k") not in ("tstruct", "struct"):
                    continue

                def blk(e):
                    return e if e.get("k") == "blk" else {"k": "blk", "b": {"k": "block", "stmts": [], "tail": e}, "t": e.get("t")}
                new = {"k": "if", "c": {"k": "letx", "pat": x["arms"][0]["pat"], "init": x["scrut"], "line": x.get("line")},
                       "th": blk(x["arms"][0]["body"]), "el": blk(x["arms"][1]["body"]), "t": x.get("t"), "line": x.get("line")}
                for k_ in list(x.keys()):
                    del x[k_]
                x.update(new)
                n += 1
    return n


def t_guard(fx):
    """`if let P = S { if c { A } }` (no else branches, S a local / field place)  ->  `match S { P if c => A, _ => () }`"""
    n = 0
    for fn in fx["fns"].values():
        for x in list(_walk(fn.get("body"))):
            if x.get("k") != "if" or x.get("el") is not None:
                continue
            c = x["c"]
            if c.get("k") != "letx" or c["init"].get("k") not in ("local", "field"):
                continue
            th = x["th"]
            if th.get("k") != "blk" or th["b"]["stmts"] and th["b"].get("tail") is not None:
                continue
            items = list(th["b"]["stmts"]) + ([th["b"]["tail"]] if th["b"].get("tail") is not None else [])
            if len(items) != 1 or items[0].get("k") != "if" or items[0].get("el") is not None or items[0]["c"].get("k") == "letx":
                continue
            inner = items[0]
            new = {"k": "match", "scrut": c["init"], "src": "Normal", "line": x.get("line"), "t": x.get("t"),
                   "arms": [{"pat": c["pat"], "guard": inner["c"], "body": inner["th"]},
                            {"pat": {"k": "wild"}, "guard": None, "body": {"k": "tup", "xs": [], "line": x.get("line")}}]}
            for k_ in list(x.keys()):
                del x[k_]
            x.update(new)
            n += 1
    return n


def t_inclusive(fx):
    """`for p in a..b`  ->  `for p in a..=b - 1`   (ranges of a for loop whose end is not a literal 0)"""
    n = 0
    for fn in fx["fns"].values():
        for x in list(_walk(fn.get("body"))):
            if x.get("k") != "for":
                continue
            it = x["iter"]
            if it.get("k") == "struct" and it.get("path") == "std::ops::Range" and len(it.get("fs") or []) == 2:
                a, b = it["fs"][0][1], it["fs"][1][1]
                if b.get("k") == "lit":
                    continue
                line = it.get("line")
                x["iter"] = {"k": "call", "callee": "std::ops::RangeInclusive::<Idx>::new", "f": {"k": "path", "def": "std::ops::RangeInclusive::<Idx>::new", "line": line},
                             "args": [a, {"k": "bin", "op": "Sub", "l": b, "r": {"k": "lit", "v": "1", "line": line, "t": b.get("t")}, "line": line, "t": b.get("t")}], "line": line}
                n += 1
    return n


def t_boolmatch(fx):
    """`if a && b { A } else { B }`  ->  `match (a, b) { (true, true) => A, _ => B }`   (a, b side-effect free places or comparisons are bound first:
    only conditions whose two operands are locals / fields are rewritten)"""
    n = 0
    for fn in fx["fns"].values():
        for x in list(_walk(fn.get("body"))):
            if x.get("k") != "if" or x.get("el") is None or x["c"].get("k") != "bin" or x["c"].get("op") != "And":
                continue
            a, b = x["c"]["l"], x["c"]["r"]
            simple = lambda e: e.get("k") in ("local", "field", "lit") or (e.get("k") == "bin" and e.get("op") in ("Lt", "Gt", "Le", "Ge", "Eq", "Ne")
                                                                               and e["l"].get("k") in ("local", "field", "lit") and e["r"].get("k") in ("local", "field", "lit"))
            if not simple(a) or not simple(b):
                continue
            line = x.get("line")
            lit = lambda v: {"k": "plit", "v": v, "neg": False}
            new = {"k": "match", "scrut": {"k": "tup", "xs": [a, b], "line": line}, "src": "Normal", "line": line, "t": x.get("t"),
                   "arms": [{"pat": {"k": "tuple", "ps": [lit("true"), lit("true")]}, "guard": None, "body": x["th"]},
                            {"pat": {"k": "wild"}, "guard": None, "body": x["el"]}]}
            for k_ in list(x.keys()):
                del x[k_]
            x.update(new)
            n += 1
    return n


T = {"guard": t_guard, "inclusive": t_inclusive, "boolmatch": t_boolmatch, "alpha": t_alpha, "noise": t_noise, "commute": t_commute, "flip": t_flip, "arms": t_arms, "letify": t_letify, "unlet": t_unlet, "foreach": t_foreach, "iflet": t_iflet, "while": t_while}


def run(which, repo="/repo", quiet=False, props=None):
    fx = copy.deepcopy(F.get_facts(repo, "dev", quiet=True))
    counts = {w: T[w](fx) for w in which}
    # the transformed program goes through the normalisation pre-passes again, as a program written that way would
    from . import desugar as _ds
    _ds.run(fx)
    if "alpha" in which:
        names.normalise(fx)
    known = {k["key"] for k in core.load_known().get("known", [])}
    bad = []
    for prop in (props or rules.PROPS):
        ctx = core.Ctx(prop, fx)
        rules.load(prop).run(ctx)
        ctx.finish_floors()
        for o in ctx.obligations:
            if o["status"] != "ok" and o["key"] not in known:
                bad.append(o["key"] + "  @" + o["where"])
    if not quiet:
        for b in bad:
            print("ALARM[%s]" % "+".join(which), b[:200])
        print("metamorphic %s: sites rewritten %s, %d alarm(s)" % ("+".join(which), counts, len(bad)))
    return bad, counts


