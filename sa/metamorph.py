"""metamorph.py [transform ...]: systematic negative controls on the extracted program.

Each transform rewrites the HIR mirror of /repo's current tree in a behaviour-preserving way *everywhere at once*
and every rule module is re-run on the result.  Any change of verdict is a false alarm in waiting: the rule depends
on spelling, statement position, operand order or branch order rather than on behaviour.

  alpha    every local binding renamed
  noise    a no-op `let` inserted before every statement and before every block tail
  commute  operands of exact-commutative primitive operations swapped (a+b, a*b, a==b, a<b -> b>a ...)
  flip     `if c {A} else {B}`  ->  `if !c {B} else {A}`
  arms     arms of matches over disjoint enum-variant patterns reversed
"""
import copy, os, sys
from . import facts as F, core, rules, names

NUM = {"f32", "f64", "usize", "u8", "u16", "u32", "u64", "i8", "i16", "i32", "i64", "isize"}


def _walk(n):
    stack = [n]
    while stack:
        x = stack.pop()
        if isinstance(x, dict):
            yield x
            stack.extend(x.values())
        elif isinstance(x, list):
            stack.extend(x)


def t_alpha(fx):
    for fn in fx["fns"].values():
        for part in (fn.get("params"), fn.get("body")):
            for x in _walk(part):
                if x.get("k") in ("bind", "local") and "hid" in x and x.get("name") not in (None, "self"):
                    x["name"] = "q%s" % x["hid"]
    return names.normalise(fx)


def t_noise(fx):
    tid = fx["types"].index("()")
    n = 0
    for fn in fx["fns"].values():
        for x in list(_walk(fn.get("body"))):
            if x.get("k") == "block":
                new = []
                for s in x["stmts"]:
                    n += 1
                    new.append({"k": "let", "pat": {"k": "bind", "name": "_noise%d" % n, "hid": 5000000 + n, "mode": "BindingMode(No, Not)", "t": tid},
                                "init": {"k": "tup", "xs": [], "t": tid}, "els": None, "line": s.get("line")})
                    new.append(s)
                if x["tail"] is not None and x["stmts"]:
                    n += 1
                    new.append({"k": "let", "pat": {"k": "bind", "name": "_noise%d" % n, "hid": 5000000 + n, "mode": "BindingMode(No, Not)", "t": tid},
                                "init": {"k": "tup", "xs": [], "t": tid}, "els": None, "line": None})
                x["stmts"] = new
    return n


def _prim(fx, n):
    t = n.get("ta", n.get("t"))
    if t is None:
        return False
    s = fx["types"][t]
    return s.lstrip("&").replace("mut ", "").strip() in NUM


def _pure(n, crate_fns):
    for x in _walk(n):
        if x.get("k") in ("call", "mcall"):
            c = x.get("callee") or ""
            if c in crate_fns or c.startswith("Self:") or "rand" in c.lower():
                return False
        if x.get("k") in ("assign", "assignop", "closure", "macro"):
            return False
    return True


def t_commute(fx):
    n = 0
    SW = {"Lt": "Gt", "Gt": "Lt", "Le": "Ge", "Ge": "Le", "Eq": "Eq", "Ne": "Ne", "Add": "Add", "Mul": "Mul"}
    for fn in fx["fns"].values():
        for x in _walk(fn.get("body")):
            if x.get("k") == "bin" and x["op"] in SW and _prim(fx, x["l"]) and _prim(fx, x["r"]) and _pure(x["l"], fx["fns"]) and _pure(x["r"], fx["fns"]):
                x["l"], x["r"] = x["r"], x["l"]
                x["op"] = SW[x["op"]]
                n += 1
    return n


def t_flip(fx):
    bt = fx["types"].index("bool")
    n = 0
    for fn in fx["fns"].values():
        for x in _walk(fn.get("body")):
            if x.get("k") == "if" and x.get("el") is not None:
                c = x["c"]
                if any(y.get("k") == "letx" for y in _walk(c)):
                    continue
                el = x["el"]
                # `else if` chains: the else branch is an `if` expression, wrap it in a block
                if el.get("k") == "if":
                    el = {"k": "blk", "b": {"k": "block", "stmts": [], "tail": el}, "t": x.get("t")}
                x["c"] = {"k": "un", "op": "Not", "x": c, "t": bt}
                x["th"], x["el"] = el, x["th"]
                n += 1
    return n


def t_arms(fx):
    n = 0

    def vp(p):
        while p.get("k") in ("ref", "deref"):
            p = p["p"]
        return p.get("path") if p.get("k") in ("tstruct", "ppath", "struct") else None
    for fn in fx["fns"].values():
        for x in _walk(fn.get("body")):
            if x.get("k") == "match" and len(x["arms"]) >= 2 and all(a.get("guard") is None for a in x["arms"]):
                arms = x["arms"]
                last = []
                p_last = arms[-1]["pat"]
                while p_last.get("k") in ("ref", "deref"):
                    p_last = p_last["p"]
                if p_last.get("k") == "wild":
                    arms, last = arms[:-1], arms[-1:]
                paths = [vp(a["pat"]) for a in arms]
                if len(arms) >= 2 and all(paths) and len(set(paths)) == len(paths):
                    x["arms"] = list(reversed(arms)) + last
                    n += 1
    return n


T = {"alpha": t_alpha, "noise": t_noise, "commute": t_commute, "flip": t_flip, "arms": t_arms}


def run(which, repo="/repo", quiet=False, props=None):
    fx = copy.deepcopy(F.get_facts(repo, "dev", quiet=True))
    counts = {w: T[w](fx) for w in which}
    known = {k["key"] for k in core.load_known().get("known", [])}
    bad = []
    for prop in (props or rules.PROPS):
        ctx = core.Ctx(prop, fx)
        rules.load(prop).run(ctx)
        ctx.finish_floors()
        for o in ctx.obligations:
            if o["status"] != "ok" and o["key"] not in known:
                bad.append(o["key"] + "  @" + o["where"])
    if not quiet:
        for b in bad:
            print("ALARM[%s]" % "+".join(which), b[:200])
        print("metamorphic %s: sites rewritten %s, %d alarm(s)" % ("+".join(which), counts, len(bad)))
    return bad, counts


