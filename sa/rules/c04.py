"""C04 - training is ordered mini-batch gradient-sum descent."""
from ..core import Unestablished
from ..hir import walk, strip, pretty, short, calls, pat_binds
from .. import e1, e4
from ..e1 import Rat
from .common import top_stmts_of, mentions_local, INPLACE, T
from .learn import parts, chain_of

LEVEL = "other"
RULES = {
    "R04.1": "batching: `batches` is built from inputs and targets by the same order-preserving, remainder-keeping partition "
             "(par_chunks/chunks(batch) on both, zip, collect; no *_exact, rev, skip, step_by, take, shuffle) and walked by a "
             "plain `for .. in batches.iter()` nested directly in the epoch loop",
    "R04.2": "exactly one call of Network::update on every path through one iteration of the batch loop (path count [1,1]) and none "
             "elsewhere in learn; its step argument is the epoch loop variable, whose range is 1..epochs+1; its gradient "
             "arguments are the per-batch accumulators",
    "R04.3": "sum, in order, at the old weights: the accumulators are fresh per batch, initialised from the first per-sample result and "
             "combined with add_inplace only, in a sequential `for` over the ordered results; no scaling/averaging touches them; "
             "all per-sample gradients are collected before update is called; the per-sample closure calls forward, the objective "
             "and backward (never update)",
    "R04.4": "loss bookkeeping: per batch loss_epoch += sum(losses)/len(losses) with exactly one loss pushed per sample; per epoch "
             "train_loss.push(loss_epoch / len(batches)); loss_epoch is reset to 0 at the top of every epoch",
    "R04.6": "the one step per batch reaches every parameter: Network::update / Feedback::update pass each weight/bias/kernel with its own "
             "summed gradient and its own (layer, filter, bias) state slot to Optimizer::update (R03.3's call-site rule re-run)",
    "R04.5": "every sample of a batch is mapped exactly once (into_par_iter/par_iter . map . collect only; no filter/flat_map/skip)",
}
RULES["R04.3"] += " | Tensor::add_inplace, the primitive the sum is built from, adds every element of every rank (R15.1 re-run) | every per-sample result contributes exactly once to each accumulator on every path through the accumulation loop (first-result assignment or zipped add), whichever way the body is left; no break/return"
ASSUMPTIONS = ["rayon: par_chunks(n) partitions a slice into consecutive chunks of n (last may be shorter), in order; collect of an indexed "
               "parallel iterator preserves order", "numerical equivalence to a reference trainer is not decided"]
TRUSTED = ["rustc nightly front end", "driver/src/main.rs", "sa/e4.py path enumeration", "sa/e1.py"]

CHUNKERS = {"par_chunks", "chunks"}


def r1(ctx, L):
    c = ctx.crate
    fn = L.fn
    if "batches" not in L.lets:
        raise Unestablished("no `let batches`", c.loc(fn))
    bh, bs = L.lets["batches"]
    init = strip(bs["init"])
    names, base = chain_of(init)
    where = c.loc(fn, init)
    ok_chain = len(names) == 3 and names[0] in CHUNKERS and names[1] == "zip" and names[2] == "collect"
    ctx.check("R04.1", "partition-chain", ok_chain, "batch-partition:" + ".".join(names), where, "inputs.%s" % ".".join(names),
              "batches are built with `%s`; only an order-preserving partition that keeps the remainder (par_chunks/chunks + zip + collect) "
              "gives consecutive groups of B with a smaller last group" % ".".join(names))
    if not ok_chain:
        return
    z = strip(init["recv"])
    lhs = strip(z["recv"])
    rhs = strip(z["args"][0])
    rn, rb = chain_of(rhs)
    same = (e4.local_hid(base) == L.params["inputs"] and len(rn) == 1 and rn[0] == names[0] and e4.local_hid(rb) == L.params["targets"]
            and e4.local_hid(lhs["args"][0]) == L.params["batch"] and e4.local_hid(rhs["args"][0]) == L.params["batch"])
    ctx.check("R04.1", "inputs-and-targets-partitioned-alike", same, "inputs/targets-partitioned-differently", where,
              "inputs.%s(batch) zipped with targets.%s(batch)" % (names[0], names[0]),
              "inputs are split as `%s` but targets as `%s`" % (short(pretty(lhs), 60), short(pretty(rhs), 60)))
    # the batch loop
    bn, bb = chain_of(L.batch_loop["iter"])
    ctx.check("R04.1", "batch-walk", bn in (["iter"], []) and e4.local_hid(bb) == bh, "batch-walk:" + ".".join(bn), c.loc(fn, L.batch_loop),
              "for batch in batches.iter()", "batches are walked as `%s`" % short(pretty(L.batch_loop["iter"]), 80))
    # batches not mutated (sorted, shuffled, truncated) between construction and use
    muts = [x for x in walk(fn["body"]) if x.get("k") == "mcall" and e4.local_hid(x["recv"]) == bh and (c.tya(x["recv"]) or "").startswith("&mut")]
    ctx.check("R04.1", "batches-immutable", not muts, "batches-mutated:" + (muts[0]["name"] if muts else ""), c.loc(fn, muts[0]) if muts else where,
              "`batches` is never mutated")


def is_update(n):
    return n.get("k") == "mcall" and n["callee"] == "network::Network::update"


def r2(ctx, L):
    c = ctx.crate
    fn = L.fn
    ups = [x for x in walk(fn["body"]) if is_update(x)]
    ctx.check("R04.2", "single-update-site", len(ups) == 1, "update-call-sites:%d" % len(ups), c.loc(fn, ups[0]) if ups else c.loc(fn), "one call site of Network::update")
    outs = e4.outcomes(c, L.batch_loop["body"], is_update)
    rng = e4.count_range(outs)
    kinds = sorted({str(k[0]) for (k, _) in outs})
    ctx.check("R04.2", "one-step-per-batch", rng == (1, 1) and kinds == ["fall"], "update-count-per-batch:%s:%s" % (rng, ",".join(kinds)), c.loc(fn, L.batch_loop),
              "exactly one update on every path through a batch iteration",
              "a batch iteration performs between %s optimizer steps (exits: %s)" % (rng, kinds))
    in_closure = [x for x in walk(fn["body"]) if x.get("k") == "closure" and any(is_update(y) for y in walk(x["body"]))]
    ctx.check("R04.2", "update-not-in-closure", not in_closure, "update-inside-closure", c.loc(fn), "update is called sequentially")
    if ups:
        a = ups[0]["args"]
        ctx.check("R04.2", "step-number-is-epoch", e4.local_hid(a[0]) == L.epoch_var, "step-argument:" + short(pretty(a[0]), 40), c.loc(fn, ups[0]),
                  "update(epoch, ..)", "the optimizer step number is `%s`, not the epoch index" % pretty(a[0]))
        acc = [L.blets.get("weight_gradients", (None,))[0], L.blets.get("bias_gradients", (None,))[0]]
        ctx.check("R04.2", "gradient-arguments", [e4.local_hid(a[1]), e4.local_hid(a[2])] == acc and None not in acc, "update-gradient-arguments", c.loc(fn, ups[0]),
                  "update(.., weight_gradients, bias_gradients)")
    # inside Network::update every parameter group takes its step unconditionally: the optimizer calls are guarded by nothing but the
    # presence of a bias (`if let Some(..) = ..bias`) - never by a property of the gradient or of the parameters
    ufn = c.fn("network::Network::update")
    if ufn is not None:
        ocalls = [x for x in walk(ufn["body"]) if x.get("k") == "mcall" and x["callee"] == "optimizer::Optimizer::update"]
        bad_g = []
        for oc in ocalls:
            for it_ in e4.path_conditions(c, ufn["body"], oc) or []:
                cn_ = strip(it_["c"])
                okc = cn_ is not None and cn_.get("k") == "letx" and it_["pol"] and any(y.get("k") == "field" and y["f"] == "bias" for y in walk(cn_["init"]))
                if not okc and it_.get("panics"):
                    okc = True      # the other way out of this condition is a panic (an unwrap written out): no step is skipped silently
                if not okc:
                    bad_g.append(short(pretty(cn_), 60))
        ctx.check("R04.2", "every-group-steps", bool(ocalls) and not bad_g, "optimizer-step-conditional-on:" + ";".join(sorted(set(bad_g)))[:100], c.loc(ufn),
                  "%d optimizer.update call sites, none conditional (except on the presence of a bias)" % len(ocalls),
                  "Network::update skips the optimizer step of a parameter group when %s: stateful optimizers (momentum, Adam moments, decay) must "
                  "take exactly one step per group for every parameter" % sorted(set(bad_g)))
    it = strip(L.epoch["iter"])
    ok = False
    if it.get("k") == "struct" and it["path"] == "std::ops::Range":
        fs = dict((a_, b_) for a_, b_ in it["fs"])
        from .. import arms as _arms
        try:
            N = e1.Norm(c, _arms.fn_level_env(c, fn, upto=L.epoch))        # named bounds (`let end = epochs + 1`) are expanded
        except (ValueError, KeyError):
            N = e1.Norm(c)
        ok = str(N.norm(fs["start"])) == "1" and N.norm(fs["end"]) == Rat.atom("epochs") + 1
    ctx.check("R04.2", "epoch-range", ok, "epoch-range:" + short(pretty(it), 60), c.loc(fn, L.epoch), "for epoch in 1..epochs+1")


# `&self` methods of Vec / slices / Option: reached through a `&mut` place (a helper's `&mut Vec` parameter) they still only read
_READERS = ("is_empty", "len", "iter", "first", "last", "get", "contains", "clone", "to_vec", "as_slice", "as_ref", "capacity", "is_some", "is_none", "windows", "chunks")


def _writes(c, body, hids):
    """names of the constructs under `body` that write to (a place rooted at) one of the locals `hids`: `=` for assignments, `&mut` for explicit
    mutable borrows, the method name for calls that take the local by `&mut self`"""
    def root(n):
        n = strip(n)
        while n is not None and n.get("k") in ("field", "index"):
            n = strip(n["b"])
        return e4.local_hid(n) if n is not None else None
    out = []
    for x in walk(body):
        k = x.get("k")
        if k in ("assign", "assignop") and root(x["l"]) in hids:
            out.append("=")
        elif k == "ref" and x.get("mut") and root(x["x"]) in hids:
            out.append("&mut")
        elif k == "mcall" and root(x["recv"]) in hids and (c.tya(x["recv"]) or "").startswith("&mut") and x["name"] not in _READERS:
            out.append(x["name"])
    return out


def r3(ctx, L):
    c = ctx.crate
    fn = L.fn
    for nm in ("weight_gradients", "bias_gradients", "losses", "results"):
        if nm not in L.blets:
            raise Unestablished("no `let %s` inside the batch loop" % nm, c.loc(fn, L.batch_loop))
    wh, bh_, lh, rh = (L.blets[n][0] for n in ("weight_gradients", "bias_gradients", "losses", "results"))
    # results = batch.into_par_iter().map(closure).collect()
    rs = strip(L.blets["results"][1]["init"])
    names, base = chain_of(rs)
    ctx.check("R04.5", "sample-map-chain", names in (["into_par_iter", "map", "collect"], ["par_iter", "map", "collect"], ["iter", "map", "collect"]) and e4.local_hid(base) == L.batch_var,
              "per-sample-chain:" + ".".join(names), c.loc(fn, rs), "batch.%s" % ".".join(names),
              "per-sample results are produced by `%s`; every sample must be mapped exactly once, in order" % ".".join(names))
    cl = None
    for x in walk(rs):
        if x.get("k") == "closure":
            cl = x
            break
    if cl is None:
        raise Unestablished("no per-sample closure", c.loc(fn, rs))
    seq = [cal for (_, cal) in calls(cl["body"]) if cal in ("network::Network::forward", "objective::Function::loss", "network::Network::backward")]
    ctx.check("R04.3", "per-sample-pipeline", seq == ["network::Network::forward", "objective::Function::loss", "network::Network::backward"],
              "per-sample-pipeline:" + ",".join(s.split("::")[-1] for s in seq), c.loc(fn, cl), "forward -> loss -> backward per sample")
    # the records Network::forward returned are handed to Network::backward as they are: each of backward's record arguments is the binding
    # of the same position of forward's result, and nothing writes to it in between (reversed, swapped, truncated ..)
    fw_let = next((x for x in walk(cl["body"]) if x.get("k") in ("let", "letx") and x.get("init") is not None
                   and (strip(x["init"]) or {}).get("k") == "mcall" and strip(x["init"])["callee"] == "network::Network::forward"), None)
    bw = next((x for x in walk(cl["body"]) if x.get("k") == "mcall" and x["callee"] == "network::Network::backward"), None)
    if fw_let is not None and bw is not None and fw_let["pat"].get("k") == "tuple" and len(fw_let["pat"]["ps"]) == 4 and len(bw["args"]) == 5:
        rec = [(q.get("hid") if q.get("k") == "bind" else None) for q in fw_let["pat"]["ps"]]
        got = [e4.local_hid(a) for a in bw["args"][1:]]
        wr = _writes(c, cl["body"], {h for h in rec if h is not None})
        ctx.check("R04.3", "records-handed-to-backward-unchanged", got == rec and None not in rec and not wr,
                  "forward-records-to-backward:" + ("written:" + wr[0] if wr else ",".join("%d" % i for i in range(4) if got[i] != rec[i])), c.loc(fn, bw),
                  "self.backward(gradient, &preactivated, &activated, &maxpools, feedbacks) with forward's own results",
                  "the per-sample closure hands Network::backward records that are not (or no longer) the ones Network::forward returned")
    else:
        ctx.bad("R04.3", "records-handed-to-backward-unchanged", "forward-records-to-backward:form", c.loc(fn, cl), "let (pre, post, max, fb) = self.forward(input); self.backward(g, &pre, &post, &max, fb)")
    # closure result (wg, bg, loss) matches the accumulation pattern (wg, wb, loss)
    acc_loops = [s for s in L.batch_body if s.get("k") == "for" and e4.local_hid(s["iter"]) == rh]
    if len(acc_loops) != 1:
        ctx.bad("R04.3", "sequential-accumulation", "results-not-consumed-by-one-for-loop", c.loc(fn, L.batch_loop), "")
        return
    al = acc_loops[0]
    pb = pat_binds(al["pat"])
    tail = strip(cl["body"])
    while tail.get("k") == "blk":
        tail = strip(tail["b"]["tail"])
    ok_tuple = tail.get("k") == "tup" and len(tail["xs"]) == 3 and len(pb) == 3
    ctx.check("R04.3", "result-tuple", ok_tuple, "per-sample-result-shape", c.loc(fn, tail), "(wg, bg, loss)")
    if not ok_tuple:
        return
    g_w, g_b, g_l = (h for (_, h) in pb)
    # mutations of the accumulators anywhere in the batch body
    bad = []
    n_add = 0
    for x in walk(L.batch_loop["body"]):
        if x.get("k") == "mcall" and x["callee"] in INPLACE:
            if x["callee"] == T + "add_inplace":
                n_add += 1
            else:
                bad.append(x)
        if x.get("k") == "mcall" and x["callee"].startswith(T) and x["name"] in ("div_scalar_inplace", "hadamard", "mean_inplace", "clamp"):
            if x not in bad:
                bad.append(x)
    ctx.check("R04.3", "accumulate-with-add-only", not bad and n_add == 2, "accumulator-combined-with:" + ",".join(sorted({b["name"] for b in bad})) + ":%d" % n_add,
              c.loc(fn, bad[0]) if bad else c.loc(fn, al), "gradients combined with add_inplace only (weights and biases)",
              "per-sample gradients are combined with %s (add_inplace calls: %d); the step must use the plain sum" % ([b["name"] for b in bad], n_add))
    # the sums are not touched except by the first-result assignment and the zipped add loops (no reordering / trimming before the step)
    wr = [w for w in _writes(c, L.batch_loop["body"], {wh, bh_}) if w not in ("iter_mut", "=")]
    ctx.check("R04.3", "sums-reach-the-step-unchanged", not wr, "accumulators-changed-by:" + ",".join(sorted(set(wr))), c.loc(fn, al),
              "weight_gradients / bias_gradients: assigned from the first result, added to element-wise, handed to update",
              "the summed gradients are changed by %s before the optimizer step" % sorted(set(wr)))
    # assignments to the accumulators: only `= wg` / `= wb` under is_empty()
    asg = [x for x in walk(L.batch_loop["body"]) if x.get("k") == "assign" and e4.local_hid(x["l"]) in (wh, bh_)]
    ok_asg = sorted((e4.local_hid(x["l"]), e4.local_hid(x["r"])) for x in asg) == sorted([(wh, g_w), (bh_, g_b)])
    ctx.check("R04.3", "accumulator-initialised-from-first-result", ok_asg, "accumulator-assignments", c.loc(fn, al), "weight_gradients = wg; bias_gradients = wb on the first result")
    # the add_inplace receivers iterate the accumulators zipped with the new gradients in order
    zips = [x for x in walk(al["body"]) if x.get("k") == "for"]
    okz = 0
    for z in zips:
        names, base = chain_of(z["iter"])
        zz = strip(z["iter"])
        if names == ["iter_mut", "zip"] and e4.local_hid(base) in (wh, bh_):
            rn, rb = chain_of(zz["args"][0])
            want = g_w if e4.local_hid(base) == wh else g_b
            if rn == ["iter"] and e4.local_hid(rb) == want:
                okz += 1
    ctx.check("R04.3", "aligned-accumulation", okz == 2, "accumulation-not-aligned:%d" % okz, c.loc(fn, al), "acc.iter_mut().zip(new.iter()) for weights and biases")
    # accumulators are fresh per batch
    for nm in ("weight_gradients", "bias_gradients", "losses"):
        init = strip(L.blets[nm][1]["init"])
        ctx.check("R04.3", "fresh-per-batch:" + nm, init.get("k") == "call" and init["callee"].endswith("Vec::<T>::new"), "accumulator-not-fresh:" + nm, c.loc(fn, init), "%s = Vec::new() inside the batch loop" % nm)
    # order: results -> accumulation loop -> update
    idx = {id(s): i for i, s in enumerate(L.batch_body)}
    i_res = idx[id(L.blets["results"][1])]
    i_acc = idx[id(al)]
    i_up = [i for i, s in enumerate(L.batch_body) if any(x.get("k") == "mcall" and x["callee"] == "network::Network::update" for x in walk(s))]
    ctx.check("R04.3", "gradients-before-step", bool(i_up) and i_res < i_acc < i_up[0], "statement-order", c.loc(fn, L.batch_loop), "collect results, then sum, then update")
    # no early exit from the accumulation loop
    # every result contributes exactly once to each accumulator (first-result assignment or the zipped add loop),
    # whichever way control leaves the loop body (falling through or `continue`); no break / return
    okv = True
    for acc_h in (wh, bh_):
        def contributes(n, acc_h=acc_h):
            if n.get("k") == "assign" and e4.local_hid(n["l"]) == acc_h:
                return True
            if n.get("k") == "for":
                nm_, base_ = chain_of(n["iter"])
                return bool(nm_) and nm_[0] == "iter_mut" and e4.local_hid(base_) == acc_h
            return False
        outs = e4.outcomes(c, al["body"], contributes)
        okv = okv and bool(outs) and all(k in (e4.FALL, ("continue", al["loop_id"])) and cnt == 1 for (k, cnt) in outs)
    ctx.check("R04.3", "accumulation-visits-every-result", okv, "accumulation-loop-early-exit", c.loc(fn, al),
              "each result is assigned or added exactly once per accumulator on every path; no break/return in the accumulation loop")
    ctx.check("R04.3", "results-in-order", chain_of(al["iter"])[0] == [], "results-walk:" + ".".join(chain_of(al["iter"])[0]), c.loc(fn, al), "for .. in results")
    # R04.4 one loss per sample
    pushes = lambda n: n.get("k") == "mcall" and n["name"] == "push" and e4.local_hid(n["recv"]) == lh and e4.local_hid(n["args"][0]) == g_l
    o = e4.outcomes(c, al["body"], pushes)
    ctx.check("R04.4", "one-loss-per-sample", e4.count_range(o) == (1, 1), "loss-push-count:%s" % (e4.count_range(o),), c.loc(fn, al), "losses.push(loss) exactly once per sample")
    return lh


def r4(ctx, L, lh):
    c = ctx.crate
    fn = L.fn
    if "loss_epoch" not in L.elets:
        raise Unestablished("no `let loss_epoch` at the top of the epoch loop", c.loc(fn, L.epoch))
    eh, es = L.elets["loss_epoch"]
    ctx.check("R04.4", "loss-reset-per-epoch", e4.lit_value(es["init"]) == "0.0" and L.epoch_body.index(es) < L.epoch_body.index(L.batch_loop),
              "loss_epoch-not-reset", c.loc(fn, es), "let mut loss_epoch = 0.0 at the top of every epoch")

    def hook(N, n):
        if n.get("k") == "mcall" and n["name"] == "sum":
            names, base = chain_of(n["recv"])
            if names == ["iter"] and base.get("k") == "local":
                return Rat.atom("SUM(%s)" % base["name"])
            raise ValueError("sum over %s" % short(pretty(n["recv"]), 40))
        return None
    upd = [x for x in walk(L.batch_loop["body"]) if x.get("k") in ("assign", "assignop") and e4.local_hid(x["l"]) == eh]
    ok = False
    detail = ""
    if len(upd) == 1 and upd[0]["k"] == "assignop" and upd[0]["op"].startswith("Add"):
        env = {}
        for s_ in L.batch_body:
            if s_.get("k") == "let" and s_["pat"].get("k") == "bind" and s_["init"] is not None and (c.types[s_["pat"]["t"]] or "") in ("f32", "usize"):
                try:
                    Ne = e1.Norm(c, env)
                    Ne.reduce_hook = hook
                    env[s_["pat"]["hid"]] = Ne.norm(s_["init"])
                except ValueError:
                    pass
        N = e1.Norm(c, env)
        N.reduce_hook = hook
        try:
            v = N.norm(upd[0]["r"])
            ok = v == Rat.atom("SUM(losses)") / Rat.atom("len(losses)")
            detail = str(v)
        except ValueError as e:
            detail = str(e)
    ctx.check("R04.4", "batch-mean-loss", ok, "loss_epoch-update:" + short(detail, 60), c.loc(fn, upd[0]) if upd else c.loc(fn, L.batch_loop),
              "loss_epoch += sum(losses)/len(losses)", "per batch the epoch loss is updated with `%s`" % detail)
    o = e4.outcomes(c, L.batch_loop["body"], lambda n: n in upd)
    ctx.check("R04.4", "batch-mean-once", e4.count_range(o) == (1, 1), "loss_epoch-update-count:%s" % (e4.count_range(o),), c.loc(fn, L.batch_loop), "once per batch")
    # train_loss.push(loss_epoch / batches.len())
    th = L.lets.get("train_loss", (None,))[0]
    ps = [x for x in walk(L.epoch["body"]) if x.get("k") == "mcall" and x["name"] == "push" and e4.local_hid(x["recv"]) == th]
    ok = False
    detail = ""
    if len(ps) == 1:
        v = e1.Norm(c).norm(ps[0]["args"][0])
        ok = v == Rat.atom("loss_epoch") / Rat.atom("len(batches)")
        detail = str(v)
    ctx.check("R04.4", "epoch-mean-loss", ok, "train-loss-entry:" + short(detail, 60), c.loc(fn, ps[0]) if ps else c.loc(fn, L.epoch), "train_loss.push(loss_epoch / len(batches))",
              "the epoch's training loss is recorded as `%s`" % detail)
    if ps:
        ctx.check("R04.4", "epoch-loss-after-batches", L.epoch_body.index(L.batch_loop) < [i for i, s in enumerate(L.epoch_body) if any(y is ps[0] for y in walk(s))][0],
                  "train-loss-pushed-before-batches", c.loc(fn, ps[0]), "pushed after the batch loop")


def r6(ctx):
    from . import c03
    sub = type(ctx)(ctx.prop, ctx.facts)
    sub.guard("R03.3", "call-sites", c03.r3_callsites, sub)
    # .. and the dispatcher they call performs the step: Optimizer::update hands every variant, unconditionally, to its own update (R03.4's dispatch facts)
    sub2 = type(ctx)(ctx.prop, ctx.facts)
    sub2.guard("R03.4", "dispatch", c03.r4, sub2)
    sub.obligations.extend(o for o in sub2.obligations if o["instance"].startswith("dispatch") or o["status"] == "unestablished")
    bad = [o for o in sub.obligations if o["status"] != "ok"]
    for o in bad:
        ctx.bad("R04.6", o["instance"], o["key"].split("/", 3)[-1], o["where"], o["detail"])
    ctx.check("R04.6", "step-plumbing", not bad and len(sub.obligations) >= 10, "optimizer-step-plumbing-broken", "src/network.rs, src/feedback.rs",
              "Network::update / Feedback::update hand every parameter tensor with its own gradient and its own (layer, filter, bias) slot to the optimizer (%d facts)" % len(sub.obligations))


def sum_primitive(ctx):
    """the per-sample gradients are summed with Tensor::add_inplace: it must be the element-wise sum over every element of every rank
    (C15's R15.1 for add_inplace, re-run under this property)"""
    from . import c15
    sub = type(ctx)(ctx.prop, ctx.facts)
    sub.guard("R15.1", "add_inplace", c15.elementwise, sub, "add_inplace", ("Nested", "NestedOptional"))
    bad = [o for o in sub.obligations if o["status"] != "ok"]
    for o in bad:
        ctx.bad("R04.3", "sum-primitive:" + o["instance"], o["key"].split("/", 3)[-1], o["where"], o["detail"])
    ctx.check("R04.3", "sum-primitive", not bad and len(sub.obligations) >= 4, "gradient-sum-primitive-broken", "src/tensor.rs",
              "%d rank arms of add_inplace add every element of the other tensor" % len(sub.obligations))


RULES["R04.3"] += " | entries-stay-in-place (who-may-permute): over every function of the property's modules, no Vec/slice operation that moves entries to other positions (reverse, swap, rotate, sort .., mem::swap of two entries) outside the table of sites confirmed on the pinned tree (common.PERMUTING_SITES)"


def run(ctx):
    from .common import no_permuting_ops
    ctx.guard("R04.3", "entries-stay-in-place", no_permuting_ops, ctx, "R04.3", "network", {"src/network.rs"}, 20)
    ctx.guard("R04.6", "step-plumbing", r6, ctx)
    L = ctx.guard("R04.1", "learn-structure", parts, ctx)
    if not L:
        return
    ctx.guard("R04.1", "batching", r1, ctx, L)
    ctx.guard("R04.2", "update", r2, ctx, L)
    lh = ctx.guard("R04.3", "accumulation", r3, ctx, L)
    ctx.guard("R04.3", "sum-primitive", sum_primitive, ctx)
    if lh is not None:
        ctx.guard("R04.4", "loss", r4, ctx, L, lh)
    ctx.floor("R04.1", 4, "")
    ctx.floor("R04.2", 6, "")
    ctx.floor("R04.3", 13, "pipeline, records, tuple, add-only, sums untouched, init, alignment, 3 fresh, order, no-exit, in-order")
    ctx.floor("R04.4", 6, "")
    ctx.floor("R04.5", 1, "")
