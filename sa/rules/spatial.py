"""Shared rules for the three spatial layers (convolution, deconvolution, maxpool)."""
from ..core import Unestablished
from ..hir import walk, strip, pretty, short, calls, pat_binds
from .. import e1, e4
from ..e1 import Rat

LAYERS = {"Convolution": "convolution::Convolution", "Deconvolution": "deconvolution::Deconvolution", "Maxpool": "maxpool::Maxpool"}


def single_arm(match):
    for a in match["arms"]:
        vp, binds = e4.arm_variant(a)
        if vp in ("tensor::Shape::Single", "tensor::Data::Single") and len(binds) == 1:
            return a, binds[0]
    return None, None


def flat_acceptance(ctx, rule, lname):
    """create(): the Shape::Single(size) arm accepts only perfect squares and reinterprets as (1, root, root)."""
    c = ctx.crate
    from ..hir import matchified
    fn = matchified(ctx.fn(LAYERS[lname] + "::create"))
    ms = [x for x in walk(fn["body"]) if x.get("k") == "match" and single_arm(x)[0] is not None and "Shape" in e4.arm_variant(single_arm(x)[0])[0]]
    if not ms:
        raise Unestablished("%s::create has no Shape::Single arm" % lname, c.loc(fn))
    arm, (sname, shid) = single_arm(ms[0])
    where = c.loc(fn, arm["body"])
    body = strip(arm["body"])
    b = body["b"] if body.get("k") == "blk" else None
    if b is None:
        raise Unestablished("Single arm is not a block", where)
    env = {shid: Rat.atom("size")}
    root_h = None
    for s in b["stmts"]:
        if s.get("k") == "let" and s["pat"].get("k") == "bind":
            v = e1.Norm(c, env).norm(s["init"])
            env[s["pat"]["hid"]] = v
            if str(v) == "trunc(sqrt(size))":
                root_h = s["pat"]["hid"]
                env[root_h] = Rat.atom("root")
    if root_h is None:
        ctx.bad(rule, lname + ":root", "root-not-floor-sqrt-size", where, "no `root = (size as f32).sqrt() as usize` in the Single arm")
        return
    # the reinterpretation Triple(1, root, root) is reached only when root*root == size (nested if/else or guard clause alike)
    tr = [x for x in walk(arm["body"]) if x.get("k") == "call" and x["callee"] == "tensor::Shape::Triple"]
    if len(tr) != 1:
        raise Unestablished("Single arm builds %d Shape::Triple values" % len(tr), where)
    root, size = Rat.atom("root"), Rat.atom("size")
    sq = e1.cmp_atom("Eq", root * root, size)
    pcs = [it for it in (e4.path_conditions(c, arm["body"], tr[0]) or []) if it["kind"] == "if" or it.get("panics")]
    known = []
    for (a, pol, _) in e4.atoms_of(pcs):
        try:
            v = e1.Norm(c, env).norm(a)
        except ValueError:
            continue
        known.append(str(v) if pol else str(e1.negate_cond(v)))
    ok = sq in known
    ctx.check(rule, lname + ":guard", ok, "guard-does-not-imply-perfect-square:" + ",".join(known)[:60], c.loc(fn, tr[0]),
              "accepts iff root*root == size",
              "%s::create accepts a flat size when `%s`, which does not imply root*root == size (e.g. size 6, root 2): "
              "the layer then reads 1 x root x root and drops the remaining elements" % (lname, " && ".join(known) or "always"))
    # reinterpretation (1, root, root)
    vals = [str(e1.Norm(c, env).norm(z)) for z in tr[0]["args"]]
    okr = vals == ["1", "root", "root"]
    ctx.check(rule, lname + ":reinterpret", okr, "flat-input-not-read-as-1xrxr", c.loc(fn, tr[0]), "Triple(1, root, root)",
              "flat input is reinterpreted as %s" % vals)


def flat_rechunk(ctx, rule, lname):
    """forward(): the Data::Single arm splits the vector with chunks_exact(h*w) then chunks_exact(w), (h, w) from self.inputs."""
    c = ctx.crate
    from ..hir import matchified
    fn = matchified(ctx.fn(LAYERS[lname] + "::forward"))
    ms = [x for x in walk(fn["body"]) if x.get("k") == "match" and single_arm(x)[0] is not None and "Data" in e4.arm_variant(single_arm(x)[0])[0]]
    if not ms:
        raise Unestablished("%s::forward has no Data::Single arm" % lname, c.loc(fn))
    arm, (vname, vhid) = single_arm(ms[0])
    where = c.loc(fn, arm["body"])
    # (h, w) source: a match on self.<field> with Shape::Triple(_, h, w)
    dims = None
    for x in walk(arm["body"]):
        if x.get("k") == "match":
            for a in x["arms"]:
                vp, binds = e4.arm_variant(a)
                if vp == "tensor::Shape::Triple":
                    scr = strip(x["scrut"])
                    pt = a["pat"]
                    while pt.get("k") in ("ref", "deref"):
                        pt = pt["p"]
                    comps = pt["ps"]
                    dims = (pretty(scr), comps, a, x)
    if dims is None:
        raise Unestablished("flat arm does not read a Shape::Triple", where)
    src, comps, a, mm = dims
    ctx.check(rule, lname + ":dims-from-inputs", src == "self.inputs", "flat-dims-taken-from:" + src, c.loc(fn, mm),
              "(h, w) from self.inputs",
              "%s::forward re-chunks a flat input with the height/width of `%s` instead of the layer's input shape: "
              "a flat vector and the same data as CxHxW give different results" % (lname, src))
    # components 1,2 -> h,w
    hb = pat_binds(comps[1]) if len(comps) == 3 else []
    wb = pat_binds(comps[2]) if len(comps) == 3 else []
    if len(hb) != 1 or len(wb) != 1 or comps[0].get("k") != "wild":
        ctx.bad(rule, lname + ":hw-components", "dims-not-components-1-2", c.loc(fn, mm), pretty(mm))
        return
    # follow (h, w) through `let (h, w) = match .. => (*h, *w)`
    env = {}
    outer = [s for s in walk(arm["body"]) if s.get("k") == "let" and s["init"] is not None and strip(s["init"]) is mm]
    arm_val = strip(a["body"])
    if outer and arm_val.get("k") == "tup" and outer[0]["pat"].get("k") == "tuple":
        for q, v in zip(outer[0]["pat"]["ps"], arm_val["xs"]):
            hv = e4.local_hid(v)
            if hv == hb[0][1]:
                env[pat_binds(q)[0][1]] = Rat.atom("H")
            elif hv == wb[0][1]:
                env[pat_binds(q)[0][1]] = Rat.atom("W")
    env[hb[0][1]] = Rat.atom("H")
    env[wb[0][1]] = Rat.atom("W")
    ch = [x for x in walk(arm["body"]) if x.get("k") == "mcall" and x["name"].startswith("chunks")]
    names = [x["name"] for x in ch]
    if len(ch) != 2 or names != ["chunks_exact", "chunks_exact"]:
        ctx.bad(rule, lname + ":chunking", "unexpected-chunking:" + ",".join(names), where, "")
        return
    outer_c = [x for x in ch if e4.local_hid(x["recv"]) == vhid]
    inner_c = [x for x in ch if x not in outer_c]
    if len(outer_c) != 1:
        ctx.bad(rule, lname + ":chunking", "outer-chunks-not-over-input-vector", where, "")
        return
    # immutable scalar temporaries of the arm (`let plane = h * w;`)
    for s_ in walk(arm["body"]):
        if s_.get("k") == "let" and s_["pat"].get("k") == "bind" and s_.get("init") is not None and "Mut)" not in str(s_["pat"].get("mode")) and s_["pat"]["hid"] not in env:
            if (c.types[s_["pat"]["t"]] or "").lstrip("&") == "usize":
                try:
                    env[s_["pat"]["hid"]] = e1.Norm(c, env).norm(s_["init"])
                except ValueError:
                    pass
    N = e1.Norm(c, env)
    o = N.norm(outer_c[0]["args"][0])
    i = N.norm(inner_c[0]["args"][0])
    ctx.check(rule, lname + ":chunk-sizes", o == Rat.atom("H") * Rat.atom("W") and i == Rat.atom("W"),
              "chunk-sizes:%s,%s" % (o, i), where, "chunks_exact(h*w) then chunks_exact(w)",
              "flat input split into chunks of %s then %s; row-major CxHxW needs h*w then w" % (o, i))


def axis_typing(ctx, rule, fns, floor_tagged):
    """R0x.2: no height/width mix-up in the index arithmetic of the given functions (sa/e3.py)."""
    from .. import e3
    c = ctx.crate
    total = 0
    for p in fns:
        fn = ctx.fn(p)
        a = e3.Axes(c, fn).run()
        total += a.tagged
        short_p = p.split("::", 1)[1] if "::" in p else p
        seen = {}
        for n, kind, d in a.conflicts:
            key = "%s:%s" % (kind, pretty(n)[:70])
            if key in seen:
                continue
            seen[key] = 1
            ctx.bad(rule, short_p, kind + ":" + short(pretty(n), 70), c.loc(fn, n),
                    "%s: %s - a height quantity is combined with a width quantity; square inputs hide this, non-square inputs / "
                    "asymmetric stride, padding, dilation or kernels give wrong indices" % (p, d))
        if not a.conflicts:
            ctx.ok(rule, short_p, "%d height/width-typed expressions, no axis conflict" % a.tagged, c.loc(fn))
    ctx.check(rule, "coverage", total >= floor_tagged, "too-few-axis-typed-expressions:%d" % total, "crate",
              "%d axis-typed expressions analysed" % total, "only %d axis-typed expressions found (expected >= %d)" % (total, floor_tagged))
