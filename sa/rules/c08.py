"""C08 - announced layer shapes equal produced shapes; transitions lose nothing."""
from ..core import Unestablished
from ..hir import walk, strip, pretty, short, calls, pat_binds
from .. import e1, e4
from . import spatial

LEVEL = "other"
RULES = {
    "R08.4": "flat-size acceptance: in Convolution/Deconvolution/Maxpool::create the Shape::Single(size) arm computes "
             "root = floor(sqrt(size)) and accepts only under a guard that is (syntactically) root*root == size, and "
             "reinterprets the input as Triple(1, root, root); a non-square flat size is rejected by panic",
}
ASSUMPTIONS = ["(size as f32).sqrt() as usize is exact for sizes below 2^24 (assumption, not decided)"]
TRUSTED = ["rustc nightly front end", "driver/src/main.rs", "sa/e1.py"]


def run(ctx):
    for l in spatial.LAYERS:
        ctx.guard("R08.4", l, spatial.flat_acceptance, ctx, "R08.4", l)
    ctx.floor("R08.4", 6, "guard + reinterpretation in three constructors")
