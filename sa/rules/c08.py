"""C08 - announced layer shapes equal produced shapes; transitions lose nothing."""
from ..core import Unestablished
from ..hir import walk, strip, pretty, short, calls, pat_binds
from .. import e1, e4
from . import spatial

LEVEL = "other"
RULES = {
    "R08.4": "flat-size acceptance: in Convolution/Deconvolution/Maxpool::create the Shape::Single(size) arm computes "
             "root = floor(sqrt(size)) and accepts only under a guard that is (syntactically) root*root == size, and "
             "reinterprets the input as Triple(1, root, root); a non-square flat size is rejected by panic",
}
ASSUMPTIONS = ["(size as f32).sqrt() as usize is exact for sizes below 2^24 (assumption, not decided)"]
TRUSTED = ["rustc nightly front end", "driver/src/main.rs", "sa/e1.py"]


def run(ctx):
    for l in spatial.LAYERS:
        ctx.guard("R08.4", l, spatial.flat_acceptance, ctx, "R08.4", l)
    ctx.floor("R08.4", 6, "guard + reinterpretation in three constructors")


# ---------------------------------------------------------------------------------------------
from .. import mac, e3
from ..mac import Access
from ..e1 import Rat, rewrite
from .common import top_stmts_of, mentions_field

RULES.update({
    "R08.1": "announced = produced (symbolic in all parameters): the per-axis formula of calculate_output_size equals the extent the "
             "forward pass allocates and fills - convolution ((in + 2p - d(k-1) - 1)/s + 1 vs convolve's oh with in := padded extent), "
             "transposed convolution ((in-1)s + k - 2p), max-pool (writes y[c][h/s][w/s], h stepping by s over 0..in-k+1, into a buffer "
             "allocated from self.outputs = (in-k)/s + 1); channels = number of kernels = filters; the substitutions are themselves "
             "checked (forward pads to in + 2p, pad3d returns the requested extent, kernels are created with (ic, k.0, k.1), create "
             "stores the same stride/padding/dilation it announces with)",
    "R08.2": "gradient shapes = parameter shapes: kernel gradients are allocated as filters x channels x kh x kw, input gradients as "
             "the input's extents; dense weights are (outputs x inputs) and dW = delta (x) input; optimizer state is allocated from the "
             "same shapes (set_optimizer / copy_optimizer)",
    "R08.3": "builder chaining: dense/convolution/deconvolution/maxpool/feedback derive the new layer's input shape from the previous "
             "layer's *outputs* (self.input for the first layer) for all five layer variants; dense after a spatial layer sets its "
             "flatten flag and uses channels*height*width of the previous outputs",
    "R08.5": "axis typing of the size formulas and constructors (no height/width mix-up)",
})
RULES["R08.1"] += " | padding-applied-whenever-configured: the pad3d call in Convolution::forward is unconditional or skipped only when both paddings are zero (path condition of the call)"


def _subst(x, table):
    def rule(name, args, atom):
        if name is None and atom in table:
            return table[atom]
        return None
    return rewrite(x, rule)


def _announced(c, fn, tuple3):
    """normalise `height`/`width` of calculate_output_size with canonical parameter atoms"""
    pn = [pat_binds(p)[0] for p in fn["params"]]
    stmts = top_stmts_of(fn["body"])
    env = {}
    canon = {"kernel": "K", "stride": "S", "padding": "P", "dilation": "D"}
    N = e1.Norm(c, env)
    out = {}
    # the announced extents are the last two components of the returned shape (through any temporaries)
    env_l = {}
    via_pattern = False
    for s in stmts:
        # `let (he, wi) = match input { Shape::Triple(_, he, wi) => (he, wi), _ => panic }`: the extents by their pattern position
        i0 = strip(s.get("init")) if s.get("k") == "let" and s.get("init") is not None else None
        if i0 is not None and i0.get("k") == "match" and s["pat"].get("k") == "tuple":
            for a in i0["arms"]:
                vp, binds = e4.arm_variant(a)
                body = strip(a["body"])
                if vp == "tensor::Shape::Triple" and body is not None and body.get("k") == "tup" and len(body["xs"]) == len(s["pat"]["ps"]):
                    pt = a["pat"]
                    while pt.get("k") in ("ref", "deref"):
                        pt = pt["p"]
                    env_a = dict(env_l)
                    for pos, q in enumerate(pt["ps"]):
                        for (_, h) in pat_binds(q):
                            env_a[h] = Rat.atom(("IC", "IH", "IW")[pos])
                    for q, e_ in zip(s["pat"]["ps"], body["xs"]):
                        if pat_binds(q):
                            try:
                                env_l[pat_binds(q)[0][1]] = e1.Norm(c, env_a).norm(e_)
                                via_pattern = True
                            except ValueError:
                                pass
        if s.get("k") == "let" and s["pat"].get("k") == "bind" and s.get("init") is not None:
            try:
                env_l[s["pat"]["hid"]] = e1.Norm(c, env_l).norm(s["init"])
            except ValueError:
                pass
    tail = strip(stmts[-1]) if stmts else None
    comps = []
    if tail is not None and tail.get("k") == "call" and tail["callee"].startswith("tensor::Shape::") and len(tail["args"]) >= 2:
        comps = list(zip(("height", "width"), tail["args"][-2:]))
        if len(tail["args"]) == 3:
            comps.append(("channels", tail["args"][0]))
    elif tail is not None and tail.get("k") == "tup" and len(tail["xs"]) >= 2:
        comps = list(zip(("height", "width"), tail["xs"][-2:]))
    for nm_, node_ in comps:
        if True:
            try:
                v = e1.Norm(c, env_l).norm(node_)
            except ValueError:
                continue
            s = {"pat": {"name": nm_}}
            table = {}
            for a in e1._all_atoms(v):
                base, _, comp = a.rpartition(".")
                if base in canon:
                    table[a] = Rat.atom(canon[base] + comp)
                elif base == "input":
                    idx = int(comp)
                    ax = {0: "IH", 1: "IW"}[idx] if not tuple3 else {0: "IC", 1: "IH", 2: "IW"}[idx]
                    table[a] = Rat.atom(ax)
            out[s["pat"]["name"]] = _subst(v, table)
    # the input tuple must be (he, wi) / (ch, he, wi) from Shape::Triple, in that order
    ok_tuple = False
    for x in walk(fn["body"]):
        if x.get("k") == "match":
            for a in x["arms"]:
                vp, binds = e4.arm_variant(a)
                if vp == "tensor::Shape::Triple":
                    body = strip(a["body"])
                    if body.get("k") == "tup":
                        hs = [e4.local_hid(z) for z in body["xs"]]
                        want = [h for (_, h) in binds]
                        pt = a["pat"]
                        while pt.get("k") in ("ref", "deref"):
                            pt = pt["p"]
                        allb = [pat_binds(q)[0][1] if pat_binds(q) else None for q in pt["ps"]]
                        ok_tuple = hs == (allb if tuple3 else allb[1:])
    return out, (ok_tuple or via_pattern)


def padding_applied(ctx, rule):
    c = ctx.crate
    ffn = ctx.fn("convolution::Convolution::forward")
    fex = mac.extract(c, ffn)
    pads = [x for x in walk(ffn["body"]) if x.get("k") == "call" and x["callee"] == "tensor::pad3d"]
    if len(pads) == 1:
        # the padding must be applied whenever either axis is padded: the call is unconditional, or it is skipped only
        # when both paddings are zero (`if p0 > 0 || p1 > 0 { pad }`)
        pcs = e4.path_conditions(c, ffn["body"], pads[0]) or []
        okc = True
        descr = []
        for it in pcs:
            descr.append(("" if it["pol"] else "!") + short(pretty(it["c"]), 60))
            if not it["pol"]:
                okc = False
                continue
            axes = set()

            def disj(cn):
                cn = strip(cn)
                if cn.get("k") == "bin" and cn["op"] == "Or":
                    disj(cn["l"])
                    disj(cn["r"])
                    return
                try:
                    a_ = str(e1.Norm(c, fex.env).norm(cn))
                except ValueError:
                    return
                for ax in ("0", "1"):
                    if a_ in (e1.cmp_atom("Gt", Rat.atom("self.padding.%s" % ax), 0, integer=True), e1.cmp_atom("Ne", Rat.atom("self.padding.%s" % ax), 0)):
                        axes.add(ax)
            disj(it["c"])
            if axes != {"0", "1"}:
                okc = False
        ctx.check(rule, "Convolution:padding-applied-whenever-configured", okc, "padding-skipped-under:" + ";".join(descr)[:100], c.loc(ffn, pads[0]),
                  "pad3d is unconditional (or skipped only when both paddings are zero)",
                  "the input is padded only under [%s]: for a configuration with padding on one axis the input is not padded, the "
                  "output extent and the windows differ from the announced ones" % "; ".join(descr))
    else:
        ctx.bad(rule, "Convolution:padding-applied-whenever-configured", "pad3d-calls:%d" % len(pads), c.loc(ffn), "expected one pad3d call in Convolution::forward")


def r1(ctx):
    c = ctx.crate
    S = {"self.stride.0": Rat.atom("S0"), "self.stride.1": Rat.atom("S1"), "self.dilation.0": Rat.atom("D0"), "self.dilation.1": Rat.atom("D1"),
         "self.padding.0": Rat.atom("P0"), "self.padding.1": Rat.atom("P1"), "self.kernel.0": Rat.atom("K0"), "self.kernel.1": Rat.atom("K1")}
    IH, IW = Rat.atom("IH"), Rat.atom("IW")
    # ---------------- convolution
    cfn = ctx.fn("convolution::Convolution::calculate_output_size")
    ann, okt = _announced(c, cfn, False)
    ctx.check("R08.1", "Convolution:input-tuple", okt, "input-tuple-not-(he,wi)", c.loc(cfn), "input = (he, wi)")
    ex = mac.extract(c, ctx.fn("convolution::Convolution::convolve"))
    y = [v for h, v in ex.allocs.items() if ex.names[h] == "y"]
    if not y or len(y[0]) != 3:
        raise Unestablished("convolve does not allocate y[f][oh][ow]", "convolution::Convolution::convolve")
    kf, oh, ow = y[0]   # outermost first
    t = dict(S)
    t.update({"len(x[0])": IH + 2 * Rat.atom("P0"), "len(x[0][0])": IW + 2 * Rat.atom("P1"), "len(kernels)": Rat.atom("F"),
              "len(kernels[0][0])": Rat.atom("K0"), "len(kernels[0][0][0])": Rat.atom("K1")})
    ph_, pw_ = _subst(oh, t), _subst(ow, t)
    for nm, a_, p_ in (("height", ann.get("height"), ph_), ("width", ann.get("width"), pw_)):
        ctx.check("R08.1", "Convolution:" + nm, a_ is not None and a_ == p_, "announced-differs-from-produced:%s~%s" % (a_, p_), c.loc(cfn),
                  "announced %s = produced = %s" % (nm, a_),
                  "Convolution announces %s `%s` but convolve allocates and fills `%s` (with the padded input extent in + 2p)" % (nm, a_, p_))
    ctx.check("R08.1", "Convolution:channels", _subst(kf, t) == Rat.atom("F"), "output-channels:" + str(kf), "convolution::Convolution::convolve", "output channels = number of kernels")
    # substitution facts
    ffn = ctx.fn("convolution::Convolution::forward")
    fex = mac.extract(c, ffn)
    pads = [x for x in walk(ffn["body"]) if x.get("k") == "call" and x["callee"] == "tensor::pad3d"]
    okp = False
    if len(pads) == 1:
        from ..hir import resolve as _res, let_table as _lt
        tup = _res(pads[0]["args"][1], _lt(ffn["body"]))      # `pad3d(&x, padded)` with `let padded = (ph, pw)`
        t2 = dict(S)
        for n_ in ("tensor", "x", "input"):
            t2["len(%s[0])" % n_] = IH
            t2["len(%s[0][0])" % n_] = IW
        t2["self.inputs.1"] = IH
        t2["self.inputs.2"] = IW
        vr = [_subst(e1.Norm(c, fex.env).norm(z), t2) for z in tup["xs"]]
        vals = [str(v) for v in vr]
        okp = vr == [IH + 2 * Rat.atom("P0"), IW + 2 * Rat.atom("P1")]
        ctx.check("R08.1", "Convolution:forward-pads-to-in+2p", okp, "padded-extent:" + ",".join(vals), c.loc(ffn, pads[0]), "x = pad3d(x, (ih + 2p0, iw + 2p1))",
                  "forward pads the input to (%s)" % ", ".join(vals))
    padding_applied(ctx, "R08.1")
    conv_calls = [x for x in walk(ffn["body"]) if x.get("k") == "mcall" and x["callee"] == "convolution::Convolution::convolve"]
    okci = False
    if len(conv_calls) == 1 and len(pads) == 1:
        from ..hir import resolve as _res2, let_table as _lt2
        a0 = strip(conv_calls[0]["args"][0])
        r0 = _res2(a0, _lt2(ffn["body"]))
        if r0 is pads[0] or (r0 is not None and r0.get("k") == "call" and r0.get("callee") == "tensor::pad3d"):
            okci = True            # `let padded = pad3d(&x, ..); convolve(&padded, ..)`
        elif a0.get("k") == "local":
            # `x = pad3d(&x, ..); convolve(&x, ..)`: the variable handed over was last assigned the padded tensor
            asg_ = [y for y in walk(ffn["body"]) if (y.get("k") == "assign" and e4.local_hid(y["l"]) == a0["hid"] and strip(y["r"]) is pads[0])
                    or (y.get("k") == "let" and y["pat"].get("k") == "bind" and y["pat"]["hid"] == a0["hid"] and y.get("init") is not None and strip(y["init"]) is pads[0])]
            okci = len(asg_) == 1
    ctx.check("R08.1", "Convolution:convolve-gets-padded-input", okci, "convolve-input", c.loc(ffn), "convolve(&x, ..) with the padded x")
    pex = mac.extract(c, ctx.fn("tensor::pad3d"))
    pa = [v for h, v in pex.allocs.items() if pex.names[h] == "padded"]
    ctx.check("R08.1", "pad3d:returns-requested-extent", bool(pa) and [str(z) for z in pa[0]] == ["len(data)", "into.0", "into.1"], "pad3d-extent:" + str(pa), "tensor::pad3d",
              "pad3d allocates data.len() x into.0 x into.1")
    for lname, lpath in (("Convolution", "convolution::Convolution"), ("Deconvolution", "deconvolution::Deconvolution")):
        cr = ctx.fn(lpath + "::create")
        # kernels: (0..filters).map(|_| Tensor::random(Shape::Triple(ic, kernel.0, kernel.1), ..)).collect()
        lit = [x for x in walk(cr["body"]) if x.get("k") == "struct" and x["path"].endswith(lpath)]
        fs = dict((a_, e_) for a_, e_ in lit[0]["fs"]) if lit else {}
        k = strip(fs.get("kernels")) if fs.get("kernels") is not None else None
        okk = False
        if k is not None and k.get("k") == "mcall" and k["name"] == "collect":
            mp = strip(k["recv"])
            rng = strip(mp["recv"]) if mp.get("k") == "mcall" else None
            if rng is not None and rng.get("k") == "struct" and rng["path"] == "std::ops::Range":
                rf = dict((a_, e_) for a_, e_ in rng["fs"])
                sh = [x for x in walk(mp["args"][0]) if x.get("k") == "call" and x["callee"] == "tensor::Shape::Triple"]
                okk = pretty(strip(rf["end"])) == "filters" and sh and [pretty(strip(z)) for z in sh[0]["args"]] == ["ic", "kernel.0", "kernel.1"]
        if not okk:
            # same fact on the E6 summary: the `kernels` field is a sequence over 0..filters of Tensor::random(Shape::Triple(ic, k.0, k.1), ..),
            # with ic the channel count of the (possibly reinterpreted) input shape - built by map/collect or by a push loop
            from .. import e6
            E_ = e6.Exec(c, cr)
            okE = None
            for p_ in E_.run_fn():
                if p_.exit is not None and p_.exit[0] != "return":
                    continue
                val_ = p_.val if p_.exit is None else p_.exit[1]
                kv = dict(val_[2]).get("kernels") if isinstance(val_, tuple) and val_ and val_[0] == "struct" else None
                es = e6.elementwise_sequence(E_, kv) if kv is not None else None
                good = False
                if es is not None and e6.range_of(es[0]) == (("lit", "0"), ("p", "filters")):
                    r_ = e6.is_call(es[1], "random")
                    sh_ = r_[0] if r_ else None
                    if isinstance(sh_, tuple) and sh_ and sh_[0] in ("var", "call") and sh_[1].endswith("Shape::Triple") and len(sh_[2]) == 3:
                        a0, a1, a2 = sh_[2]
                        kp = ("p", "kernel")
                        # ic: the first component of the Triple the input was matched as (or 1 for a reinterpreted flat input)
                        ic_ok = a0 == ("lit", "1") or (isinstance(a0, tuple) and a0 and a0[0] == "payload" and a0[2] == "tensor::Shape::Triple" and a0[3] == 0) \
                            or (isinstance(a0, tuple) and a0 and a0[0] == "proj")
                        good = ic_ok and e6.strip_upd(a1) == e6.mk_proj(kp, 0) and e6.strip_upd(a2) == e6.mk_proj(kp, 1)
                okE = good if okE is None else (okE and good)
            okk = bool(okE)
        ctx.check("R08.1", lname + ":kernels-created-as-filters-x-(ic,k0,k1)", okk, "kernel-construction", c.loc(cr), "kernels = filters x Triple(ic, kernel.0, kernel.1)")
        same = all(pretty(strip(fs[f])) == f for f in ("stride", "padding") if f in fs) and ("dilation" not in fs or pretty(strip(fs["dilation"])) == "dilation")
        ctx.check("R08.1", lname + ":stores-announced-geometry", same and "stride" in fs, "geometry-fields", c.loc(cr), "stride/padding/dilation fields = the parameters used for the announcement")
        calls_ = [x for x in walk(cr["body"]) if x.get("k") == "call" and x["callee"].endswith("::calculate_output_size")]
        want = ["inputs", "filters", "kernel", "stride", "padding"] + (["dilation"] if lname == "Convolution" else [])
        got = [pretty(strip(z)) for z in calls_[0]["args"]] if calls_ else []
        ctx.check("R08.1", lname + ":announcement-arguments", got == want, "announcement-arguments:" + ",".join(got), c.loc(cr), "calculate_output_size(%s)" % ", ".join(want))
        ctx.check("R08.1", lname + ":outputs-field-is-announcement", pretty(strip(fs.get("outputs"))) == "outputs" if fs.get("outputs") is not None else False, "outputs-field", c.loc(cr), "outputs: outputs")
    # ---------------- deconvolution
    dfn = ctx.fn("deconvolution::Deconvolution::calculate_output_size")
    ann, okt = _announced(c, dfn, True)
    ctx.check("R08.1", "Deconvolution:input-tuple", okt, "input-tuple-not-(ch,he,wi)", c.loc(dfn), "input = (ch, he, wi)")
    dff = ctx.fn("deconvolution::Deconvolution::forward")
    dex = mac.extract(c, dff)
    y = [v for h, v in dex.allocs.items() if dex.names[h] == "y"]
    if not y or len(y[0]) != 3:
        raise Unestablished("Deconvolution::forward does not allocate y[k][oh][ow]", c.loc(dff))
    kf, oh, ow = y[0]
    t = dict(S)
    t.update({"len(x[0])": IH, "len(x[0][0])": IW, "len(kernels)": Rat.atom("F"), "len(kernels[0][0])": Rat.atom("K0"), "len(kernels[0][0][0])": Rat.atom("K1")})
    for nm, a_, p_ in (("height", ann.get("height"), _subst(oh, t)), ("width", ann.get("width"), _subst(ow, t))):
        ctx.check("R08.1", "Deconvolution:" + nm, a_ is not None and a_ == p_, "announced-differs-from-produced:%s~%s" % (a_, p_), c.loc(dfn),
                  "announced %s = produced = %s" % (nm, a_), "Deconvolution announces %s `%s` but forward allocates `%s`" % (nm, a_, p_))
    ctx.check("R08.1", "Deconvolution:channels", _subst(kf, t) == Rat.atom("F"), "output-channels:" + str(kf), c.loc(dff), "output channels = number of kernels")
    # ---------------- maxpool
    mfn = ctx.fn("maxpool::Maxpool::calculate_output_size")
    ann, okt = _announced(c, mfn, True)
    ctx.check("R08.1", "Maxpool:input-tuple", okt, "input-tuple-not-(ch,he,wi)", c.loc(mfn), "input = (ch, he, wi)")
    mff = ctx.fn("maxpool::Maxpool::forward")
    mex = mac.extract(c, mff)
    st = [s for s in mex.stmts if isinstance(s.target, mac.Access) and s.target.name == "y"]
    if len(st) != 1:
        raise Unestablished("Maxpool::forward: expected one store into y", c.loc(mff))
    s = st[0]
    t = dict(S)
    t.update({"len(tensor[0])": IH, "len(tensor[0][0])": IW, "len(x[0])": IH, "len(x[0][0])": IW})
    loops = {l[1]: l for l in s.loops}
    for nm, var, ax, k_, s_ in (("height", 1, IH, Rat.atom("K0"), Rat.atom("S0")), ("width", 2, IW, Rat.atom("K1"), Rat.atom("S1"))):
        l = s.loops[var]
        end = _subst(l[3], t) if l[3] is not None else None
        step = _subst(l[4], t) if l[4] is not None else None
        idx = _subst(s.target.idx[var], t)
        lv = Rat.atom("%s#%d" % (l[1], l[0]))
        ok = end == ax - k_ + 1 and step == s_ and idx == e1.fn_atom("idiv", lv, s_) and ann.get(nm) == e1.fn_atom("idiv", ax - k_, s_) + 1 and str(l[2]) == "0"
        ctx.check("R08.1", "Maxpool:" + nm, ok, "window-walk-differs-from-announced-size:%s:%s:%s" % (end, step, idx), c.loc(mff, s.node),
                  "windows start at 0, s, 2s, .. <= in-k and are stored at start/s: the last index is (in-k)/s = announced %s - 1" % nm,
                  "max-pool %s: loop 0..%s step %s stores at index %s, announced %s" % (nm, end, step, idx, ann.get(nm)))
    ya = [v for h, v in mex.allocs.items() if mex.names[h] == "y"]
    ctx.check("R08.1", "Maxpool:buffer-from-outputs", bool(ya) and [str(z) for z in ya[0]] == ["self.outputs.0", "self.outputs.1", "self.outputs.2"], "maxpool-buffer:" + str(ya), c.loc(mff),
              "y allocated from self.outputs")
    ctx.check("R08.1", "Maxpool:channels", ann.get("channels") == Rat.atom("IC"), "maxpool-channels:" + str(ann.get("channels")), c.loc(mfn), "channels preserved")


def r2(ctx):
    c = ctx.crate
    gex = mac.extract(c, ctx.fn("convolution::Convolution::convolve_gradients"))
    # the buffer the kernel gradient is accumulated into (whatever it is called): the 4-D target of the stores
    tg = {s_.target.hid for s_ in gex.stmts if isinstance(s_.target, Access) and len(s_.target.idx) == 4}
    ya = [v for h, v in gex.allocs.items() if h in tg] if len(tg) == 1 else []
    ctx.check("R08.2", "Convolution:kernel-gradient-shape", bool(ya) and [str(z) for z in ya[0]] == ["len(b)", "len(a)", "kernel.0", "kernel.1"], "kernel-gradient-alloc:" + str(ya),
              "convolution::Convolution::convolve_gradients", "dK allocated as |delta channels| x |input channels| x kernel.0 x kernel.1")
    bfn = ctx.fn("convolution::Convolution::backward")
    call = [x for x in walk(bfn["body"]) if x.get("k") == "mcall" and x["callee"] == "convolution::Convolution::convolve_gradients"]
    okc = False
    if call:
        from ..hir import resolve as _rs8, let_table as _lt8
        kk = strip(_rs8(call[0]["args"][2], _lt8(bfn["body"])))      # `&(kh, kw)` or a named pair
        while kk is not None and kk.get("k") == "ref":
            kk = strip(kk["x"])
        kk = strip(_rs8(kk, _lt8(bfn["body"])))
        bex = mac.extract(c, bfn)
        vals = [str(e1.Norm(c, bex.env).norm(z)) for z in kk["xs"]] if kk.get("k") == "tup" else []
        okc = vals == ["self.kernels[0].shape.1", "self.kernels[0].shape.2"]
    ctx.check("R08.2", "Convolution:kernel-extent-from-kernels", okc, "kernel-extent-argument", c.loc(bfn), "(kh, kw) from self.kernels[0].shape")
    dex = mac.extract(c, ctx.fn("deconvolution::Deconvolution::backward"))
    al = {dex.names[h]: [str(z) for z in v] for h, v in dex.allocs.items()}
    ctx.check("R08.2", "Deconvolution:kernel-gradient-shape", al.get("kgradient") == ["len(kernels)", "len(kernels[0])", "len(kernels[0][0])", "len(kernels[0][0][0])"],
              "kernel-gradient-alloc:" + str(al.get("kgradient")), "deconvolution::Deconvolution::backward", "dK allocated with the kernels' own extents")
    ctx.check("R08.2", "Deconvolution:input-gradient-shape", al.get("igradient") == ["len(kernels[0])", "len(input[0])", "len(input[0][0])"],
              "input-gradient-alloc:" + str(al.get("igradient")), "deconvolution::Deconvolution::backward", "dX allocated as channels x ih x iw")
    mex = mac.extract(c, ctx.fn("maxpool::Maxpool::backward"))
    al = {mex.names[h]: [str(z) for z in v] for h, v in mex.allocs.items()}
    ctx.check("R08.2", "Maxpool:input-gradient-shape", al.get("igradient") == ["self.inputs.0", "self.inputs.1", "self.inputs.2"], "input-gradient-alloc:" + str(al.get("igradient")),
              "maxpool::Maxpool::backward", "dX allocated from self.inputs")
    dfn = ctx.fn("dense::Dense::create")
    lit = [x for x in walk(dfn["body"]) if x.get("k") == "struct" and x["path"].endswith("dense::Dense")]
    w = pretty(strip(dict((a_, e_) for a_, e_ in lit[0]["fs"])["weights"])) if lit else ""
    okw = "tensor::Shape::Double(output, input)" in w
    if not okw:
        # E6: on the path where inputs and outputs are both Shape::Single, weights = random(Double(outputs.0, inputs.0), ..)
        from .. import e6
        E_ = e6.Exec(c, dfn)
        IN_, OUT_ = ("p", "inputs"), ("p", "outputs")
        res_ = []
        for p_ in E_.run_fn():
            if p_.exit is not None and p_.exit[0] != "return":
                continue
            val_ = p_.val if p_.exit is None else p_.exit[1]
            f_ = dict(val_[2]) if isinstance(val_, tuple) and val_ and val_[0] == "struct" else {}
            r_ = e6.is_call(f_.get("weights"), "random")
            sh_ = r_[0] if r_ else None
            good = (isinstance(sh_, tuple) and sh_ and sh_[1].endswith("Shape::Double") and len(sh_[2]) == 2
                    and e6.strip_upd(sh_[2][0]) == ("payload", OUT_, "tensor::Shape::Single", 0) and e6.strip_upd(sh_[2][1]) == ("payload", IN_, "tensor::Shape::Single", 0))
            res_.append(good)
        okw = bool(res_) and all(res_)
    ctx.check("R08.2", "Dense:weights-outputs-x-inputs", okw, "dense-weight-shape:" + short(w, 80), c.loc(dfn), "weights: Double(output, input)")
    # optimizer state placeholders, decided on E6 summaries: in the reverse walk over the layers a dense layer contributes a zero
    # Double(output x input) (+ a Single(output) slot) with (output, input) the extents of its own weights, a (de)convolution contributes
    # kernels.len() copies of a zero Triple(ch x kh x kw) with the extents of its own first kernel
    from .. import e6
    for fpath in ("network::Network::set_optimizer", "feedback::Feedback::copy_optimizer"):
        fn = ctx.fn(fpath)
        short_n = fpath.split("::")[1]
        E = e6.Exec(c, fn)
        E.run_fn()
        walks = [(lid, S_) for lid, S_ in E.loop_summaries.items() if S_.get("kind") == "for"
                 and any(e6.find_terms(tuple(p_.eff), lambda t: t[0] == "call" and t[1] in ("tensor::Tensor::double", "tensor::Tensor::triple")) for p_ in S_["paths"])]
        if len(walks) != 1:
            raise Unestablished("%s: expected one walk over the layers building the state placeholders, found %d" % (fpath, len(walks)), c.loc(fn))
        lid, S_ = walks[0]
        it = S_["iter"]
        sw = e6.seq_walk(it, lid, ("field", ("p", "self"), "layers"))
        el = e6.walk_element(S_["paths"], sw["rev"]) if sw and sw["rev"] else None
        ctx.check("R08.2", "%s:reverse-order" % short_n, el is not None, "state-order:" + short(e6.show(it, 2), 50), c.loc(fn),
                  "state allocated in reverse layer order (matches the update walk)")
        if el is None:
            continue
        for kind, pty in (("Dense", "dense::Dense"), ("Convolution", "convolution::Convolution"), ("Deconvolution", "deconvolution::Deconvolution")):
            vp = "network::Layer::" + kind
            mine = [p_ for p_ in S_["paths"] if p_.exit is None and e6.variant_of(p_).get(el) == vp]
            pay = ("payload", el, vp, 0)
            ok = bool(mine)
            why = ""
            for p_ in mine:
                pushes = [e_ for e_ in p_.eff if e_[0] == "push"]
                if len(pushes) != 1:
                    ok, why = False, "%d pushes" % len(pushes)
                    continue
                V = pushes[0][2]
                if kind == "Dense":
                    dbl = e6.find_terms(V, lambda t: t[0] == "call" and t[1] == "tensor::Tensor::double")
                    sgl = e6.find_terms(V, lambda t: t[0] == "call" and t[1] == "tensor::Tensor::single")
                    shp = ("field", ("field", pay, "weights"), "shape")
                    O_, I_ = ("payload", shp, "tensor::Shape::Double", 0), ("payload", shp, "tensor::Shape::Double", 1)
                    cn = e6.const_nest(E, dbl[0][2][0]) if len(dbl) == 1 else None
                    good = cn is not None and [e6.strip_upd(x_) for x_ in cn[0]] == [O_, I_] and cn[1] == ("lit", "0.0")
                    cs = [e6.const_nest(E, t_[2][0]) for t_ in sgl]
                    good = good and bool(sgl) and all(c_ is None or c_[0] in ([O_], [("lit", "0")]) for c_ in cs)
                    if not good:
                        ok, why = False, "dense state %s" % e6.show(V, 3)[:100]
                else:
                    tri = e6.find_terms(V, lambda t: t[0] == "call" and t[1] == "tensor::Tensor::triple")
                    shp = ("field", ("idx", ("field", pay, "kernels"), ("lit", "0")), "shape")
                    dims = [("payload", shp, "tensor::Shape::Triple", i_) for i_ in range(3)]
                    cn = e6.const_nest(E, tri[0][2][0]) if len(tri) >= 1 else None
                    outer = e6.is_call(V, "from_elem", 2)
                    cnt_ok = outer is not None and outer[1] == ("call", "std::vec::Vec::<T, A>::len", (("field", pay, "kernels"),))
                    if not cnt_ok:
                        es = e6.elementwise_sequence(E, V)
                        cnt_ok = es is not None and (e6.range_of(es[0]) == (("lit", "0"), ("call", "std::vec::Vec::<T, A>::len", (("field", pay, "kernels"),))) or es[0] == ("field", pay, "kernels"))
                    good = cn is not None and [e6.strip_upd(x_) for x_ in cn[0]] == dims and cn[1] == ("lit", "0.0") and cnt_ok
                    if not good:
                        ok, why = False, "kernel state %s" % e6.show(V, 3)[:100]
            ctx.check("R08.2", "%s:%s-state-shape" % (short_n, kind), ok, ("dense-state-allocation" if kind == "Dense" else "kernel-state-allocation"), c.loc(fn),
                      "state placeholders have the parameter's own extents", why)


def _strip_upd(t):
    """drop `upd` wrappers (a value after an unrelated in-place change of one of its fields) for structural comparison"""
    if isinstance(t, tuple):
        if t and t[0] == "upd":
            return _strip_upd(t[1])
        return tuple(_strip_upd(x) for x in t)
    return t


def r3(ctx):
    """builder chaining, decided on E6 summaries: on every non-panicking path of Network::{dense,convolution,deconvolution,maxpool}
    the `inputs` argument of the created layer is self.input when there is no layer yet, otherwise the *outputs* of the last layer
    (field or Layer::outputs() accessor); a dense layer after a 3-D producer takes Single(ch*he*wi) and sets that layer's flatten flag."""
    from .. import e6
    c = ctx.crate
    variants = [v["name"] for v in c.adts["network::Layer"]["variants"]]
    payload_ty = {v["name"]: v["fields"][0]["ty"] for v in c.adts["network::Layer"]["variants"]}
    # the accessor itself
    acc = c.fn("network::Layer::outputs")
    acc_ok = False
    if acc is not None:
        Ea = e6.Exec(c, acc)
        pa = [p for p in Ea.run_fn() if p.exit is None or p.exit[0] == "return"]
        acc_ok = bool(pa)
        for p in pa:
            vs = e6.variant_of(p)
            val = p.val if p.exit is None else p.exit[1]
            if len(vs) != 1 or val != ("field", ("payload", ("p", "self"), list(vs.values())[0], 0), "outputs"):
                acc_ok = False
    for b, created in (("dense", "dense::Dense"), ("convolution", "convolution::Convolution"), ("deconvolution", "deconvolution::Deconvolution"),
                       ("maxpool", "maxpool::Maxpool"), ("feedback", None)):
        fn = ctx.fn("network::Network::" + b)
        E = e6.Exec(c, fn)
        paths = [p for p in E.run_fn() if p.exit is None or p.exit[0] == "return"]
        seen = {}
        first_ok = None
        chain_seen = []
        for p in paths:
            # the shape handed to the created layer(s)
            if created is not None:
                cr = e6.find_terms(tuple(p.eff), lambda t: t[0] == "call" and t[1] == created + "::create")
                if len(cr) != 1:
                    seen.setdefault("?", []).append("no single %s::create on a path" % created)
                    continue
                inputs = _strip_upd(cr[0][2][0])
            else:
                # feedback: the shape variable read by the creates inside the loop over the layer descriptions, at loop entry
                inputs = None
                for e in p.eff:
                    if e[0] == "loop" and E.loop_summaries[e[1]].get("kind") == "for":
                        names = set()
                        for bp in E.loop_summaries[e[1]]["paths"]:
                            for t in e6.find_terms(tuple(bp.eff), lambda t: t[0] == "call" and t[1].endswith("::create")):
                                a0 = t[2][0]
                                if isinstance(a0, tuple) and a0 and a0[0] == "loopin":
                                    names.add(a0[1])
                        if len(names) == 1:
                            nm = list(names)[0]
                            for v_ in p.env.values():
                                if isinstance(v_, tuple) and len(v_) == 4 and v_[0] == "loopout" and v_[1] == nm and v_[2] == e[1]:
                                    inputs = _strip_upd(v_[3])
                if inputs is None:
                    seen.setdefault("?", []).append("cannot locate the shape flowing into the block")
                    continue
                # inside the block: after each created layer the running shape becomes THAT layer's outputs
                for e in p.eff:
                    if not (e[0] == "loop" and E.loop_summaries[e[1]].get("kind") == "for"):
                        continue
                    for bp in E.loop_summaries[e[1]]["paths"]:
                        crs = e6.find_terms(tuple(x for x in bp.eff if x[0] == "push"), lambda t: t[0] == "call" and t[1].endswith("::create"))
                        if not crs or bp.exit is not None:
                            continue
                        sets = [x for x in bp.eff if x[0] == "set" and x[1] == ("local", nm)]
                        good = len(crs) == 1 and len(sets) == 1
                        if good:
                            v_ = _strip_upd(sets[0][2])
                            cr_ = _strip_upd(crs[0])
                            wrapped = [t for t in e6.find_terms(tuple(x for x in bp.eff if x[0] == "push"), lambda t: t[0] == "call" and t[1].startswith("network::Layer::") and len(t[2]) == 1 and _strip_upd(t[2][0]) == cr_)]
                            good = v_ == ("field", cr_, "outputs") or (acc_ok and any(v_ == ("call", "network::Layer::outputs", (_strip_upd(w_),)) for w_ in wrapped))
                        kind_ = crs[0][1].split("::")[-2]
                        if (kind_, good) in chain_seen:
                            continue
                        chain_seen.append((kind_, good))
                        ctx.check("R08.3", "feedback:in-block-chaining:%s" % crs[0][1].split("::")[-2], good, "in-block-chaining:" + short(e6.show(sets[0][2], 2) if sets else "-", 60),
                                  c.loc(fn, E.loop_summaries[e[1]]["node"]), "inside a block the next layer's inputs are the previous created layer's outputs",
                                  "Network::feedback: after creating %s the running shape becomes %s" % (crs[0][1], e6.show(sets[0][2], 3)[:160] if sets else "(unchanged)"))
            # which situation is this path about?
            lastv = [(t, pol) for (t, pol) in p.pc if isinstance(t, tuple) and t[0] == "is" and t[2].startswith("network::Layer::") and pol]
            if not lastv:
                empty = any((e6.is_call(t, "is_empty", 1) is not None and pol) or (isinstance(t, tuple) and t[0] == "is" and t[2] == "Option::None" and pol)
                            or (isinstance(t, tuple) and t[0] == "is" and t[2] == "Option::Some" and not pol) for (t, pol) in p.pc)
                if empty:
                    ok1 = inputs == ("field", ("p", "self"), "input")
                    first_ok = ok1 if first_ok is None else (first_ok and ok1)
                    continue
                # no variant test at all: the previous layer is read through the accessor
                prev = [t for t in e6.find_terms(inputs, lambda t: t[0] == "call" and t[1] == "network::Layer::outputs")]
                if prev and inputs == prev[0] and acc_ok:
                    for v in variants:
                        seen.setdefault(v, []).append(None)
                    continue
                seen.setdefault("?", []).append("a path neither tests for an empty network nor looks at the last layer: inputs = %s" % e6.show(inputs, 2)[:80])
                continue
            T, vp = _strip_upd(lastv[-1][0][1]), lastv[-1][0][2]
            kind = vp.split("::")[-1]
            pay = ("payload", T, vp, 0)
            outs = ("field", pay, "outputs")
            why = None
            if inputs == outs or inputs == ("call", "network::Layer::outputs", (T,)):
                pass
            else:
                sg = inputs if isinstance(inputs, tuple) and inputs and inputs[0] == "var" and inputs[1] == "tensor::Shape::Single" else None
                if sg is None and isinstance(inputs, tuple) and inputs and inputs[0] == "call" and inputs[1] == "tensor::Shape::Single":
                    sg = ("var", inputs[1], inputs[2])
                prod_ok = False
                if sg is not None and b == "dense":
                    comps = [("payload", outs, "tensor::Shape::Triple", i_) for i_ in range(3)]
                    want = e6.mk_bin("Mul", e6.mk_bin("Mul", comps[0], comps[1]), comps[2])
                    alts = {repr(e6.mk_bin("Mul", e6.mk_bin("Mul", comps[a_], comps[b_]), comps[c_])) for (a_, b_, c_) in ((0, 1, 2), (0, 2, 1), (1, 2, 0))}
                    alts |= {repr(e6.mk_bin("Mul", comps[a_], e6.mk_bin("Mul", comps[b_], comps[c_]))) for (a_, b_, c_) in ((0, 1, 2), (1, 0, 2), (2, 0, 1))}
                    prod_ok = repr(_strip_upd(sg[2][0])) in alts
                    fl = [e for e in p.eff if e[0] == "set" and isinstance(e[1], tuple) and e[1][0] == "field" and e[1][2] == "flatten" and e[2] == ("lit", "true")]
                    if not (prod_ok and len(fl) == 1):
                        why = "dense after %s: inputs = %s, flatten flag set %d time(s)" % (kind, e6.show(inputs, 2)[:80], len(fl))
                else:
                    why = "inputs = %s" % e6.show(inputs, 2)[:100]
            seen.setdefault(kind, []).append(why)
        for v in variants:
            res = seen.get(v)
            inst = "%s:%s" % (b, v)
            if not res:
                ctx.bad("R08.3", inst, "variant-not-handled", c.loc(fn), "no non-panicking path of Network::%s follows a %s layer" % (b, v))
                continue
            bad = [w for w in res if w]
            ctx.check("R08.3", inst, not bad, "chained-from:" + short("; ".join(bad), 80), c.loc(fn), "next inputs from previous %s outputs" % v,
                      "Network::%s after a %s layer: %s; the new layer's input shape must be the previous layer's outputs" % (b, v, "; ".join(bad)))
        for w in seen.get("?", []):
            ctx.bad("R08.3", b + ":paths", "unclassified-path", c.loc(fn), w)
        ctx.check("R08.3", b + ":first-layer", first_ok is True, "first-layer-input", c.loc(fn), "first layer takes self.input")
    ctx.floor("R08.3", 25 + 5 + 4 + 1, "5 builders x 5 variants + 5 first-layer facts + 4 in-block chaining facts + layer positions fixed")


SIZE_FNS = ["convolution::Convolution::calculate_output_size", "deconvolution::Deconvolution::calculate_output_size", "maxpool::Maxpool::calculate_output_size",
            "convolution::Convolution::create", "deconvolution::Deconvolution::create", "maxpool::Maxpool::create", "convolution::Convolution::convolve",
            "deconvolution::Deconvolution::forward", "maxpool::Maxpool::forward", "tensor::Tensor::triple", "tensor::Tensor::quadruple", "tensor::Tensor::flatten",
            "tensor::Tensor::reshape", "tensor::Tensor::get_triple"]

_old_run = run


def r6_helpers(ctx):
    """flat <-> CxHxW transitions lose nothing: the reshaping helpers are row-major with the announced extents (C14's R14.2 re-run)"""
    from . import c14
    sub = type(ctx)(ctx.prop, ctx.facts)
    sub.guard("R14.2", "flatten", c14.r2_flatten, sub)
    sub.guard("R14.3", "constructors", c14.r3_constructors, sub)      # gradient tensors are built with Tensor::{triple,quadruple}: shape = nesting
    sub.guard("R14.1", "reshape", c14.r1_r2_reshape, sub)             # flat <-> spatial transitions through skip / loop connections go through Tensor::reshape
    bad = [o for o in sub.obligations if o["status"] != "ok"]
    for o in bad:
        ctx.bad("R08.6", "helper:" + o["instance"], o["key"].split("/", 3)[-1], o["where"], o["detail"])
    ctx.check("R08.6", "reshaping-helpers", not bad and len(sub.obligations) >= 4, "reshaping-helper-broken", "src/tensor.rs",
              "flatten / get_flat / get_triple are row-major (%d facts)" % len(sub.obligations))


def r6_flatten_on_dense(ctx):
    """a spatial output feeding a dense layer is flattened: every spatial layer's forward returns `post.flatten()` exactly on the paths where its
    `flatten` flag is set, and the pre-activation record is never flattened (C02's R02.5 flatten-flag facts re-run under this property)"""
    from . import c02
    sub = type(ctx)(ctx.prop, ctx.facts)
    sub.guard("R02.5", "composition", c02.r5, sub)
    mine = [o for o in sub.obligations if o["instance"].startswith("flatten-flag:") or o["status"] == "unestablished"]
    bad = [o for o in mine if o["status"] != "ok"]
    for o in bad:
        ctx.bad("R08.6", "flatten-on-dense:" + o["instance"], o["key"].split("/", 3)[-1], o["where"], o["detail"])
    ctx.check("R08.6", "flatten-on-dense", not bad and len(mine) >= 3, "flatten-on-dense-broken", "src", "%d spatial layer kinds return post.flatten() iff self.flatten" % len(mine))


RULES["R08.3"] += " | layer-positions-fixed: over every function of the crate, Network.layers is only appended to (push) and its entries updated in place - never reordered, dropped, replaced or handed out as a whole by &mut (the chain of announced shapes holds for the list as it was built)"
RULES["R08.6"] = "flat <-> CxHxW transitions: Tensor::flatten / get_flat / get_triple are row-major over (channels, rows, columns); the tensor constructors record the extents of the nesting they are given, in order (R14.2 / R14.3 re-run under this property)"


def run(ctx):
    ctx.guard("R08.6", "reshaping-helpers", r6_helpers, ctx)
    ctx.guard("R08.6", "flatten-on-dense", r6_flatten_on_dense, ctx)
    # a flat vector feeding a spatial layer is read as 1 x r x r with r taken from the layer's own *inputs* (the re-chunking facts of R02.3)
    for l_ in spatial.LAYERS:
        ctx.guard("R08.6", "flat-input:" + l_, spatial.flat_rechunk, ctx, "R08.6", l_)
    _old_run(ctx)
    ctx.guard("R08.1", "announced-vs-produced", r1, ctx)
    ctx.guard("R08.2", "gradient-shapes", r2, ctx)
    ctx.guard("R08.3", "builder-chaining", r3, ctx)
    from .c10 import layer_list_stable
    ctx.guard("R08.3", "layer-positions", layer_list_stable, ctx, "R08.3", "network::Network")
    ctx.guard("R08.5", "axis-typing", spatial.axis_typing, ctx, "R08.5", SIZE_FNS, 88)  # measured 177
    ctx.floor("R08.1", 24, "sizes, channels, substitution facts")
    ctx.floor("R08.2", 12, "")
