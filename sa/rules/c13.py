"""C13 - early stopping and the returned histories obey their contract."""
from ..core import Unestablished
from ..hir import walk, strip, pretty, short, calls, pat_binds, children
from .. import e1, e4
from ..e1 import Rat
from .common import top_stmts_of, mentions_local
from .learn import parts, chain_of

LEVEL = "other"
RULES = {
    "R13.1": "history lengths (path counting): in one iteration of the epoch loop train_loss.push occurs exactly once on every path, "
             "including paths that leave through `break`; val_loss.push and val_acc.push occur together, exactly once, inside "
             "`if let Some(..) = validation` and nowhere else; no pushes outside the epoch loop; the three vectors are returned in the "
             "order (train, validation loss, validation accuracy); learn has no `return` inside the loop",
    "R13.2": "stopping is guarded: the only exit from the epoch loop lies under `Some(threshold)` (set iff validation data is given) and "
             "`epoch > threshold` and `increasing`, and is evaluated after this epoch's pushes",
    "R13.3": "window form: the window is the last `threshold` validation losses (iter().rev().take(threshold)); `increasing` starts true "
             "and is cleared iff some adjacent pair over 0..threshold-1 satisfies newer <= older (strictness)",
}
ASSUMPTIONS = ["the early-stopping predicate over concrete loss trajectories is not evaluated; only its form is compared with the contract"]
TRUSTED = ["rustc nightly front end", "driver/src/main.rs", "sa/e4.py path enumeration", "sa/e1.py"]


def is_push(h):
    return lambda n: n.get("k") == "mcall" and n["name"] == "push" and e4.local_hid(n["recv"]) == h


def r1(ctx, L):
    c = ctx.crate
    fn = L.fn
    hs = {}
    for nm in ("train_loss", "val_loss", "val_acc"):
        if nm not in L.lets:
            raise Unestablished("no `let %s`" % nm, c.loc(fn))
        hs[nm] = L.lets[nm][0]
        init = strip(L.lets[nm][1]["init"])
        ctx.check("R13.1", "starts-empty:" + nm, init.get("k") == "call" and init["callee"].endswith("Vec::<T>::new"), "history-not-empty-initially:" + nm, c.loc(fn, init), "%s = Vec::new()" % nm)
    outs = e4.outcomes(c, L.epoch["body"], is_push(hs["train_loss"]))
    bad = sorted({"%s:%d" % (k[0], cnt) for (k, cnt) in outs if cnt != 1})
    ctx.check("R13.1", "train-loss-once-per-epoch", not bad and bool(outs), "train-loss-push-count:" + ",".join(bad), c.loc(fn, L.epoch),
              "train_loss.push exactly once on every path through an epoch (exits: %s)" % sorted({k[0] for (k, _) in outs}),
              "paths through one epoch push the training loss a different number of times than once: %s" % bad)
    # validation pushes: inside `if let Some(..) = validation`, each exactly once there, none elsewhere
    vifs = [s for s in L.epoch_body if s.get("k") == "if" and strip(s["c"]).get("k") == "letx" and e4.local_hid(strip(s["c"])["init"]) == L.params["validation"]]
    okv = len(vifs) == 1
    if okv:
        vi = vifs[0]
        pat = pretty({"k": "blk", "b": {"k": "block", "stmts": [], "tail": None}})  # noqa
        for nm in ("val_loss", "val_acc"):
            o = e4.outcomes(c, vi["th"], is_push(hs[nm]))
            inside = e4.count_range(o) == (1, 1) and all(k == e4.FALL for (k, _) in o)
            total = [x for x in walk(fn["body"]) if is_push(hs[nm])(x)]
            within = [x for x in walk(vi["th"]) if is_push(hs[nm])(x)]
            ctx.check("R13.1", "validation-push:" + nm, inside and len(total) == len(within) == 1 and vi["el"] is None, "validation-history-push:%s:%s" % (nm, e4.count_range(o)), c.loc(fn, vi),
                      "%s.push exactly once, only under `if let Some(..) = validation`" % nm,
                      "%s is pushed %d time(s) in learn, %d of them under the validation guard (per guarded path: %s)" % (nm, len(total), len(within), e4.count_range(o)))
        pt = strip(vi["c"])["pat"]
        ctx.check("R13.1", "validation-guard-is-some", e4.arm_variant({"pat": pt})[0].endswith("Some"), "validation-guard-pattern", c.loc(fn, vi), "if let Some(..) = validation")
    else:
        ctx.bad("R13.1", "validation-push:val_loss", "no-single-validation-block", c.loc(fn, L.epoch), "expected one `if let Some(..) = validation` block in the epoch loop")
    # pushes outside the epoch loop
    for nm, h in hs.items():
        allp = [x for x in walk(fn["body"]) if is_push(h)(x)]
        inloop = [x for x in walk(L.epoch["body"]) if is_push(h)(x)]
        ctx.check("R13.1", "no-push-outside-epochs:" + nm, len(allp) == len(inloop), "history-pushed-outside-epoch-loop:" + nm, c.loc(fn), "")
        others = [x for x in walk(fn["body"]) if x.get("k") == "mcall" and e4.local_hid(x["recv"]) == h and (c.tya(x["recv"]) or "").startswith("&mut") and x["name"] != "push"]
        ctx.check("R13.1", "only-pushed:" + nm, not others, "history-mutated-by:" + ",".join(o["name"] for o in others), c.loc(fn, others[0]) if others else c.loc(fn), "only push() mutates %s" % nm)
    tail = strip(L.stmts[-1])
    ok = tail.get("k") == "tup" and [e4.local_hid(x) for x in tail["xs"]] == [hs["train_loss"], hs["val_loss"], hs["val_acc"]]
    ctx.check("R13.1", "returned-in-order", ok, "return-value:" + short(pretty(tail), 60), c.loc(fn, tail), "(train_loss, val_loss, val_acc)")
    rets = [x for x in walk(fn["body"], into_closures=False) if x.get("k") == "ret"]
    ctx.check("R13.1", "single-exit", not rets, "return-inside-learn", c.loc(fn, rets[0]) if rets else c.loc(fn), "learn returns only at its end")
    return hs


def enclosing_conditions(root, target):
    """list of (cond node, branch 'th'|'el') of the `if`s enclosing target (outermost first)"""
    path = []

    def rec(n):
        if n is target:
            return True
        k = n.get("k")
        if k == "if":
            if rec(n["c"]):
                return True
            path.append((n, "th"))
            if rec(n["th"]):
                return True
            path.pop()
            if n["el"] is not None:
                path.append((n, "el"))
                if rec(n["el"]):
                    return True
                path.pop()
            return False
        for ch in children(n):
            if rec(ch):
                return True
        return False
    return path if rec(root) else None


def _is_epoch_gt_threshold(c, cn, epoch_h, th_h):
    """canonical integer comparison: the condition is equivalent to epoch > threshold"""
    N = e1.Norm(c, {epoch_h: Rat.atom("epoch"), th_h: Rat.atom("threshold")})
    try:
        return str(N.norm(cn)) == e1.cmp_atom("Gt", Rat.atom("epoch"), Rat.atom("threshold"), integer=True)
    except ValueError:
        return False


def r2_r3(ctx, L, hs):
    c = ctx.crate
    fn = L.fn
    exits = [x for x in walk(L.epoch["body"], into_closures=False) if (x.get("k") == "break" and x["label"] == L.epoch["loop_id"]) or x.get("k") == "ret"]
    if "threshold" not in L.lets:
        raise Unestablished("no `let threshold`", c.loc(fn))
    th_outer = L.lets["threshold"][0]
    ctx.check("R13.2", "threshold-starts-none", pretty(strip(L.lets["threshold"][1]["init"])).endswith("None"), "threshold-initial-value", c.loc(fn), "threshold = None")
    asg = [x for x in walk(fn["body"]) if x.get("k") == "assign" and e4.local_hid(x["l"]) == th_outer]
    ok = len(asg) == 1
    if ok:
        conds = enclosing_conditions(fn["body"], asg[0])
        ok = bool(conds) and strip(conds[-1][0]["c"]).get("k") == "letx" and e4.local_hid(strip(conds[-1][0]["c"])["init"]) == L.params["validation"] and conds[-1][1] == "th"
        lim = pat_binds(strip(conds[-1][0]["c"])["pat"]) if ok else []
        r = strip(asg[0]["r"])
        ok = ok and r.get("k") == "call" and r["callee"].endswith("Some") and lim and e4.local_hid(r["args"][0]) == lim[-1][1]
    ctx.check("R13.2", "threshold-set-iff-validation", ok, "threshold-assignment", c.loc(fn, asg[0]) if asg else c.loc(fn), "threshold = Some(limit) only under `if let Some((_, _, limit)) = validation`")
    ctx.check("R13.2", "single-stop-site", len(exits) == 1, "epoch-loop-exits:%d" % len(exits), c.loc(fn, exits[0]) if exits else c.loc(fn, L.epoch), "one `break` out of the epoch loop")
    if not exits:
        return
    ex = exits[0]
    conds = enclosing_conditions(L.epoch["body"], ex)
    descr = []
    have = {"some-threshold": False, "epoch-gt-threshold": False, "increasing": False}
    th_inner = None
    inc_h = None
    gt_if = None
    for (ifn, br) in conds or []:
        cn = strip(ifn["c"])
        if cn.get("k") == "letx" and e4.local_hid(cn["init"]) == th_outer and br == "th" and e4.arm_variant({"pat": cn["pat"]})[0].endswith("Some"):
            have["some-threshold"] = True
            th_inner = pat_binds(cn["pat"])[0][1]
        elif cn.get("k") == "bin" and cn["op"] in ("Gt", "Ge", "Lt", "Le") and th_inner is not None and br == "th" and _is_epoch_gt_threshold(c, cn, L.epoch_var, th_inner):
            have["epoch-gt-threshold"] = True
            gt_if = ifn
        elif cn.get("k") == "local" and cn["name"] == "increasing" and br == "th":
            have["increasing"] = True
            inc_h = cn["hid"]
        descr.append("%s[%s]" % (short(pretty(cn), 40), br))
    for k, v in have.items():
        ctx.check("R13.2", "stop-guard:" + k, v, "stop-not-guarded-by:" + k, c.loc(fn, ex), "break under %s" % k,
                  "the epoch loop is left under [%s]; the contract requires Some(threshold) && epoch > threshold && increasing" % "; ".join(descr))
    extra = [d for d in descr if not any(t in d for t in ("threshold", "increasing"))]
    n_unrelated = len(conds or []) - sum(1 for v in have.values() if v)
    inner = None
    for (ifn, br) in conds or []:
        cn = strip(ifn["c"])
        if cn.get("k") == "local" and cn["name"] == "increasing":
            inner = ifn
    must = False
    if inner is not None:
        o = e4.outcomes(c, inner["th"], lambda n: False)
        must = bool(o) and all(k == ("break", L.epoch["loop_id"]) for (k, _) in o)
    ctx.check("R13.2", "stop-is-unconditional-once-detected", n_unrelated == 0 and must, "stop-depends-on-unrelated-condition:" + ";".join(descr)[:120], c.loc(fn, ex),
              "once the window is increasing the loop is always left",
              "the `break` is additionally guarded (enclosing conditions: %s) or not reached on every path of `if increasing {..}`: training can "
              "continue past the first epoch at which the stopping condition holds" % "; ".join(descr))
    # the stop decision itself must be reached in every epoch: no `continue`/exit on a path before it
    outer_if = conds[0][0] if conds else None
    if outer_if is not None:
        o2 = e4.outcomes(c, L.epoch["body"], lambda n: n is outer_if)
        skipped = sorted({str(k[0]) for (k, cnt) in o2 if cnt == 0})
        ctx.check("R13.2", "stop-check-reached-every-epoch", not skipped, "stop-check-skipped-on:" + ",".join(skipped), c.loc(fn, outer_if),
                  "every path through an epoch evaluates the stopping condition",
                  "some paths through an epoch (ending in %s) never evaluate the stopping condition: training can run past the epoch at which it holds" % skipped)
    # evaluated after this epoch's pushes
    top = None
    for i, s in enumerate(L.epoch_body):
        if any(y is ex for y in walk(s)):
            top = i
    push_idx = [i for i, s in enumerate(L.epoch_body) if any(is_push(hs["train_loss"])(y) or is_push(hs["val_loss"])(y) for y in walk(s))]
    ctx.check("R13.2", "decided-after-recording", top is not None and push_idx and top > max(push_idx), "stop-decided-before-recording", c.loc(fn, ex), "the stop decision follows this epoch's pushes")
    if inc_h is None or th_inner is None:
        return
    # R13.3 window
    blk = gt_if["th"] if gt_if is not None else None
    if blk is None:
        return
    st = top_stmts_of(blk)
    lets = {s["pat"]["name"]: s for s in st if s.get("k") == "let" and s["pat"].get("k") == "bind"}
    hist = lets.get("history")
    okw = False
    if hist:
        names, base = chain_of(hist["init"])
        tk = [x for x in walk(hist["init"]) if x.get("k") == "mcall" and x["name"] == "take"]
        okw = names == ["iter", "rev", "take", "collect"] and e4.local_hid(base) == hs["val_loss"] and tk and e4.local_hid(strip(tk[0]["args"][0])["x"] if strip(tk[0]["args"][0]).get("k") == "cast" else tk[0]["args"][0]) == th_inner
    ctx.check("R13.3", "window-is-last-threshold-losses", okw, "window:" + (short(pretty(hist["init"]), 70) if hist else "?"), c.loc(fn, hist["init"]) if hist else c.loc(fn), "val_loss.iter().rev().take(threshold)")
    inc = lets.get("increasing")
    ctx.check("R13.3", "increasing-starts-true", inc is not None and e4.lit_value(inc["init"]) == "true", "increasing-initial-value", c.loc(fn), "increasing = true")
    loops = [s for s in st if s.get("k") == "for"]
    okl = False
    got = "?"
    if len(loops) == 1 and hist:
        lp = loops[0]
        it = strip(lp["iter"])
        iv = pat_binds(lp["pat"])[0]
        if it.get("k") == "struct" and it["path"] == "std::ops::Range":
            fs = dict((a, b) for a, b in it["fs"])
            N = e1.Norm(c, {th_inner: Rat.atom("T")})
            rng_ok = str(N.norm(fs["start"])) == "0" and N.norm(fs["end"]) == Rat.atom("T") - 1
            ifs = [x for x in walk(lp["body"]) if x.get("k") == "if"]
            if len(ifs) == 1:
                cn = strip(ifs[0]["c"])
                N2 = e1.Norm(c, {iv[1]: Rat.atom("i")})
                hh = hist["pat"]["hid"]
                def idx_of(n):
                    n = strip(n)
                    if n.get("k") == "index" and e4.local_hid(n["b"]) == hh:
                        return N2.norm(n["i"])
                    return None
                li, ri = idx_of(cn.get("l", {})) if cn.get("k") == "bin" else None, idx_of(cn.get("r", {})) if cn.get("k") == "bin" else None
                cmp_ok = cn.get("k") == "bin" and cn["op"] == "Le" and li == Rat.atom("i") and ri == Rat.atom("i") + 1
                asg2 = [x for x in walk(ifs[0]["th"]) if x.get("k") == "assign" and e4.local_hid(x["l"]) == inc["pat"]["hid"] and e4.lit_value(x["r"]) == "false"]
                other_asg = [x for x in walk(blk) if x.get("k") == "assign" and e4.local_hid(x["l"]) == inc["pat"]["hid"] and x not in asg2]
                okl = rng_ok and cmp_ok and len(asg2) == 1 and not other_asg and ifs[0]["el"] is None
                got = "range 0..%s, test %s" % (N.norm(fs["end"]), short(pretty(cn), 50))
    ctx.check("R13.3", "adjacent-pairs-strictly-increasing", okl, "window-test:" + short(got, 80), c.loc(fn, loops[0]) if loops else c.loc(fn),
              "for i in 0..threshold-1: history[i] <= history[i+1] clears `increasing` (history is newest first)",
              "the window test is `%s`; the contract is: stop iff every newer loss is strictly greater than the next older one over the last `threshold` losses" % got)


def run(ctx):
    L = ctx.guard("R13.1", "learn-structure", parts, ctx)
    if not L:
        return
    hs = ctx.guard("R13.1", "histories", r1, ctx, L)
    if hs:
        ctx.guard("R13.2", "stopping", r2_r3, ctx, L, hs)
    ctx.floor("R13.1", 14, "")
    ctx.floor("R13.2", 9, "")
    ctx.floor("R13.3", 3, "")
