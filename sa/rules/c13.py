"""C13 - early stopping and the returned histories obey their contract."""
from ..core import Unestablished
from ..hir import walk, strip, pretty, short, calls, pat_binds, children
from .. import e1, e4
from ..e1 import Rat
from .common import top_stmts_of, mentions_local
from .learn import parts, chain_of

LEVEL = "other"
RULES = {
    "R13.1": "history lengths (path counting): in one iteration of the epoch loop train_loss.push occurs exactly once on every path, "
             "including paths that leave through `break`; val_loss.push and val_acc.push occur together, exactly once, inside "
             "`if let Some(..) = validation` and nowhere else; no pushes outside the epoch loop; the three vectors are returned in the "
             "order (train, validation loss, validation accuracy); learn has no `return` inside the loop",
    "R13.2": "stopping is guarded: the only exit from the epoch loop lies under `Some(threshold)` (set iff validation data is given) and "
             "`epoch > threshold` and `increasing`, and is evaluated after this epoch's pushes",
    "R13.3": "window form: the window is the last `threshold` validation losses (iter().rev().take(threshold)); `increasing` starts true "
             "and is cleared iff some adjacent pair over 0..threshold-1 satisfies newer <= older (strictness)",
}
RULES["R13.3"] += " | the window flag is either `true` cleared by the loop over 0..T-1 on history[i] <= history[i+1], or the conjunction (0..T-1).all(|k| history[k] > history[k+1]); immutable aliases of the threshold (casts, lets) denote T"
RULES["R13.2"] += " | stated on path conditions (enclosing branches and earlier diverging guard clauses): the break is reached exactly under Some(threshold), epoch > threshold (canonical integer comparison, also in negated guard-clause form) and the window flag; nothing unrelated on the way; once the flag holds the loop is always left; the first stop-check statement is evaluated on every path through an epoch"
ASSUMPTIONS = ["the early-stopping predicate over concrete loss trajectories is not evaluated; only its form is compared with the contract"]
TRUSTED = ["rustc nightly front end", "driver/src/main.rs", "sa/e4.py path enumeration", "sa/e1.py"]


def is_push(h):
    return lambda n: n.get("k") == "mcall" and n["name"] == "push" and e4.local_hid(n["recv"]) == h


def r1(ctx, L):
    c = ctx.crate
    fn = L.fn
    hs = {}
    for nm in ("train_loss", "val_loss", "val_acc"):
        if nm not in L.lets:
            raise Unestablished("no `let %s`" % nm, c.loc(fn))
        hs[nm] = L.lets[nm][0]
        init = strip(L.lets[nm][1]["init"])
        ctx.check("R13.1", "starts-empty:" + nm, init.get("k") == "call" and init["callee"].endswith("Vec::<T>::new"), "history-not-empty-initially:" + nm, c.loc(fn, init), "%s = Vec::new()" % nm)
    outs = e4.outcomes(c, L.epoch["body"], is_push(hs["train_loss"]))
    bad = sorted({"%s:%d" % (k[0], cnt) for (k, cnt) in outs if cnt != 1})
    ctx.check("R13.1", "train-loss-once-per-epoch", not bad and bool(outs), "train-loss-push-count:" + ",".join(bad), c.loc(fn, L.epoch),
              "train_loss.push exactly once on every path through an epoch (exits: %s)" % sorted({k[0] for (k, _) in outs}),
              "paths through one epoch push the training loss a different number of times than once: %s" % bad)
    # validation pushes: inside `if let Some(..) = validation`, each exactly once there, none elsewhere
    vifs = [s for s in L.epoch_body if s.get("k") == "if" and strip(s["c"]).get("k") == "letx" and e4.local_hid(strip(s["c"])["init"]) == L.params["validation"]]
    okv = len(vifs) == 1
    if okv:
        vi = vifs[0]
        pat = pretty({"k": "blk", "b": {"k": "block", "stmts": [], "tail": None}})  # noqa
        for nm in ("val_loss", "val_acc"):
            o = e4.outcomes(c, vi["th"], is_push(hs[nm]))
            inside = e4.count_range(o) == (1, 1) and all(k == e4.FALL for (k, _) in o)
            total = [x for x in walk(fn["body"]) if is_push(hs[nm])(x)]
            within = [x for x in walk(vi["th"]) if is_push(hs[nm])(x)]
            ctx.check("R13.1", "validation-push:" + nm, inside and len(total) == len(within) == 1 and vi["el"] is None, "validation-history-push:%s:%s" % (nm, e4.count_range(o)), c.loc(fn, vi),
                      "%s.push exactly once, only under `if let Some(..) = validation`" % nm,
                      "%s is pushed %d time(s) in learn, %d of them under the validation guard (per guarded path: %s)" % (nm, len(total), len(within), e4.count_range(o)))
        pt = strip(vi["c"])["pat"]
        ctx.check("R13.1", "validation-guard-is-some", e4.arm_variant({"pat": pt})[0].endswith("Some"), "validation-guard-pattern", c.loc(fn, vi), "if let Some(..) = validation")
    else:
        ctx.bad("R13.1", "validation-push:val_loss", "no-single-validation-block", c.loc(fn, L.epoch), "expected one `if let Some(..) = validation` block in the epoch loop")
    # pushes outside the epoch loop
    for nm, h in hs.items():
        allp = [x for x in walk(fn["body"]) if is_push(h)(x)]
        inloop = [x for x in walk(L.epoch["body"]) if is_push(h)(x)]
        ctx.check("R13.1", "no-push-outside-epochs:" + nm, len(allp) == len(inloop), "history-pushed-outside-epoch-loop:" + nm, c.loc(fn), "")
        others = [x for x in walk(fn["body"]) if x.get("k") == "mcall" and e4.local_hid(x["recv"]) == h and (c.tya(x["recv"]) or "").startswith("&mut") and x["name"] != "push"]
        ctx.check("R13.1", "only-pushed:" + nm, not others, "history-mutated-by:" + ",".join(o["name"] for o in others), c.loc(fn, others[0]) if others else c.loc(fn), "only push() mutates %s" % nm)
    tail = strip(L.stmts[-1])
    ok = tail.get("k") == "tup" and [e4.local_hid(x) for x in tail["xs"]] == [hs["train_loss"], hs["val_loss"], hs["val_acc"]]
    ctx.check("R13.1", "returned-in-order", ok, "return-value:" + short(pretty(tail), 60), c.loc(fn, tail), "(train_loss, val_loss, val_acc)")
    rets = [x for x in walk(fn["body"], into_closures=False) if x.get("k") == "ret"]
    ctx.check("R13.1", "single-exit", not rets, "return-inside-learn", c.loc(fn, rets[0]) if rets else c.loc(fn), "learn returns only at its end")
    return hs


def enclosing_conditions(root, target):
    """list of (cond node, branch 'th'|'el') of the `if`s enclosing target (outermost first)"""
    path = []

    def rec(n):
        if n is target:
            return True
        k = n.get("k")
        if k == "if":
            if rec(n["c"]):
                return True
            path.append((n, "th"))
            if rec(n["th"]):
                return True
            path.pop()
            if n["el"] is not None:
                path.append((n, "el"))
                if rec(n["el"]):
                    return True
                path.pop()
            return False
        for ch in children(n):
            if rec(ch):
                return True
        return False
    return path if rec(root) else None


def _is_epoch_gt_threshold(c, cn, epoch_h, th_h, start=1):
    """canonical integer comparison: the condition is equivalent to (number of epochs run so far) > threshold, where the number of
    epochs run is the loop variable when the loop counts from 1 and variable + 1 - start in general"""
    N = e1.Norm(c, {epoch_h: Rat.atom("epoch"), th_h: Rat.atom("threshold")})
    try:
        return str(N.norm(cn)) == e1.cmp_atom("Gt", Rat.atom("epoch") + (1 - start), Rat.atom("threshold"), integer=True)
    except ValueError:
        return False


def _epoch_start(c, L):
    it_ = strip(L.epoch["iter"])
    try:
        if it_.get("k") == "struct" and it_["path"] == "std::ops::Range":
            v = str(e1.Norm(c).norm(dict((a_, b_) for a_, b_ in it_["fs"])["start"]))
        elif it_.get("k") == "call" and "RangeInclusive" in str(it_.get("callee")) and it_.get("args"):
            v = str(e1.Norm(c).norm(it_["args"][0]))
        else:
            return None
        return int(v)
    except (ValueError, KeyError):
        return None


def r2_r3(ctx, L, hs):
    c = ctx.crate
    fn = L.fn
    exits = [x for x in walk(L.epoch["body"], into_closures=False) if (x.get("k") == "break" and x["label"] == L.epoch["loop_id"]) or x.get("k") == "ret"]
    if "threshold" not in L.lets:
        raise Unestablished("no `let threshold`", c.loc(fn))
    th_outer = L.lets["threshold"][0]
    th_init = strip(L.lets["threshold"][1]["init"])
    via_map = False
    if th_init.get("k") == "mcall" and th_init["name"] == "map" and e4.local_hid(th_init["recv"]) == L.params["validation"] and len(th_init["args"]) == 1:
        # `let threshold = validation.map(|(_, _, limit)| limit)`: Some(limit) iff validation is given
        cl_ = strip(th_init["args"][0])
        if cl_.get("k") == "closure" and len(cl_["params"]) == 1:
            pb_ = pat_binds(cl_["params"][0])
            bd_ = strip(cl_["body"])
            pt_ = cl_["params"][0]
            while pt_.get("k") in ("ref", "deref"):
                pt_ = pt_["p"]
            via_map = (pt_.get("k") == "tuple" and len(pt_["ps"]) == 3 and len(pb_) == 1 and pat_binds(pt_["ps"][2]) == pb_ and e4.local_hid(bd_) == pb_[0][1]
                       and not [x for x in walk(fn["body"]) if x.get("k") in ("assign", "assignop") and e4.local_hid(x["l"]) == th_outer])
    if th_init.get("k") == "match" and e4.local_hid(th_init["scrut"]) == L.params["validation"] and len(th_init["arms"]) == 2:
        # `match validation { Some((_, _, limit)) => Some(limit), None => None }` (also what `validation.map(..)` desugars to)
        okm_ = 0
        for a_ in th_init["arms"]:
            vp_ = e4.arm_variant(a_)[0]
            bd_ = strip(a_["body"])
            while bd_ is not None and bd_.get("k") == "blk" and not bd_["b"]["stmts"] and bd_["b"]["tail"] is not None:
                bd_ = strip(bd_["b"]["tail"])
            if vp_.endswith("Some"):
                pt_ = a_["pat"]["ps"][0] if a_["pat"].get("ps") else None
                while pt_ is not None and pt_.get("k") in ("ref", "deref"):
                    pt_ = pt_["p"]
                pb_ = pat_binds(a_["pat"])
                if (pt_ is not None and pt_.get("k") == "tuple" and len(pt_["ps"]) == 3 and len(pb_) == 1 and pat_binds(pt_["ps"][2]) == pb_ and bd_.get("k") == "call"
                        and bd_["callee"].endswith("::Some") and e4.local_hid(bd_["args"][0]) == pb_[0][1] and a_.get("guard") is None):
                    okm_ += 1
            elif (vp_.endswith("None") or a_["pat"].get("k") == "wild") and bd_ is not None and bd_.get("k") == "path" and bd_["def"].endswith("::None") and a_.get("guard") is None:
                okm_ += 1
        via_map = okm_ == 2 and not [x for x in walk(fn["body"]) if x.get("k") in ("assign", "assignop") and e4.local_hid(x["l"]) == th_outer]
    ctx.check("R13.2", "threshold-starts-none", via_map or pretty(th_init).endswith("None"), "threshold-initial-value", c.loc(fn), "threshold = None (or validation.map(limit))")
    asg = [x for x in walk(fn["body"]) if x.get("k") == "assign" and e4.local_hid(x["l"]) == th_outer]
    ok = len(asg) == 1
    if via_map:
        asg = []
        ctx.ok("R13.2", "threshold-set-iff-validation", "threshold = validation.map(|(_, _, limit)| limit)", c.loc(fn))
    if ok:
        conds = enclosing_conditions(fn["body"], asg[0])
        ok = bool(conds) and strip(conds[-1][0]["c"]).get("k") == "letx" and e4.local_hid(strip(conds[-1][0]["c"])["init"]) == L.params["validation"] and conds[-1][1] == "th"
        lim = pat_binds(strip(conds[-1][0]["c"])["pat"]) if ok else []
        r = strip(asg[0]["r"])
        ok = ok and r.get("k") == "call" and r["callee"].endswith("Some") and lim and e4.local_hid(r["args"][0]) == lim[-1][1]
    if not via_map:
      ctx.check("R13.2", "threshold-set-iff-validation", ok, "threshold-assignment", c.loc(fn, asg[0]) if asg else c.loc(fn), "threshold = Some(limit) only under `if let Some((_, _, limit)) = validation`")
    ctx.check("R13.2", "single-stop-site", len(exits) == 1, "epoch-loop-exits:%d" % len(exits), c.loc(fn, exits[0]) if exits else c.loc(fn, L.epoch), "one `break` out of the epoch loop")
    if not exits:
        return
    ex = exits[0]
    pcs = e4.path_conditions(c, L.epoch["body"], ex) or []
    descr = []
    have = {"some-threshold": False, "epoch-gt-threshold": False, "increasing": False}
    ep_start = _epoch_start(c, L)
    if ep_start is None:
        ep_start = 10 ** 6      # unknown numbering: no comparison with the loop variable can be shown to count epochs
    th_inner = None
    inc_h = None
    inc_item = None
    matched = 0
    for n_item, item in enumerate(pcs):
        cn = strip(item["c"])
        pol = item["pol"]
        eff = cn if pol else e4.negate(cn)
        if cn.get("k") == "letx" and e4.local_hid(cn["init"]) == th_outer and pol and e4.arm_variant({"pat": cn["pat"]})[0].endswith("Some") and pat_binds(cn["pat"]):
            have["some-threshold"] = True
            th_inner = pat_binds(cn["pat"])[0][1]
            matched += 1
        elif eff is not None and eff.get("k") == "bin" and eff["op"] in ("Gt", "Ge", "Lt", "Le") and th_inner is not None and _is_epoch_gt_threshold(c, eff, L.epoch_var, th_inner, ep_start):
            have["epoch-gt-threshold"] = True
            matched += 1
        elif eff is not None and eff.get("k") == "local" and c.ty(eff) == "bool" and n_item == len(pcs) - 1:
            have["increasing"] = True
            inc_h = eff["hid"]
            inc_item = item
            matched += 1
        descr.append("%s%s[%s]" % ("" if pol else "!", short(pretty(cn), 40), item["kind"]))
    for k, v in have.items():
        ctx.check("R13.2", "stop-guard:" + k, v, "stop-not-guarded-by:" + k, c.loc(fn, ex), "break under %s" % k,
                  "the epoch loop is left under [%s]; the contract requires Some(threshold) && epoch > threshold && increasing" % "; ".join(descr))
    n_unrelated = len(pcs) - matched
    must = False
    if inc_item is not None:
        if inc_item["kind"] == "if":
            br_ = inc_item["node"]["th"] if inc_item["pol"] else inc_item["node"]["el"]
            o = e4.outcomes(c, br_, lambda n: False)
        else:
            # guard clause `if !increasing { continue }`: what follows it in the same block must always leave the loop
            o = set()
            for b_ in walk(L.epoch["body"]):
                if b_.get("k") == "block" and any(strip(s_) is inc_item["node"] or s_ is inc_item["node"] for s_ in b_["stmts"]):
                    ix = [k_ for k_, s_ in enumerate(b_["stmts"]) if strip(s_) is inc_item["node"] or s_ is inc_item["node"]][0]
                    rest = list(b_["stmts"][ix + 1:]) + ([b_["tail"]] if b_["tail"] is not None else [])
                    o = e4.Paths(c, lambda n: False).seq_nodes(rest)
        must = bool(o) and all(k == ("break", L.epoch["loop_id"]) for (k, _) in o)
    ctx.check("R13.2", "stop-is-unconditional-once-detected", n_unrelated == 0 and must, "stop-depends-on-unrelated-condition:" + ";".join(descr)[:120], c.loc(fn, ex),
              "once the window is increasing the loop is always left",
              "the `break` is additionally guarded (conditions on the way: %s) or not reached on every path once `increasing` holds: training can "
              "continue past the first epoch at which the stopping condition holds" % "; ".join(descr))
    # the stop decision itself must be reached in every epoch: no `continue`/exit on a path before it
    first = pcs[0]["node"] if pcs else None
    if first is not None:
        o2 = e4.outcomes(c, L.epoch["body"], lambda n: n is first)
        skipped = sorted({str(k[0]) for (k, cnt) in o2 if cnt == 0})
        ctx.check("R13.2", "stop-check-reached-every-epoch", not skipped, "stop-check-skipped-on:" + ",".join(skipped), c.loc(fn, first),
                  "every path through an epoch evaluates the stopping condition",
                  "some paths through an epoch (ending in %s) never evaluate the stopping condition: training can run past the epoch at which it holds" % skipped)
    # evaluated after this epoch's pushes
    top = None
    for i, s in enumerate(L.epoch_body):
        if first is not None and any(y is first for y in walk(s)):
            top = i
    push_idx = [i for i, s in enumerate(L.epoch_body) if any(is_push(hs["train_loss"])(y) or is_push(hs["val_loss"])(y) for y in walk(s))]
    ctx.check("R13.2", "decided-after-recording", top is not None and push_idx and top > max(push_idx), "stop-decided-before-recording", c.loc(fn, ex), "the stop decision follows this epoch's pushes")
    if inc_h is None or th_inner is None:
        return
    # R13.3 window.  Immutable aliases of the threshold (`let window = threshold as usize`) denote the same number.
    T_alias = {th_inner}
    for _ in range(3):
        for s in walk(L.epoch["body"]):
            if s.get("k") == "let" and s["pat"].get("k") == "bind" and "Mut)" not in str(s["pat"].get("mode")) and s.get("init") is not None:
                i_ = strip(s["init"])
                while i_ is not None and i_.get("k") == "cast":
                    i_ = strip(i_["x"])
                if e4.local_hid(i_) in T_alias:
                    T_alias.add(s["pat"]["hid"])

    def is_T(n):
        n = strip(n)
        while n is not None and n.get("k") == "cast":
            n = strip(n["x"])
        return e4.local_hid(n) in T_alias
    envT = {h: Rat.atom("T") for h in T_alias}
    hist = None
    for s in walk(L.epoch["body"]):
        if s.get("k") == "let" and s["pat"].get("k") == "bind" and s.get("init") is not None:
            names, base = chain_of(s["init"])
            if names == ["iter", "rev", "take", "collect"] and e4.local_hid(base) == hs["val_loss"]:
                hist = s
    okw = False
    if hist:
        tk = [x for x in walk(hist["init"]) if x.get("k") == "mcall" and x["name"] == "take"]
        okw = bool(tk) and is_T(tk[0]["args"][0])
    ctx.check("R13.3", "window-is-last-threshold-losses", okw, "window:" + (short(pretty(hist["init"]), 70) if hist else "?"), c.loc(fn, hist["init"]) if hist else c.loc(fn), "val_loss.iter().rev().take(threshold)")
    inc = None
    inc_block = None
    for b_ in walk(L.epoch["body"]):
        if b_.get("k") == "block":
            for s in b_["stmts"]:
                if s.get("k") == "let" and s["pat"].get("k") == "bind" and s["pat"]["hid"] == inc_h:
                    inc, inc_block = s, b_
    hh = hist["pat"]["hid"] if hist else None

    def pair_test(cn, iv_h):
        """is cn the test `history[i] <= history[i+1]` (returns 'le') or its strict complement (returns 'gt')?"""
        cn = strip(cn)
        neg = False
        while cn is not None and cn.get("k") == "un" and cn["op"] == "Not":
            cn = strip(cn["x"])
            neg = not neg
        if cn is None or cn.get("k") != "bin" or hh is None:
            return None
        N2 = e1.Norm(c, {iv_h: Rat.atom("i")})

        def idx_of(n):
            n = strip(n)
            if n is not None and n.get("k") == "index" and e4.local_hid(n["b"]) == hh:
                return N2.norm(n["i"])
            return None
        li, ri = idx_of(cn["l"]), idx_of(cn["r"])
        op = cn["op"]
        if li == Rat.atom("i") + 1 and ri == Rat.atom("i"):
            li, ri = ri, li
            op = {"Le": "Ge", "Ge": "Le", "Lt": "Gt", "Gt": "Lt"}.get(op, op)
        if not (li == Rat.atom("i") and ri == Rat.atom("i") + 1):
            return None
        if op == "Le":
            return "gt" if neg else "le"
        if op == "Gt":
            return None if neg else "gt"   # !(a > b) is not `a <= b` for NaN; the loop form below requires `<=` itself
        return None

    def range_ok(it):
        it = strip(it)
        if it is None or it.get("k") != "struct" or it["path"] != "std::ops::Range":
            return False, "?"
        fs = dict((a, b) for a, b in it["fs"])
        N = e1.Norm(c, envT)
        from ..hir import resolve as _rs13, let_table as _lt13
        end_ = _rs13(fs["end"], _lt13(fn["body"]))         # a bound named by an immutable `let` is that expression
        return (str(N.norm(fs["start"])) == "0" and N.norm(end_) == Rat.atom("T") - 1), str(N.norm(end_))
    okl = False
    got = "?"
    init_inc = strip(inc["init"]) if inc is not None and inc.get("init") is not None else None
    if init_inc is not None and init_inc.get("k") == "mcall" and init_inc["name"] == "all" and hist:
        # increasing = (0..T-1).all(|k| history[k] > history[k+1])   (or the negated `<=`)
        cl = strip(init_inc["args"][0])
        rok, rtxt = range_ok(init_inc["recv"])
        others = [x for x in walk(L.epoch["body"]) if x.get("k") in ("assign", "assignop") and e4.local_hid(x["l"]) == inc_h]
        if cl is not None and cl.get("k") == "closure" and len(cl["params"]) == 1 and pat_binds(cl["params"][0]):
            bd = strip(cl["body"])
            t_ = pair_test(bd, pat_binds(cl["params"][0])[0][1])
            okl = rok and t_ == "gt" and not others
            got = "range 0..%s, all(%s)" % (rtxt, short(pretty(bd), 50))
        ctx.ok("R13.3", "increasing-starts-true", "`increasing` is the conjunction over the window (all)", c.loc(fn, inc))
    else:
        ctx.check("R13.3", "increasing-starts-true", inc is not None and e4.lit_value(inc["init"]) == "true", "increasing-initial-value", c.loc(fn), "increasing = true")
        loops = [s for s in (inc_block["stmts"] if inc_block else []) if s.get("k") == "for"
                 and any(x.get("k") in ("assign", "assignop") and e4.local_hid(x["l"]) == inc_h for x in walk(s["body"]))]
        if len(loops) == 1 and hist and inc is not None:
            lp = loops[0]
            iv = pat_binds(lp["pat"])[0]
            rok, rtxt = range_ok(lp["iter"])
            ifs = [x for x in walk(lp["body"]) if x.get("k") == "if"]
            if len(ifs) == 1:
                cn = strip(ifs[0]["c"])
                t_ = pair_test(cn, iv[1])
                asg2 = [x for x in walk(ifs[0]["th"]) if x.get("k") == "assign" and e4.local_hid(x["l"]) == inc_h and e4.lit_value(x["r"]) == "false"]
                other_asg = [x for x in walk(L.epoch["body"]) if x.get("k") in ("assign", "assignop") and e4.local_hid(x["l"]) == inc_h and x not in asg2]
                okl = rok and t_ == "le" and len(asg2) == 1 and not other_asg and ifs[0]["el"] is None
                got = "range 0..%s, test %s" % (rtxt, short(pretty(cn), 50))
    ctx.check("R13.3", "adjacent-pairs-strictly-increasing", okl, "window-test:" + short(got, 80), c.loc(fn, inc) if inc is not None else c.loc(fn),
              "for i in 0..threshold-1: history[i] <= history[i+1] clears `increasing` (history is newest first)",
              "the window test is `%s`; the contract is: stop iff every newer loss is strictly greater than the next older one over the last `threshold` losses" % got)


SEM_INSTANCES = ("threshold-starts-none", "threshold-set-iff-validation", "single-stop-site", "stop-guard:some-threshold", "stop-guard:epoch-gt-threshold",
                 "stop-guard:increasing", "stop-is-unconditional-once-detected", "stop-check-reached-every-epoch", "decided-after-recording")
SEM_INSTANCES3 = ("window-is-last-threshold-losses", "increasing-starts-true", "adjacent-pairs-strictly-increasing")


def stop_semantics_e6(ctx):
    """R13.2 / R13.3 decided on the E6 effect summary of Network::learn, whatever the spelling (flag loop, `all`, `windows`, a helper).
    With T the third component of the validation tuple, N the number of epochs run = the number of recorded validation losses after this epoch's push
    (N = epoch - first epoch + 1, by R13.1: one push per epoch, none elsewhere) and
        STOP := validation is Some  and  N - T >= 1  and  for all k in 0..T-1: L[N-1-k] > L[N-2-k]
    every way through one epoch that leaves the epoch loop has STOP among its path facts, every way that stays in the loop has the negation
    of one of its conjuncts, and there is no other exit.  -> {instance: (ok, detail)}"""
    from .. import e6
    c = ctx.crate
    fn = ctx.fn("network::Network::learn")
    E = e6.Exec(c, fn)
    tops = [p for p in E.run_fn() if p.exit is None or p.exit[0] == "return"]
    if not tops:
        raise Unestablished("learn: no returning path", c.loc(fn))
    VAL = ("p", "validation")
    PAY = ("payload", VAL, "Option::Some", 0)
    T = e6.mk_proj(PAY, 2)
    LT = e6.lin(T)
    res = {}

    def note(key, ok, detail=""):
        res.setdefault(key, []).append((bool(ok), detail))

    def ladd(a, b, k=1):
        out = dict(a[0])
        for key, v in b[0].items():
            out[key] = out.get(key, 0) + k * v
            if out[key] == 0:
                del out[key]
        return out, a[1] + k * b[1]

    def unnot(t, pol):
        while isinstance(t, tuple) and t and t[0] == "un" and t[1] == "Not":
            t, pol = t[2], not pol
        return t, pol

    def deref(t):
        while isinstance(t, tuple) and t and ((t[0] == "un" and t[1] == "Deref") or t[0] == "upd" or (t[0] == "call" and t[1].rsplit("::", 1)[-1] in ("clone", "iter", "as_slice", "to_vec", "copied", "cloned") and len(t[2]) == 1)):
            t = t[2] if t[0] == "un" else (t[1] if t[0] == "upd" else t[2][0])
        return t
    n_break = 0
    for P in tops:
        val = P.val if P.exit is None else P.exit[1]
        comps = val[1] if isinstance(val, tuple) and val and val[0] == "tup" else ()
        if len(comps) != 3:
            raise Unestablished("learn does not return its three histories", c.loc(fn))
        TL, VL = e6.root_name(comps[0]), e6.root_name(comps[1])
        vsome = None
        for (t, pol) in P.pc:
            if t == ("is", VAL, "Option::Some"):
                vsome = pol
            elif t == ("is", VAL, "Option::None"):
                vsome = not pol
        ep = [e for e in P.eff if e[0] == "loop" and e6.range_of(e[2]) is not None and any(f[0] == "push" and f[1] == ("local", TL) for x in e[3] for f in x[1])]
        if len(ep) != 1:
            raise Unestablished("learn: epoch loop not found on a path (%d candidates)" % len(ep), c.loc(fn))
        e = ep[0]
        lid = e[1]
        EPOCH = ("elem", e[2], lid)
        start = e6.range_of(e[2])[0]
        BASE = ("loopin", VL, lid)
        if vsome is None:
            raise Unestablished("learn: a path does not decide whether validation data is given", c.loc(fn))

        def nlen(t):
            """(pushes on top of the list at epoch entry) if t is the validation-loss list, else None"""
            k = 0
            t = deref(t)
            while isinstance(t, tuple) and t and t[0] == "pushed":
                t, k = deref(t[1]), k + 1
            return k if t == BASE else None

        def sub_len(t):
            """len(validation losses [+k pushes]) -> (epoch - first epoch) + k"""
            if isinstance(t, tuple) and t:
                if t[0] == "call" and t[1].rsplit("::", 1)[-1] == "len" and len(t[2]) == 1 and nlen(t[2][0]) is not None:
                    return e6.mk_bin("Add", e6.mk_bin("Sub", EPOCH, start), ("lit", str(nlen(t[2][0]))))
                return tuple(sub_len(x) for x in t)
            return t

        def lin13(t):
            return e6.lin(sub_len(t))
        LE = e6.lin(EPOCH)

        def enough(t0):
            """t0 a comparison: -> True (it is D >= 1), False (it is D <= 0), 'other' (another comparison of epoch / length with T), None"""
            if not (isinstance(t0, tuple) and t0 and t0[0] == "bin" and t0[1] in ("Lt", "Le", "Gt", "Ge", "Eq", "Ne")):
                return None
            d = ladd(lin13(t0[2]), lin13(t0[3]), -1)
            tk = list(LT[0].keys())[0]
            ek = list(LE[0].keys())[0]
            if tk not in d[0]:
                return None
            if set(d[0]) != {tk, ek} or d[0][tk] != -d[0][ek] or abs(d[0][tk]) != 1:
                return "other"
            sgn, c0 = d[0][ek], d[1]
            op = t0[1]
            if op in ("Eq", "Ne"):
                return "other"
            if sgn == 1:
                form = {"Lt": ("le", -c0 - 1), "Le": ("le", -c0), "Gt": ("ge", -c0 + 1), "Ge": ("ge", -c0)}[op]
            else:
                form = {"Lt": ("ge", c0 + 1), "Le": ("ge", c0), "Gt": ("le", c0 - 1), "Ge": ("le", c0)}[op]
            # in terms of the number of epochs run so far, N = epoch - first epoch + 1:  D_N = D - first + 1
            ls = e6.lin(start)
            if ls[0]:
                return "other"
            form = (form[0], form[1] - ls[1] + 1)
            if form == ("ge", 1):
                return True
            if form == ("le", 0):
                return False
            return "other"

        def position(t, q):
            """t = an element of (a view of) the validation-loss list -> (pushes, lin position in terms of N (key 'N'), T and the quantified variable q) or None"""
            t = deref(t)
            if not (isinstance(t, tuple) and t and t[0] == "idx"):
                return None
            S, ix = deref(t[1]), t[2]
            li = e6.lin(ix)
            NL = ({"N": 1}, 0)
            # element j of a `windows(S', 2)` item w: S'[w + j]
            if isinstance(S, tuple) and S and S[0] == "elem":
                w = e6.is_call(deref(S[1]), "windows", 2)
                if w and e6.lin(w[1]) == ({}, 2) and q is not None and q[0] == "win" and S[2] == q[1][2]:
                    inner = position(("idx", w[0], e6.mk_bin("Add", ("var13", "q"), ix)), q)
                    return inner
                return None
            col = e6.is_call(S, "collect", 1)
            if col:
                tk_ = e6.is_call(deref(col[0]), "take", 2)
                rv = e6.is_call(deref(tk_[0]), "rev", 1) if tk_ else None
                if rv and nlen(rv[0]) is not None and e6.lin(tk_[1]) == LT:
                    return nlen(rv[0]), ladd(ladd(NL, ({}, 1), -1), li, -1)          # newest first: N - 1 - i
                return None
            if isinstance(S, tuple) and S and S[0] == "idx" and isinstance(S[2], tuple) and S[2][0] == "struct" and S[2][1].endswith("RangeFrom") and nlen(S[1]) is not None:
                st = dict(S[2][2]).get("start")
                ls = e6.lin(sub_N(st, S[1]))
                return nlen(S[1]), ladd(ls, li, 1)
            if nlen(S) is not None:
                return nlen(S), li
            return None

        def sub_N(t, B):
            """len(B) -> the symbol N inside a slice bound"""
            if isinstance(t, tuple) and t:
                if t[0] == "call" and t[1].rsplit("::", 1)[-1] == "len" and len(t[2]) == 1 and deref(t[2][0]) == deref(B):
                    return ("var13", "N")
                return tuple(sub_N(x, B) for x in t)
            return t

        def canon_q(l, qkey):
            out = {}
            qsuffix = ", %r)" % (eval(qkey)[2],) if qkey.startswith("('elem'") else None
            for k_, v in l[0].items():
                if k_ == qkey or (qsuffix is not None and k_.startswith("('elem'") and k_.endswith(qsuffix)):
                    out["q"] = out.get("q", 0) + v
                elif k_ == repr(("var13", "q")):
                    out["q"] = out.get("q", 0) + v
                elif k_ == repr(("var13", "N")):
                    out["N"] = out.get("N", 0) + v
                elif k_ == list(LT[0].keys())[0]:
                    out["T"] = v
                else:
                    out[k_] = v
            return out, l[1]

        def pair_window(X, Y, q, qkey, count):
            """`X > Y` for every value of the quantified variable in 0..count -> 'ok' iff these are exactly the pairs (L[N-1-k], L[N-2-k]), k in 0..T-1,
            of the list after this epoch's push"""
            px, py = position(X, q), position(Y, q)
            if px is None or py is None:
                return "not-the-recorded-losses"
            if px[0] != 1 or py[0] != 1:
                return "window-taken-before-this-epoch-is-recorded" if (px[0] == 0 or py[0] == 0) else "not-the-recorded-losses"
            hx, hy = canon_q(px[1], qkey), canon_q(py[1], qkey)
            cnt = canon_q(count, qkey)
            dq = ({k_: hx[0].get(k_, 0) - hy[0].get(k_, 0) for k_ in set(hx[0]) | set(hy[0]) if hx[0].get(k_, 0) - hy[0].get(k_, 0) != 0}, hx[1] - hy[1])
            if dq != ({}, 1):
                return "pairs-are-not-adjacent-newer-vs-older"
            if cnt != ({"T": 1}, -1):
                return "window-length:%s" % (cnt,)
            s_ = hx[0].get("q", 0)
            rest = ({k_: v for k_, v in hx[0].items() if k_ != "q"}, hx[1])
            if s_ == -1 and rest == ({"N": 1}, -1):
                return "ok"
            if s_ == 1 and rest == ({"N": 1, "T": -1}, 1):
                return "ok"
            return "window-position:%s" % (hx,)

        def gt_pair(t0, pol0):
            """fact `t0 == pol0` as `X > Y` -> (X, Y) or None"""
            if not (isinstance(t0, tuple) and t0 and t0[0] == "bin"):
                return None
            op, a, b = t0[1], t0[2], t0[3]
            if (op == "Gt" and pol0) or (op == "Le" and not pol0):
                return a, b
            if (op == "Lt" and pol0) or (op == "Ge" and not pol0):
                return b, a
            return None

        def window(t0, x):
            """is the path fact t0 the statement `the last T recorded losses are strictly increasing`?  -> 'ok' | reason | None (not a window fact)"""
            pc, eff, ex, v = x
            if isinstance(t0, tuple) and t0 and t0[0] == "loopout" and len(t0) >= 3:
                name, l2 = t0[1], t0[2]
                lp = [f for f in eff if f[0] == "loop" and f[1] == l2]
                if not lp:
                    return None
                lp = lp[0]
                if not any(g[0] == "set" and g[1] == ("local", name) for y in lp[3] for g in y[1]):
                    return None
                init = t0[3] if len(t0) == 4 else None
                if init != ("lit", "true"):
                    return "flag-starts-as:%s" % e6.show(init, 2)[:30]
                rng = e6.range_of(lp[2])
                if rng is None or e6.lin(rng[0]) != ({}, 0):
                    return "flag-loop-range"
                live = [y for y in lp[3] if not (y[2] is not None and y[2][0] == "panic")]
                clear = [y for y in live if any(g[0] == "set" and g[1] == ("local", name) for g in y[1])]
                keep = [y for y in live if y not in clear]
                if len(clear) != 1 or len(keep) != 1 or len(clear[0][0]) != 1 or len(keep[0][0]) != 1 or keep[0][1] or keep[0][2] is not None:
                    return "flag-loop-shape"
                sets = [g for g in clear[0][1] if g[0] == "set" and g[1] == ("local", name)]
                if len(sets) != 1 or sets[0][2] != ("lit", "false") or len(clear[0][1]) != 1:
                    return "flag-loop-shape"
                (ct, cp), (kt, kp) = clear[0][0][0], keep[0][0][0]
                ct, cp = unnot(ct, cp)
                kt, kp = unnot(kt, kp)
                if ct != kt or cp == kp:
                    return "flag-loop-shape"
                g = gt_pair(kt, kp)          # the pair relation under which the flag survives
                if g is None:
                    return "pair-test:%s" % e6.show(kt, 2)[:40]
                qv = ("elem", lp[2], l2)
                return pair_window(g[0], g[1], ("rng", qv), repr(qv), ladd(e6.lin(rng[1]), e6.lin(rng[0]), -1))
            al = e6.is_call(t0, "all", 2)
            inverted = False
            if al is None and e6.is_call(t0, "any", 2) is not None:
                al = e6.is_call(t0, "any", 2)          # any(P) is not all(not P): the fact is read with the opposite truth value (see the caller)
                inverted = True
            if al and isinstance(al[1], tuple) and al[1][0] == "closure":
                cid = "cl%s" % (al[1][1],)
                lp = [f for f in eff if f[0] == "loop" and f[1] == cid]
                if not lp:
                    return None
                live = [y for y in lp[0][3] if not (y[2] is not None and y[2][0] == "panic")]
                if len(live) != 1 or live[0][0] or live[0][1] or live[0][2] is not None:
                    return "all-closure-shape"
                vt, vp = unnot(live[0][3], True)
                if inverted:
                    vp = not vp
                g = gt_pair(vt, vp)
                if g is None:
                    return "pair-test:%s" % e6.show(vt, 2)[:40]
                src = deref(al[0])
                rng = e6.range_of(src)
                qv = ("elem", lp[0][2], cid)
                inv = (lambda r_: ("inverted:" + r_) if (inverted and r_ == "ok") else r_)
                if rng is not None:
                    if e6.lin(rng[0]) != ({}, 0):
                        return "all-range"
                    return inv(pair_window(g[0], g[1], ("rng", qv), repr(qv), ladd(e6.lin(rng[1]), e6.lin(rng[0]), -1)))
                w = e6.is_call(src, "windows", 2)
                if w and e6.lin(w[1]) == ({}, 2):
                    S = deref(w[0])
                    # number of windows of size 2 over S: len(S) - 1
                    if isinstance(S, tuple) and S and S[0] == "idx" and isinstance(S[2], tuple) and S[2][0] == "struct" and S[2][1].endswith("RangeFrom") and nlen(S[1]) is not None:
                        st = dict(S[2][2]).get("start")
                        ls = e6.lin(sub_N(st, S[1]))
                        cnt = ladd(ladd(({repr(("var13", "N")): 1}, 0), ls, -1), ({}, 1), -1)
                    elif nlen(S) is not None:
                        return "window-covers-the-whole-history"
                    else:
                        return "not-the-recorded-losses"
                    return inv(pair_window(g[0], g[1], ("win", qv), repr(qv), cnt))
                return "all-source:%s" % e6.show(src, 2)[:40]
            return None
        for x in e[3]:
            pc, eff, ex, v = x
            if ex is not None and ex[0] == "panic":
                continue
            kind = "fall" if ex is None else ex[0]
            if kind == "break" and ex[1] != lid:
                kind = "other-exit"
            topf = dict(P.pc)
            if any(t in topf and topf[t] != pol for (t, pol) in pc):
                continue          # contradicts what is known on this way into the loop (e.g. `validation is None` inside, `Some` outside)
            A, INC = set(), set()
            wrong = []
            for (t, pol) in pc:
                t0, pol0 = unnot(t, pol)
                r = enough(t0)
                if r is True or r is False:
                    A.add(pol0 if r else (not pol0))
                    continue
                if r == "other":
                    wrong.append("threshold test `%s`" % e6.show(t0, 3)[:70])
                    continue
                w = window(t0, x)
                if w == "ok":
                    INC.add(pol0)
                elif w == "inverted:ok":
                    INC.add(not pol0)
                elif w is not None:
                    wrong.append("window test: " + w)
            if len(A) == 2 or len(INC) == 2:
                continue          # contradictory facts: not a feasible way through the epoch
            a_ = next(iter(A)) if A else None
            i_ = next(iter(INC)) if INC else None
            if not vsome:
                note("no-stop-without-validation", kind in ("fall", "continue"), "without validation data an epoch can end with `%s`" % kind)
                continue
            if kind == "break":
                n_break += 1
                note("guard-A", a_ is True, "the stop is not under `epoch > threshold` (%s)" % ("; ".join(wrong) or "no such test on the path"))
                note("guard-INC", i_ is True, "the stop is not under `the last T recorded losses strictly increasing` (%s)" % ("; ".join(wrong) or "no such test on the path"))
            elif kind in ("fall", "continue"):
                note("unconditional", a_ is False or i_ is False, "an epoch continues although nothing on its path rules out `epoch > threshold and increasing` (%s)" % ("; ".join(wrong) or "-"))
                if wrong:
                    note("wrong-tests", False, "; ".join(wrong))
            else:
                note("single-exit", False, "an epoch ends with `%s`" % kind)
    note("has-stop", n_break > 0, "no path leaves the epoch loop early")
    return res


def _sem_fallback(ctx):
    """when the statement-shape rules for R13.2 / R13.3 object, the same clauses are decided on the E6 summary; if every clause is established
    there, the objections were about spelling"""
    bad = [o for o in ctx.obligations if o["rule"] in ("R13.2", "R13.3") and o["status"] != "ok"]
    if not bad:
        return
    try:
        res = stop_semantics_e6(ctx)
    except Unestablished:
        return
    except Exception:  # noqa: the fallback never makes things worse
        return
    if not res or not all(ok for v in res.values() for (ok, _) in v):
        return
    if not all(k in res for k in ("guard-A", "guard-INC", "unconditional", "has-stop")):
        return
    fn = ctx.fn("network::Network::learn")
    where = ctx.crate.loc(fn)
    ctx.obligations[:] = [o for o in ctx.obligations if not (o["rule"] in ("R13.2", "R13.3") and (o["status"] != "ok" or o["instance"] in SEM_INSTANCES + SEM_INSTANCES3))]
    for inst in SEM_INSTANCES:
        ctx.ok("R13.2", inst, "established on the effect summary of learn: every early exit of the epoch loop has `validation given, epoch > threshold, last T losses "
               "strictly increasing` among its path facts and every continuing path contradicts one of them (%d path checks)" % sum(len(v) for v in res.values()), where)
    for inst in SEM_INSTANCES3:
        ctx.ok("R13.3", inst, "established on the effect summary of learn: the window test compares exactly the pairs (L[N-1-k], L[N-2-k]), k in 0..T-1, of the list "
               "after this epoch's push", where)


RULES["R13.2"] += " | semantic fall-back (E6 summary of learn): every early exit of the epoch loop has `validation given, epochs run - T >= 1, last T recorded losses strictly increasing` among its path facts, every continuing path contradicts one of them, nothing stops without validation data"

RULES["R13.3"] += " | semantic fall-back: the window test (flag loop, (0..T-1).all, tail-slice windows(2).all) compares exactly the pairs (L[N-1-k], L[N-2-k]), k in 0..T-1, of the list after this epoch's push"

def run(ctx):
    L = ctx.guard("R13.1", "learn-structure", parts, ctx)
    if not L:
        return
    hs = ctx.guard("R13.1", "histories", r1, ctx, L)
    if hs:
        ctx.guard("R13.2", "stopping", r2_r3, ctx, L, hs)
        _sem_fallback(ctx)
    ctx.floor("R13.1", 14, "")
    ctx.floor("R13.2", 9, "")
    ctx.floor("R13.3", 3, "")
