"""Rules shared by several properties."""
from ..core import Unestablished
from ..hir import walk, strip, pretty, short, calls, children, pat_binds
from .. import e4

ACC = "feedback::Accumulation"
T = "tensor::Tensor::"
INPLACE = {T + "add_inplace", T + "sub_inplace", T + "mul_inplace", T + "mean_inplace", T + "div_scalar_inplace",
           T + "hadamard"}
# accumulation kind -> the in-place primitives an arm may (and must) use to combine tensors
ACC_MAP = {
    "Add": [{T + "add_inplace"}],
    "Subtract": [{T + "sub_inplace"}],
    "Multiply": [{T + "mul_inplace"}],
    "Mean": [{T + "mean_inplace"}, {T + "add_inplace", T + "div_scalar_inplace"}],
    "Overwrite": [set()],
}


def acc_matches(body, accfield=None):
    """All `match <..>.{accumulation|skipaccumulation|loopaccumulation}` nodes in body."""
    out = []
    for x in walk(body):
        if x.get("k") == "match" and x.get("src") == "Normal":
            arms = [e4.arm_variant(a)[0] for a in x["arms"]]
            if any(v.startswith(ACC + "::") for v in arms):
                out.append(x)
    return out


def check_acc_dispatch(ctx, rule, fn, m, inst, overwrite_ok=None, allow_unimplemented=(), mean_div_ok=None):
    """Every variant arm combines tensors with exactly the primitive set of its kind.
    overwrite_ok(arm_body) -> bool decides the Overwrite arm (an assignment / clone)."""
    c = ctx.crate
    acc = c.adts.get(ACC)
    if acc is None:
        raise Unestablished("enum feedback::Accumulation not found")
    variants = [v["name"] for v in acc["variants"]]
    arms = {}
    for a in m["arms"]:
        vp, _ = e4.arm_variant(a)
        if vp.startswith(ACC + "::"):
            arms[vp.split("::")[-1]] = a
    ok_all = True
    for v in variants:
        sub = "%s:%s" % (inst, v)
        if v not in arms:
            ctx.bad(rule, sub, "accumulation-variant-not-handled", c.loc(fn, m), "no arm for %s::%s" % (ACC, v))
            ok_all = False
            continue
        a = arms[v]
        where = c.loc(fn, a["body"])
        used = {cal for (_, cal) in calls(a["body"]) if cal in INPLACE}
        diverges = all(False for _ in ()) and False
        outs = e4.outcomes(c, a["body"], lambda n: False)
        if not outs:  # arm always panics (unimplemented!)
            if v in allow_unimplemented:
                ctx.ok(rule, sub, "%s is explicitly unimplemented (panics): outside the supported set" % v, where)
            else:
                ctx.bad(rule, sub, "accumulation-variant-panics", where, "arm for %s always panics" % v)
                ok_all = False
            continue
        if v not in ACC_MAP:
            ctx.unest(rule, sub, "no oracle for accumulation kind %s" % v, where)
            ok_all = False
            continue
        if used in ACC_MAP[v]:
            if v == "Mean" and (T + "div_scalar_inplace") in used and not (mean_div_ok or _mean_of_literal_count)(a["body"]):
                ctx.bad(rule, sub, "mean-divisor-is-not-the-operand-count", where,
                        "the Mean arm averages by explicit division, `%s`; the divisor must be the number of tensors combined" % short(pretty(a["body"]), 160))
                ok_all = False
            elif v == "Overwrite" and overwrite_ok is not None and not overwrite_ok(a["body"]):
                ctx.bad(rule, sub, "overwrite-arm-does-not-assign", where, short(pretty(a["body"]), 200))
                ok_all = False
            else:
                ctx.ok(rule, sub, "%s -> %s" % (v, sorted(x.split("::")[-1] for x in used) or "assignment"), where)
        else:
            ctx.bad(rule, sub, "wrong-primitive:" + ",".join(sorted(x.split("::")[-1] for x in used)) , where,
                    "accumulation %s must combine with %s but the arm uses %s: %s"
                    % (v, " or ".join(str(sorted(y.split("::")[-1] for y in s)) for s in ACC_MAP[v]),
                       sorted(x.split("::")[-1] for x in used), short(pretty(a["body"]), 160)))
            ok_all = False
    return ok_all


def _mean_of_literal_count(body):
    """`t.add_inplace(a); ..; t.div_scalar_inplace(<n+1>)` with n straight-line additions and a literal divisor n+1"""
    if any(x.get("k") in ("for", "loop", "closure") for x in walk(body)):
        return False
    adds = [x for x in walk(body) if x.get("k") == "mcall" and x["callee"] == T + "add_inplace"]
    divs = [x for x in walk(body) if x.get("k") == "mcall" and x["callee"] == T + "div_scalar_inplace"]
    if len(divs) != 1:
        return False
    v = e4.lit_value(divs[0]["args"][0])
    try:
        return v is not None and float(v.replace("_", "").rstrip("f32").rstrip("_")) == len(adds) + 1
    except ValueError:
        return False


def mentions_local(n, hid):
    return any(x.get("k") == "local" and x["hid"] == hid for x in walk(n))


def mentions_field(n, field):
    return any(x.get("k") == "field" and x["f"] == field for x in walk(n))


def top_stmts_of(body):
    b = body
    while b is not None and b.get("k") == "blk":
        b = b["b"]
    if b is None or b.get("k") != "block":
        return [body]
    nodes = list(b["stmts"])
    if b["tail"] is not None:
        nodes.append(b["tail"])
    return nodes


def nested_range_build(n):
    """`(0..d0).map(|_| (0..d1).map(|_| .. <elem> ..).collect()).collect()` -> ([end exprs outermost first], innermost elem node) or None"""
    dims = []
    cur = strip(n)
    while True:
        if not (cur is not None and cur.get("k") == "mcall" and cur["name"] == "collect"):
            break
        mp = strip(cur["recv"])
        if not (mp.get("k") == "mcall" and mp["name"] == "map" and len(mp["args"]) == 1):
            return None
        rng = strip(mp["recv"])
        if not (rng.get("k") == "struct" and rng["path"] == "std::ops::Range"):
            return None
        rf = dict((a, e) for a, e in rng["fs"])
        if e4.lit_value(rf["start"]) != "0":
            return None
        dims.append(rf["end"])
        cl = strip(mp["args"][0])
        if cl.get("k") != "closure":
            return None
        cur = strip(cl["body"])
        while cur.get("k") == "blk" and not cur["b"]["stmts"]:
            cur = strip(cur["b"]["tail"])
    if not dims:
        return None
    return dims, cur


def is_map_call(x, field, name):
    return (x.get("k") == "mcall" and x["callee"].startswith("std::collections::HashMap::") and x["name"] == name
            and strip(x["recv"]).get("k") == "field" and strip(x["recv"])["f"] == field)


def map_guard(ifnode, field):
    """`if self.F.contains_key(&K) {..}` or `if let Some(v) = self.F.get(&K) {..}` -> dict(key=<node K>, bound={hids bound to the looked-up value})"""
    if ifnode.get("k") != "if":
        return None
    cn = strip(ifnode["c"])
    if cn.get("k") == "letx":
        init = strip(cn["init"])
        if is_map_call(init, field, "get") and e4.arm_variant({"pat": cn["pat"]})[0].endswith("Some"):
            return dict(key=init["args"][0], bound={h for (_, h) in pat_binds(cn["pat"])})
        return None
    for x in walk(cn):
        if is_map_call(x, field, "contains_key") and strip(cn) is x:
            return dict(key=x["args"][0], bound=set())
    return None


def is_lookup(n, field, key_hid, bound):
    """does n denote the value stored under key `key_hid` in self.<field>? (`self.F[&k]`, `self.F.get(&k).unwrap()`, `*..`, or the if-let binding)"""
    n = strip(n)
    while n is not None and n.get("k") == "mcall" and n["name"] in ("unwrap", "clone", "iter", "expect", "copied"):
        n = strip(n["recv"])
    if n is None:
        return False
    if n.get("k") == "local":
        return n["hid"] in bound
    if n.get("k") == "index" and strip(n["b"]).get("k") == "field" and strip(n["b"])["f"] == field:
        return e4.local_hid(n["i"]) == key_hid
    if is_map_call(n, field, "get"):
        return e4.local_hid(n["args"][0]) == key_hid
    return False


def range_bounds(c, n, env=None):
    """(start, end_exclusive) of `a..b` / `a..=b` as canonical Rats, or None"""
    from .. import e1
    n = strip(n)
    N = e1.Norm(c, env or {})
    if n.get("k") == "struct" and n["path"] == "std::ops::Range":
        fs = dict((a, b) for a, b in n["fs"])
        return N.norm(fs["start"]), N.norm(fs["end"])
    if n.get("k") == "call" and "RangeInclusive" in n.get("callee", "") and len(n["args"]) == 2:
        return N.norm(n["args"][0]), N.norm(n["args"][1]) + 1
    return None
