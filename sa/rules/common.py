"""Rules shared by several properties."""
from ..core import Unestablished
from ..hir import walk, strip, pretty, short, calls, children, pat_binds
from .. import e4

ACC = "feedback::Accumulation"
T = "tensor::Tensor::"
INPLACE = {T + "add_inplace", T + "sub_inplace", T + "mul_inplace", T + "mean_inplace", T + "div_scalar_inplace",
           T + "hadamard"}
# accumulation kind -> the in-place primitives an arm may (and must) use to combine tensors
ACC_MAP = {
    "Add": [{T + "add_inplace"}],
    "Subtract": [{T + "sub_inplace"}],
    "Multiply": [{T + "mul_inplace"}],
    "Mean": [{T + "mean_inplace"}, {T + "add_inplace", T + "div_scalar_inplace"}],
    "Overwrite": [set()],
}


def acc_matches(body, accfield=None):
    """All `match <..>.{accumulation|skipaccumulation|loopaccumulation}` nodes in body."""
    out = []
    for x in walk(body):
        if x.get("k") == "match" and x.get("src") == "Normal":
            arms = [e4.arm_variant(a)[0] for a in x["arms"]]
            if any(v.startswith(ACC + "::") for v in arms):
                out.append(x)
    return out


def check_acc_dispatch(ctx, rule, fn, m, inst, overwrite_ok=None, allow_unimplemented=(), mean_div_ok=None):
    """Every variant arm combines tensors with exactly the primitive set of its kind.
    overwrite_ok(arm_body) -> bool decides the Overwrite arm (an assignment / clone)."""
    c = ctx.crate
    acc = c.adts.get(ACC)
    if acc is None:
        raise Unestablished("enum feedback::Accumulation not found")
    variants = [v["name"] for v in acc["variants"]]
    arms = {}
    for a in m["arms"]:
        vp, _ = e4.arm_variant(a)
        if vp.startswith(ACC + "::"):
            arms[vp.split("::")[-1]] = a
    ok_all = True
    for v in variants:
        sub = "%s:%s" % (inst, v)
        if v not in arms:
            ctx.bad(rule, sub, "accumulation-variant-not-handled", c.loc(fn, m), "no arm for %s::%s" % (ACC, v))
            ok_all = False
            continue
        a = arms[v]
        where = c.loc(fn, a["body"])
        used = {cal for (_, cal) in calls(a["body"]) if cal in INPLACE}
        diverges = all(False for _ in ()) and False
        outs = e4.outcomes(c, a["body"], lambda n: False)
        if not outs:  # arm always panics (unimplemented!)
            if v in allow_unimplemented:
                ctx.ok(rule, sub, "%s is explicitly unimplemented (panics): outside the supported set" % v, where)
            else:
                ctx.bad(rule, sub, "accumulation-variant-panics", where, "arm for %s always panics" % v)
                ok_all = False
            continue
        if v not in ACC_MAP:
            ctx.unest(rule, sub, "no oracle for accumulation kind %s" % v, where)
            ok_all = False
            continue
        if used in ACC_MAP[v]:
            if v == "Mean" and (T + "div_scalar_inplace") in used and not (mean_div_ok or _mean_of_literal_count)(a["body"]):
                ctx.bad(rule, sub, "mean-divisor-is-not-the-operand-count", where,
                        "the Mean arm averages by explicit division, `%s`; the divisor must be the number of tensors combined" % short(pretty(a["body"]), 160))
                ok_all = False
            elif v == "Overwrite" and overwrite_ok is not None and not overwrite_ok(a["body"]):
                ctx.bad(rule, sub, "overwrite-arm-does-not-assign", where, short(pretty(a["body"]), 200))
                ok_all = False
            else:
                ctx.ok(rule, sub, "%s -> %s" % (v, sorted(x.split("::")[-1] for x in used) or "assignment"), where)
        else:
            ctx.bad(rule, sub, "wrong-primitive:" + ",".join(sorted(x.split("::")[-1] for x in used)) , where,
                    "accumulation %s must combine with %s but the arm uses %s: %s"
                    % (v, " or ".join(str(sorted(y.split("::")[-1] for y in s)) for s in ACC_MAP[v]),
                       sorted(x.split("::")[-1] for x in used), short(pretty(a["body"]), 160)))
            ok_all = False
    return ok_all


def _mean_of_literal_count(body):
    """`t.add_inplace(a); ..; t.div_scalar_inplace(<n+1>)` with n straight-line additions and a literal divisor n+1"""
    if any(x.get("k") in ("for", "loop", "closure") for x in walk(body)):
        return False
    adds = [x for x in walk(body) if x.get("k") == "mcall" and x["callee"] == T + "add_inplace"]
    divs = [x for x in walk(body) if x.get("k") == "mcall" and x["callee"] == T + "div_scalar_inplace"]
    if len(divs) != 1:
        return False
    v = e4.lit_value(divs[0]["args"][0])
    try:
        return v is not None and float(v.replace("_", "").rstrip("f32").rstrip("_")) == len(adds) + 1
    except ValueError:
        return False


def mentions_local(n, hid):
    return any(x.get("k") == "local" and x["hid"] == hid for x in walk(n))


def mentions_field(n, field):
    return any(x.get("k") == "field" and x["f"] == field for x in walk(n))


def top_stmts_of(body):
    b = body
    while b is not None and b.get("k") == "blk":
        b = b["b"]
    if b is None or b.get("k") != "block":
        return [body]
    nodes = list(b["stmts"])
    if b["tail"] is not None:
        nodes.append(b["tail"])
    return nodes


def nested_range_build(n):
    """`(0..d0).map(|_| (0..d1).map(|_| .. <elem> ..).collect()).collect()` -> ([end exprs outermost first], innermost elem node) or None"""
    dims = []
    cur = strip(n)
    while True:
        if not (cur is not None and cur.get("k") == "mcall" and cur["name"] == "collect"):
            break
        mp = strip(cur["recv"])
        if not (mp.get("k") == "mcall" and mp["name"] == "map" and len(mp["args"]) == 1):
            return None
        rng = strip(mp["recv"])
        if not (rng.get("k") == "struct" and rng["path"] == "std::ops::Range"):
            return None
        rf = dict((a, e) for a, e in rng["fs"])
        if e4.lit_value(rf["start"]) != "0":
            return None
        dims.append(rf["end"])
        cl = strip(mp["args"][0])
        if cl.get("k") != "closure":
            return None
        cur = strip(cl["body"])
        while cur.get("k") == "blk" and not cur["b"]["stmts"]:
            cur = strip(cur["b"]["tail"])
    if not dims:
        return None
    return dims, cur


def is_map_call(x, field, name):
    return (x.get("k") == "mcall" and x["callee"].startswith("std::collections::HashMap::") and x["name"] == name
            and strip(x["recv"]).get("k") == "field" and strip(x["recv"])["f"] == field)


def map_guard(ifnode, field):
    """`if self.F.contains_key(&K) {..}` or `if let Some(v) = self.F.get(&K) {..}` -> dict(key=<node K>, bound={hids bound to the looked-up value})"""
    if ifnode.get("k") != "if":
        return None
    cn = strip(ifnode["c"])
    if cn.get("k") == "letx":
        init = strip(cn["init"])
        if is_map_call(init, field, "get") and e4.arm_variant({"pat": cn["pat"]})[0].endswith("Some"):
            return dict(key=init["args"][0], bound={h for (_, h) in pat_binds(cn["pat"])})
        return None
    for x in walk(cn):
        if is_map_call(x, field, "contains_key") and strip(cn) is x:
            return dict(key=x["args"][0], bound=set())
    return None


def is_lookup(n, field, key_hid, bound):
    """does n denote the value stored under key `key_hid` in self.<field>? (`self.F[&k]`, `self.F.get(&k).unwrap()`, `*..`, or the if-let binding)"""
    n = strip(n)
    while n is not None and n.get("k") == "mcall" and n["name"] in ("unwrap", "clone", "iter", "expect", "copied"):
        n = strip(n["recv"])
    if n is None:
        return False
    if n.get("k") == "local":
        return n["hid"] in bound
    if n.get("k") == "index" and strip(n["b"]).get("k") == "field" and strip(n["b"])["f"] == field:
        return e4.local_hid(n["i"]) == key_hid
    if is_map_call(n, field, "get"):
        return e4.local_hid(n["args"][0]) == key_hid
    return False


def range_bounds(c, n, env=None):
    """(start, end_exclusive) of `a..b` / `a..=b` as canonical Rats, or None"""
    from .. import e1
    n = strip(n)
    N = e1.Norm(c, env or {})
    if n.get("k") == "struct" and n["path"] == "std::ops::Range":
        fs = dict((a, b) for a, b in n["fs"])
        return N.norm(fs["start"]), N.norm(fs["end"])
    if n.get("k") == "call" and "RangeInclusive" in n.get("callee", "") and len(n["args"]) == 2:
        return N.norm(n["args"][0]), N.norm(n["args"][1]) + 1
    return None


def index_copy(c, fn, body, src_name, ext_names):
    """A copy `T[t0][t1].. = S[s0][s1]..` inside a loop nest (index loops over 0..len, enumerate-driven loops, or a mix).

    ext_names: {rendered length expression of the source -> extent name}, e.g. {"data.len()": "R", "data[0].len()": "C"}.
    Returns dict(target=[hid..], source=[hid..], roles={hid: extent name or None}, counters={hid: collection node},
                 src_root=<node>, tgt_root=<node>, alloc=[extent names, outermost first] or None)   or None when there is not exactly one element copy."""
    from ..hir import let_table, cpretty
    TT = let_table(body)
    asg = [x for x in walk(body) if x.get("k") == "assign"]
    if len(asg) != 1:
        return None
    counter_of, elem_src, range_role = {}, {}, {}
    for lp in [x for x in walk(body) if x.get("k") == "for"]:
        it = strip(lp["iter"])
        if it.get("k") == "struct" and it["path"] == "std::ops::Range":
            fs = dict((a, b) for a, b in it["fs"])
            end = cpretty(fs["end"], TT)
            ext = ext_names.get(end)
            if ext is None:
                # `data[i].len()`: the length of a row of the source
                import re
                ext = ext_names.get(re.sub(r"\[[A-Za-z_][A-Za-z_0-9]*\]", "[0]", end))
            if ext and e4.lit_value(fs["start"]) == "0" and pat_binds(lp["pat"]):
                range_role[pat_binds(lp["pat"])[0][1]] = ext
        elif it.get("k") == "mcall" and it["name"] == "enumerate":
            src = strip(it["recv"])
            while src is not None and src.get("k") == "mcall" and src["name"] in ("iter_mut", "iter"):
                src = strip(src["recv"])
            pb = pat_binds(lp["pat"])
            if len(pb) == 2 and src is not None:
                counter_of[pb[0][1]] = src
                elem_src[pb[1][1]] = (pb[0][1], src)

    def tokens(n):
        out = []
        n = strip(n)
        while n is not None:
            if n.get("k") == "index":
                out.append(e4.local_hid(n["i"]))
                n = strip(n["b"])
            elif n.get("k") == "local" and n["hid"] in elem_src:
                cnt, src = elem_src[n["hid"]]
                out.append(cnt)
                n = strip(src)
            elif n.get("k") == "local" and n["hid"] in TT and strip(TT[n["hid"]]).get("k") in ("index", "local", "field"):
                n = strip(TT[n["hid"]])
            else:
                break
        return list(reversed(out)), n
    lt, lb = tokens(asg[0]["l"])
    rt, rb = tokens(asg[0]["r"])
    alloc = None
    if lb is not None and lb.get("k") == "local":
        for s_ in walk(body):
            if s_.get("k") == "let" and s_["pat"].get("k") == "bind" and s_["pat"]["hid"] == lb.get("hid") and s_.get("init") is not None:
                dims = []
                cur = strip(s_["init"])
                # map/collect builders: (0..a).map(|_| ..).collect()
                while cur is not None and cur.get("k") == "mcall" and cur["name"] == "collect":
                    mp = strip(cur["recv"])
                    if not (mp.get("k") == "mcall" and mp["name"] == "map" and len(mp["args"]) == 1):
                        break
                    rng = strip(mp["recv"])
                    if not (rng.get("k") == "struct" and rng["path"] == "std::ops::Range"):
                        break
                    fs = dict((a, b) for a, b in rng["fs"])
                    dims.append(ext_names.get(cpretty(fs["end"], TT)))
                    cl = strip(mp["args"][0])
                    cur = strip(cl["body"]) if cl.get("k") == "closure" else None
                    while cur is not None and cur.get("k") == "blk" and not cur["b"]["stmts"]:
                        cur = strip(cur["b"]["tail"])
                while cur is not None and cur.get("k") == "call" and cur["callee"].endswith("vec::from_elem"):
                    dims.append(ext_names.get(cpretty(cur["args"][1], TT)))
                    cur = strip(cur["args"][0])
                alloc = dims
    return dict(target=lt, source=rt, roles={h: range_role.get(h) for h in lt + rt}, counters=counter_of, src_root=rb, tgt_root=lb, alloc=alloc, assign=asg[0])


def accumulation_setter(ctx, rule):
    """Network::set_accumulation(skip, loop) stores its first argument as the skip accumulation and its second as the loop
    accumulation (E6 effect summary: two field assignments from the parameters by position), and nothing else writes those fields
    besides the constructor."""
    from .. import e6
    c = ctx.crate
    fn = ctx.fn("network::Network::set_accumulation")
    E = e6.Exec(c, fn)
    paths = [p for p in E.run_fn() if p.exit is None or p.exit[0] == "return"]
    pn = [pat_binds(p)[0][0] for p in fn["params"][1:] if pat_binds(p)]
    ok = len(paths) == 1 and not paths[0].pc and len(pn) == 2
    got = "?"
    if ok:
        sets = {}
        for e in paths[0].eff:
            if e[0] == "set" and isinstance(e[1], tuple) and e[1][0] == "field" and e[1][1] == ("local", "self"):
                sets[e[1][2]] = e[2]
        got = ", ".join("%s := %s" % (k, e6.show(v, 2)) for k, v in sorted(sets.items()))
        ok = sets == {"skipaccumulation": ("p", pn[0]), "loopaccumulation": ("p", pn[1])}
    ctx.check(rule, "set_accumulation:wiring", ok, "accumulation-setter:" + short(got, 80), c.loc(fn),
              "skipaccumulation := 1st argument, loopaccumulation := 2nd argument",
              "Network::set_accumulation stores %s; the first argument configures skip connections, the second loop connections" % got)
    writers = set()
    for k, v in c.mir.items():
        for w in v["facts"].get("writes", []):
            if w.get("field") in ("skipaccumulation", "loopaccumulation") and "Network" in str(w.get("adt", "")):
                writers.add(v["parent"])
    allowed = {"network::Network::set_accumulation", "network::Network::new", "network::Network::create"}
    ctx.check(rule, "set_accumulation:only-writer", writers <= allowed, "accumulation-written-by:" + ",".join(sorted(writers - allowed)), c.loc(fn),
              "written only by the setter (and the constructor): %s" % sorted(writers))


# ---------------------------------------------------------------------------------------------
# who-may-permute: operations that move the entries of a Vec / slice to other positions
PERMUTING = ("reverse", "swap", "rotate_left", "rotate_right", "sort", "sort_by", "sort_by_key", "sort_by_cached_key", "sort_unstable", "sort_unstable_by",
             "sort_unstable_by_key", "swap_remove", "swap_with_slice", "select_nth_unstable")
# the sites confirmed by reading the pinned tree: (function, operation) -> why it is not a rearrangement of a result
PERMUTING_SITES = {
    ("convolution::Convolution::rotate", "reverse"): "the 180-degree kernel flip itself (rows and columns reversed; checked by R01.3)",
    ("feedback::Feedback::backward", "sort"): "sorts the skip-target index list it has just built (order-insensitive use)",
    ("<feedback::Feedback as std::fmt::Display>::fmt", "sort_by_key"): "display only",
    ("<network::Network as std::fmt::Display>::fmt", "sort_by_key"): "display only",
    ("random::Generator::shuffle", "swap"): "the shuffle: the one function whose contract is to permute (C18)",
}


def _family(op):
    return "sort" if op.startswith("sort") or op.startswith("select_nth") else ("rotate" if op.startswith("rotate") else ("swap" if op.startswith("swap") else op))


_SITES = {(f_, _family(o_)) for (f_, o_) in PERMUTING_SITES}


def no_permuting_ops(ctx, rule, inst, files, floor_fns, skip=None, only=None):
    """Over every function defined in `files` (optionally filtered by name): no Vec / slice operation that moves entries to other positions
    (reverse, swap, rotate, sort ..; `mem::swap` of two entries) outside the confirmed table.  The element-wise pipelines of these modules
    produce entry i from entry i of their operands; a permutation applied to an operand, an intermediate or a result breaks that
    correspondence whatever the surrounding code looks like."""
    c = ctx.crate
    nfn, bad = 0, []
    for path, fn in sorted(c.fns.items()):
        if fn.get("file") not in files:
            continue
        leaf = path.rsplit("::", 1)[-1]
        if (skip and skip(path, leaf)) or (only and not only(path, leaf)):
            continue
        nfn += 1
        for x in walk(fn["body"]):
            k = x.get("k")
            if k == "mcall" and x["name"] in PERMUTING and ("Vec" in x["callee"] or "slice" in x["callee"] or "[T]" in x["callee"]):
                if (path, _family(x["name"])) not in _SITES:       # the variants of one operation (sort / sort_unstable / sort_by ..) count as the same site
                    bad.append((path, x["name"], c.loc(fn, x)))
            elif k == "call" and str(x.get("callee", "")).endswith("mem::swap") and len(x.get("args") or []) == 2:
                a0, a1 = (strip(a) for a in x["args"])
                if a0 is not None and a1 is not None and a0.get("k") == "index" and a1.get("k") == "index":
                    bad.append((path, "mem::swap", c.loc(fn, x)))
    ctx.check(rule, inst + ":entries-stay-in-place", nfn >= floor_fns and not bad,
              ("entries-moved-by:" + ",".join(sorted({"%s:%s" % (b[0].rsplit("::", 2)[-2] + "::" + b[0].rsplit("::", 1)[-1], b[1]) for b in bad}))) if bad else "functions-scanned:%d" % nfn,
              bad[0][2] if bad else ",".join(sorted(files)),
              "%d functions of %s: no entry-moving list operation outside the confirmed sites" % (nfn, ",".join(sorted(files))),
              "%s: entry i of the list no longer corresponds to entry i of what it was computed from"
              % "; ".join("%s applies %s (%s)" % (b[0], b[1], b[2]) for b in bad[:3]) if bad else "only %d functions found in %s (expected >= %d)" % (nfn, sorted(files), floor_fns))


def returned_as_computed(ctx, rule, files, pick, extra=(), floor=1):
    """For every function of `files` selected by pick(path, leaf): on the E6 value of each non-panicking path the only straight-line in-place
    changes of the result are appends (push / extend ..) and the operations listed in `extra` (each of which a specific rule of the property
    accounts for); an entry assigned, dropped or moved after the loops that compute the result is reported.  Changes made inside loops belong
    to the loop's value and are judged by the function rules."""
    from .. import e6
    c = ctx.crate
    n = 0
    for path, fn in sorted(c.fns.items()):
        leaf = path.rsplit("::", 1)[-1]
        if fn.get("file") not in files or not pick(path, leaf):
            continue
        live = [p for p in e6.Exec(c, fn).run_fn() if p.exit is None or p.exit[0] == "return"]
        if not live:
            continue
        tam = sorted({nm for p in live for nm in e6.inplace_changes(p.val if p.exit is None else p.exit[1]) if nm not in extra})
        n += 1
        ctx.check(rule, "::".join(path.split("::")[-2:]) + ":returned-as-computed", not tam, "result-changed-in-place-by:" + ",".join(tam), c.loc(fn),
                  "%d paths: the result is returned as the loops produced it" % len(live),
                  "%s changes its result in place (%s) after computing it" % (path, tam))
    if n < floor:
        ctx.bad(rule, "returned-as-computed:count", "functions-found:%d" % n, ",".join(sorted(files)), "expected at least %d functions" % floor)


def writes_inside_the_walk(ctx, rule, files, pick, floor=1):
    """For the in-place element-wise functions selected by pick(path, leaf, fn): every write to an entry happens inside the walk over the
    operands.  On the E6 summary of each non-panicking path, the straight-line part (outside all loops / iterator closures) contains no
    assignment to an indexed place and no Vec / slice method taking `&mut self` other than appends: entry i of the result is what the walk
    computed for entry i, and nothing patches, drops or moves entries before or after it."""
    from .. import e6
    c = ctx.crate
    n = 0
    for path, fn in sorted(c.fns.items()):
        leaf = path.rsplit("::", 1)[-1]
        if fn.get("file") not in files or not pick(path, leaf, fn):
            continue
        live = [p for p in e6.Exec(c, fn).run_fn() if p.exit is None or p.exit[0] == "return"]
        if not live:
            continue
        bad = set()
        for p in live:
            for e in p.eff:
                if e[0] == "set" and e6.find_terms(e[1], lambda t: isinstance(t, tuple) and t and t[0] == "idx"):
                    bad.add("assignment:" + _strip_ids(e6.show(e[1], 2))[:40])
                elif e[0] == "mut" and ("Vec" in e[1] or "slice" in e[1] or "[T]" in e[1]) and e[1].rsplit("::", 1)[-1] not in e6._GROWTH:
                    bad.add(e[1].rsplit("::", 1)[-1])
        n += 1
        ctx.check(rule, "::".join(path.split("::")[-2:]) + ":writes-inside-the-walk", not bad, "entry-written-outside-the-walk:" + ",".join(sorted(bad)), c.loc(fn),
                  "%d paths: no straight-line entry write" % len(live),
                  "%s writes entries outside its element-wise walk (%s)" % (path, sorted(bad)))
    if n < floor:
        ctx.bad(rule, "writes-inside-the-walk:count", "functions-found:%d" % n, ",".join(sorted(files)), "expected at least %d functions" % floor)


def _strip_ids(s):
    import re
    return re.sub(r"#\w+", "", s)
