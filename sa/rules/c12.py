"""C12 - validate and predict_batch are faithful aggregations of predict."""
from ..core import Unestablished
from ..hir import walk, strip, pretty, short, calls, pat_binds
from .. import e1, e4
from ..e1 import Rat, ite, cmp_atom, r_abs
from .common import top_stmts_of
from .learn import chain_of

LEVEL = "other"
RULES = {
    "R12.1": "predict is exactly `forward(input)` followed by the last activated tensor (no other path, no condition); predict_batch maps "
             "self.predict over every input with order-preserving combinators only (par_chunks/chunks . flat_map . [iter . map . collect] . collect)",
    "R12.2": "validate: for every (input, target) of the zipped, aligned, ordered traversal prediction = self.predict(input) and "
             "loss = objective.loss(&prediction, target).0; the parallel part only collects per-sample (loss, acc) pairs; the result is "
             "(sum(loss)/len(loss), sum(acc)/len(acc)) computed sequentially over all samples",
    "R12.3": "accuracy rule: selected by the activation of the last (dense) layer; soft-max => 1 iff argmax(target) == argmax(prediction); "
             "otherwise the mean over components of [|t - p| < tol] (strict), the single-output special case being the same formula for "
             "n = 1; Tensor::argmax is the index of a maximum under partial_cmp over enumerate()",
}
ASSUMPTIONS = ["rayon ordering contract (see C05)", "the numeric metrics themselves are not decided"]
TRUSTED = ["rustc nightly front end", "driver/src/main.rs", "sa/e1.py", "sa/e4.py"]

OUTER_OK = (["par_chunks", "flat_map", "collect"], ["chunks", "flat_map", "collect"], ["par_chunks", "zip", "flat_map", "collect"], ["chunks", "zip", "flat_map", "collect"])


def r1(ctx):
    c = ctx.crate
    fn = ctx.fn("network::Network::predict")
    ih = pat_binds(fn["params"][1])[0][1]
    cs = [cal for _, cal in calls(fn["body"])]
    conds = [x for x in walk(fn["body"]) if x.get("k") in ("if", "match", "for", "loop", "ret")]
    fw = [x for x in walk(fn["body"]) if x.get("k") == "mcall" and x["callee"] == "network::Network::forward"]
    t = pretty(fn["body"])
    ok = (len(fw) == 1 and e4.local_hid(fw[0]["args"][0]) == ih and not conds and "let (_, outputs, _, _) = self.forward(input)" in t
          and "outputs.last().unwrap().clone()" in t and all(cal.startswith(("network::Network::forward", "std::", "core::", "<")) or cal.endswith("::clone") for cal in cs))
    ctx.check("R12.1", "predict-is-forward-last", ok, "predict-body:" + short(t, 100), c.loc(fn), "predict = forward(input).1.last().clone(), unconditionally",
              "predict is `%s`; it must be the final activation of forward() on every path (a shortcut that bypasses forward drops skip/loop connections)" % short(t, 200))
    fn = ctx.fn("network::Network::predict_batch")
    ph = pat_binds(fn["params"][1])[0][1]
    b = strip(fn["body"])
    while b.get("k") == "blk" and not b["b"]["stmts"]:
        b = strip(b["b"]["tail"])
    names, base = chain_of(b)
    ok = names in OUTER_OK[:2] and e4.local_hid(base) == ph
    ctx.check("R12.1", "predict_batch-outer-chain", ok, "predict_batch-chain:" + ".".join(names), c.loc(fn), "inputs.%s" % ".".join(names),
              "predict_batch is built from `%s`; only order-preserving, tail-keeping combinators return exactly predict of each input in input order" % ".".join(names))
    cl = [x for x in walk(b) if x.get("k") == "closure"]
    ok = False
    if cl:
        outer = cl[0]
        bh = pat_binds(outer["params"][0])[0][1]
        ib = strip(outer["body"])
        while ib.get("k") == "blk" and not ib["b"]["stmts"]:
            ib = strip(ib["b"]["tail"])
        n2, b2 = chain_of(ib)
        inner = [x for x in walk(ib) if x.get("k") == "closure"]
        if n2 == ["iter", "map", "collect"] and e4.local_hid(b2) == bh and len(inner) == 1:
            ph2 = pat_binds(inner[0]["params"][0])[0][1]
            body = strip(inner[0]["body"])
            while body.get("k") == "blk" and not body["b"]["stmts"]:
                body = strip(body["b"]["tail"])
            ok = body.get("k") == "mcall" and body["callee"] == "network::Network::predict" and e4.local_hid(body["args"][0]) == ph2
    ctx.check("R12.1", "predict_batch-per-input", ok, "predict_batch-inner", c.loc(fn), "batch.iter().map(|input| self.predict(input)).collect()")


def r2(ctx):
    c = ctx.crate
    fn = ctx.fn("network::Network::validate")
    P = {pat_binds(p)[0][0]: pat_binds(p)[0][1] for p in fn["params"] if pat_binds(p)}
    stmts = top_stmts_of(fn["body"])
    lets = {}
    for s in stmts:
        if s.get("k") == "let":
            for nm, h in pat_binds(s["pat"]):
                lets[nm] = (h, s)
    if "results" not in lets:
        raise Unestablished("validate: no `let results`", c.loc(fn))
    rs = strip(lets["results"][1]["init"])
    names, base = chain_of(rs)
    where = c.loc(fn, rs)
    ok = names in OUTER_OK[2:] and e4.local_hid(base) == P.get("inputs")
    z = None
    for x in walk(rs):
        if x.get("k") == "mcall" and x["name"] == "zip" and "par_chunks" in pretty(x) or (x.get("k") == "mcall" and x["name"] == "zip" and "chunks(" in pretty(x["recv"])):
            z = x
            break
    same = False
    if z is not None:
        l, r = strip(z["recv"]), strip(z["args"][0])
        same = (l.get("name") == r.get("name") and e4.local_hid(l["recv"]) == P.get("inputs") and e4.local_hid(r["recv"]) == P.get("targets")
                and pretty(strip(l["args"][0])) == pretty(strip(r["args"][0])))
    ctx.check("R12.2", "outer-chain", ok and same, "validate-chain:" + ".".join(names), where, "inputs.%s with targets chunked alike" % ".".join(names),
              "validate walks the data with `%s` (inputs/targets chunked alike: %s)" % (".".join(names), same))
    cls = [x for x in walk(rs) if x.get("k") == "closure"]
    if len(cls) < 2:
        raise Unestablished("validate: closures not found", where)
    outer, inner = cls[0], cls[1]
    ob = strip(outer["body"])
    while ob.get("k") == "blk" and not ob["b"]["stmts"]:
        ob = strip(ob["b"]["tail"])
    n2, b2 = chain_of(ob)
    opb = pat_binds(outer["params"][0])
    okc = n2 == ["iter", "zip", "map", "collect"] and len(opb) == 2 and e4.local_hid(b2) == opb[0][1]
    zz = [x for x in walk(ob, into_closures=False) if x.get("k") == "mcall" and x["name"] == "zip"]
    if zz:
        rn_, rb_ = chain_of(zz[0]["args"][0])
        okc = okc and rn_ == ["iter"] and e4.local_hid(rb_) == opb[1][1]
    ctx.check("R12.2", "per-chunk-chain", okc, "chunk-chain:" + ".".join(n2), c.loc(fn, ob), "inputs.iter().zip(targets.iter()).map(..).collect::<Vec<_>>()",
              "inside the parallel closure the chunk is processed with `%s`: it must only collect one (loss, acc) pair per sample, in order (a per-chunk "
              "reduction changes the weighting when the last chunk is shorter)" % ".".join(n2))
    ipb = pat_binds(inner["params"][0])
    ist = top_stmts_of(inner["body"])
    il = {}
    for s in ist:
        if s.get("k") == "let":
            for nm, h in pat_binds(s["pat"]):
                il[nm] = (h, s)
    pr = il.get("prediction")
    okp = pr is not None and pretty(strip(pr[1]["init"])) == "self.predict(%s)" % ipb[0][0]
    ctx.check("R12.2", "prediction-is-predict-of-input", okp, "prediction:" + (short(pretty(pr[1]["init"]), 50) if pr else "?"), c.loc(fn, inner), "prediction = self.predict(input)")
    ls = il.get("loss")
    okl = False
    if ls:
        i = strip(ls[1]["init"])
        okl = (i.get("k") == "mcall" and i["callee"] == "objective::Function::loss" and pretty(strip(i["args"][0])) == "prediction" and e4.local_hid(i["args"][1]) == ipb[1][1]
               and ls[1]["pat"].get("k") == "tuple" and pat_binds(ls[1]["pat"]["ps"][0]) and pat_binds(ls[1]["pat"]["ps"][0])[0][1] == ls[0])
    ctx.check("R12.2", "loss-is-objective-of-prediction-and-target", okl, "loss:" + (short(pretty(ls[1]["init"]), 60) if ls else "?"), c.loc(fn, inner), "(loss, _) = objective.loss(&prediction, target)")
    tail = strip(ist[-1])
    okt = tail.get("k") == "tup" and [pretty(strip(z_)) for z_ in tail["xs"]] == ["loss", "acc"]
    ctx.check("R12.2", "per-sample-pair", okt, "per-sample-result:" + short(pretty(tail), 40), c.loc(fn, inner), "(loss, acc) per sample")
    # aggregation
    un = [s for s in stmts if s.get("k") == "let" and s["init"] is not None and "results.into_iter().unzip()" == pretty(strip(s["init"]))]
    oku = len(un) == 1 and [n for (n, _) in pat_binds(un[0]["pat"])] == ["loss", "acc"]
    ctx.check("R12.2", "unzip", oku, "unzip", c.loc(fn), "(loss, acc) = results.into_iter().unzip()")

    def hook(N, n):
        if n.get("k") == "mcall" and n["name"] == "sum":
            nm, bs = chain_of(n["recv"])
            if nm == ["iter"] and bs.get("k") == "local":
                return Rat.atom("SUM(%s)" % bs["name"])
            raise ValueError("sum over " + short(pretty(n["recv"]), 40))
        return None
    tail = strip(stmts[-1])
    okm = False
    got = "?"
    if tail.get("k") == "tup" and len(tail["xs"]) == 2:
        N = e1.Norm(c)
        N.reduce_hook = hook
        try:
            vals = [N.norm(x) for x in tail["xs"]]
            got = ", ".join(str(v) for v in vals)
            okm = vals == [Rat.atom("SUM(loss)") / Rat.atom("len(loss)"), Rat.atom("SUM(acc)") / Rat.atom("len(acc)")]
        except ValueError as e:
            got = str(e)
    ctx.check("R12.2", "means", okm, "aggregation:" + short(got, 80), c.loc(fn, tail), "(sum(loss)/len(loss), sum(acc)/len(acc))", "validate returns (%s)" % got)
    return inner, il, ipb


def r3(ctx, inner, il, ipb):
    c = ctx.crate
    fn = ctx.fn("network::Network::validate")
    acc = il.get("acc")
    if acc is None:
        raise Unestablished("no `let acc`", c.loc(fn, inner))
    m = strip(acc[1]["init"])
    ok = m.get("k") == "match" and pretty(strip(m["scrut"])) == "self.layers.last().unwrap()"
    ctx.check("R12.3", "selected-by-last-layer", ok, "accuracy-selector:" + short(pretty(m.get("scrut")), 50) if m.get("k") == "match" else "accuracy-selector", c.loc(fn, m), "match self.layers.last().unwrap()")
    if m.get("k") != "match":
        return
    dense = [a for a in m["arms"] if e4.arm_variant(a)[0] == "network::Layer::Dense"]
    if len(dense) != 1:
        raise Unestablished("no Dense arm", c.loc(fn, m))
    m2 = strip(dense[0]["body"])
    ok = m2.get("k") == "match" and pretty(strip(m2["scrut"])).endswith(".activation")
    ctx.check("R12.3", "selected-by-activation", ok, "activation-selector", c.loc(fn, m2), "match layer.activation")
    if m2.get("k") != "match":
        return
    tname, thid = ipb[1]
    for arm in m2["arms"]:
        vp, _ = e4.arm_variant(arm)
        body = strip(arm["body"])
        while body.get("k") == "blk" and not body["b"]["stmts"]:
            body = strip(body["b"]["tail"])
        if vp == "activation::Function::Softmax":
            ok = (body.get("k") == "if" and pretty(strip(body["c"])) in ("(target.argmax() == prediction.argmax())", "(prediction.argmax() == target.argmax())")
                  and e4.lit_value(_tail(body["th"])) == "1.0" and e4.lit_value(_tail(body["el"])) == "0.0")
            ctx.check("R12.3", "softmax-argmax-agreement", ok, "softmax-accuracy:" + short(pretty(body), 80), c.loc(fn, body), "1 iff argmax(target) == argmax(prediction)")
        elif vp == "_":
            st = top_stmts_of(arm["body"])
            env = {}
            tl = strip(st[-1])
            okg = False
            got = "?"
            if tl.get("k") == "if":
                # single-output branch and general branch
                try:
                    cond = pretty(strip(tl["c"]))
                    single = e1.Norm(c).norm(tl["th"])
                    # general: sum over zipped pairs of ite(|t-p| < tol) / len
                    gen = strip(_tail(tl["el"]))
                    cl = [x for x in walk(gen) if x.get("k") == "closure"]
                    pb = pat_binds(cl[0]["params"][0])
                    N = e1.Norm(c, {pb[0][1]: Rat.atom("t"), pb[1][1]: Rat.atom("p")})
                    per = N.norm(cl[0]["body"])
                    tol = Rat.atom("tol")
                    want = ite(cmp_atom("Lt", r_abs(Rat.atom("t") - Rat.atom("p")), tol), 1, 0)
                    want1 = ite(cmp_atom("Lt", r_abs(Rat.atom("prediction[0]") - Rat.atom("target[0]")), tol), 1, 0)
                    names, bs = chain_of(gen["l"]) if gen.get("k") == "bin" else ([], None)
                    div_ok = gen.get("k") == "bin" and gen["op"] == "Div" and pretty(strip(gen["r"])) in ("(target.len() as _)",) and names == ["iter", "zip", "map", "sum"]
                    okg = per == want and single == want1 and div_ok and cond == "(target.len() == 1)"
                    got = "per=%s single=%s chain=%s" % (per, single, ".".join(names))
                except (ValueError, KeyError, IndexError, TypeError) as e:
                    got = "unrecognised: %s" % e
            ctx.check("R12.3", "tolerance-rule", okg, "tolerance-accuracy:" + short(got, 100), c.loc(fn, tl), "mean over components of [|t-p| < tol] (strict)",
                      "the non-softmax accuracy is computed as %s" % got)
    fa = ctx.fn("tensor::Tensor::argmax")
    t = pretty(fa["body"])
    ok = "data.iter().enumerate().max_by(|(_, a), (_, b)| a.partial_cmp(b).unwrap()).unwrap().0" in t
    ctx.check("R12.3", "argmax-definition", ok, "argmax:" + short(t, 100), c.loc(fa), "index of a maximum under partial_cmp")


def _tail(n):
    n = strip(n)
    while n is not None and n.get("k") == "blk" and not n["b"]["stmts"]:
        n = strip(n["b"]["tail"])
    return n


def run(ctx):
    ctx.guard("R12.1", "predict", r1, ctx)
    r = ctx.guard("R12.2", "validate", r2, ctx)
    if r:
        ctx.guard("R12.3", "accuracy", r3, ctx, *r)
    ctx.floor("R12.1", 3, "")
    ctx.floor("R12.2", 7, "")
    ctx.floor("R12.3", 5, "")
