"""C12 - validate and predict_batch are faithful aggregations of predict."""
from ..core import Unestablished
from ..hir import walk, strip, pretty, short, calls, pat_binds
from .. import e1, e4
from ..e1 import Rat, ite, cmp_atom, r_abs
from .common import top_stmts_of
from .learn import chain_of

LEVEL = "other"
RULES = {
    "R12.1": "predict is exactly `forward(input)` followed by the last activated tensor (no other path, no condition); predict_batch maps "
             "self.predict over every input with order-preserving combinators only (par_chunks/chunks . flat_map . [iter . map . collect] . collect)",
    "R12.2": "validate: for every (input, target) of the zipped, aligned, ordered traversal prediction = self.predict(input) and "
             "loss = objective.loss(&prediction, target).0; the parallel part only collects per-sample (loss, acc) pairs; the result is "
             "(sum(loss)/len(loss), sum(acc)/len(acc)) computed sequentially over all samples",
    "R12.3": "accuracy rule: selected by the activation of the last (dense) layer; soft-max => 1 iff argmax(target) == argmax(prediction); "
             "otherwise the mean over components of [|t - p| < tol] (strict), the single-output special case being the same formula for "
             "n = 1; Tensor::argmax is the index of a maximum under partial_cmp over enumerate()",
}
RULES["R12.3"] += " | decided on the E6 summary of the per-sample closure of validate: every non-panicking path requires the last layer to be Dense; Softmax => accuracy is 1.0/0.0 by argmax(target) == argmax(prediction); otherwise target length 1 => [|p0 - t0| < tol], else sum over zipped components of [|t - p| < tol] / len(target) (strict <)"
ASSUMPTIONS = ["rayon ordering contract (see C05)", "the numeric metrics themselves are not decided"]
TRUSTED = ["rustc nightly front end", "driver/src/main.rs", "sa/e1.py", "sa/e4.py"]

OUTER_OK = (["par_chunks", "flat_map", "collect"], ["chunks", "flat_map", "collect"], ["par_chunks", "zip", "flat_map", "collect"], ["chunks", "zip", "flat_map", "collect"])


def predict_rule(ctx, rule, inst):
    from .. import e6
    c = ctx.crate
    fn = ctx.fn("network::Network::predict")
    E = e6.Exec(c, fn)
    paths = [p for p in E.run_fn() if p.exit is None or p.exit[0] == "return"]
    inp = ("p", pat_binds(fn["params"][1])[0][0])
    ok = len(paths) == 1
    got = "?"
    if ok:
        val = paths[0].val if paths[0].exit is None else paths[0].exit[1]
        got = e6.show(val, 2)
        a = e6.is_call(val, "unwrap", 1) or e6.is_call(val, "expect")
        if a is None and isinstance(val, tuple) and len(val) == 4 and val[0] == "payload" and val[2] == "Option::Some" and val[3] == 0 \
                and paths[0].pc == ((("is", val[1], "Option::Some"), True),):
            a = (val[1],)          # `match opt { Some(v) => v, None => panic!() }` is unwrap
        b = (e6.is_call(a[0], "last", 1) or e6.is_call(a[0], "pop", 1)) if a else None
        src = b[0] if b else None
        ok = src == e6.mk_proj(("call", "network::Network::forward", (("p", "self"), inp)), 1)
        # nothing else happens to the forward result (no other evaluation path, no mutation besides taking the last element)
        others = [e for e in paths[0].eff if not (e[0] == "mut" and e[1].endswith("::pop"))]
        ok = ok and not others and (not paths[0].pc or e6.is_call(val, "unwrap", 1) is None and e6.is_call(val, "expect") is None and a is not None and len(paths[0].pc) == 1)
    ctx.check(rule, inst, ok, "predict-body:" + short(got, 100), c.loc(fn), "predict = forward(input).1.last(), unconditionally",
              "predict evaluates to `%s`; it must be the final activation of forward() on every path (a shortcut that bypasses forward drops skip/loop connections)" % short(got, 200))


def r1(ctx):
    """predict / predict_batch, decided on E6 summaries (independent of clone-vs-pop, map/collect-vs-push-loop, names)"""
    from .. import e6
    c = ctx.crate
    predict_rule(ctx, "R12.1", "predict-is-forward-last")
    fn = ctx.fn("network::Network::predict_batch")
    ph = pat_binds(fn["params"][1])[0][1]
    b = strip(fn["body"])
    while b.get("k") == "blk" and b["b"].get("tail") is not None and all(s_.get("k") == "let" and not s_.get("els") for s_ in b["b"]["stmts"]):
        b = strip(b["b"]["tail"])          # `let result = <chain>; result`: the lets are resolved below
    from ..hir import resolve, let_table
    b = resolve(b, let_table(fn["body"]))
    if b is not None and b.get("k") == "local":
        # `let predictions = <chain>; predictions` - a result named once and returned
        uses_ = [x for x in walk(fn["body"]) if x.get("k") == "local" and x.get("hid") == b["hid"]]
        lets_ = [x for x in walk(fn["body"]) if x.get("k") == "let" and x["pat"].get("k") == "bind" and x["pat"].get("hid") == b["hid"] and x.get("init") is not None]
        if len(uses_) == 1 and len(lets_) == 1 and "Mut)" not in str(lets_[0]["pat"].get("mode")):
            b = strip(lets_[0]["init"])
    names, base = chain_of(b)
    ok = names in OUTER_OK[:2] and e4.local_hid(base) == ph
    ctx.check("R12.1", "predict_batch-outer-chain", ok, "predict_batch-chain:" + ".".join(names), c.loc(fn), "inputs.%s" % ".".join(names),
              "predict_batch is built from `%s`; only order-preserving, tail-keeping combinators return exactly predict of each input in input order" % ".".join(names))
    E2_ = e6.Exec(c, fn)
    ps = [p for p in E2_.run_fn() if p.exit is None or p.exit[0] == "return"]
    ok = False
    if len(ps) == 1:
        val = ps[0].val if ps[0].exit is None else ps[0].exit[1]
        a = e6.is_call(val, "collect", 1)
        fm = e6.is_call(a[0], "flat_map", 2) if a else None
        if fm and isinstance(fm[1], tuple) and fm[1][0] == "closure":
            S = E2_.loop_summaries.get("cl%s" % fm[1][1])
            live = [p for p in S["paths"] if p.exit is None] if S else []
            if S and len(live) == 1 and len(S["paths"]) == 1 and not live[0].pc:
                chunk = ("elem", fm[0], "cl%s" % fm[1][1])
                es = e6.elementwise_sequence(E2_, live[0].val)
                if es is not None:
                    src, v, el = es
                    ok = src == chunk and v == ("call", "network::Network::predict", (("p", "self"), el))
    ctx.check("R12.1", "predict_batch-per-input", ok, "predict_batch-inner", c.loc(fn), "every chunk maps to [predict(x) for x in chunk], in order")


def r2(ctx):
    c = ctx.crate
    fn = ctx.fn("network::Network::validate")
    P = {pat_binds(p)[0][0]: pat_binds(p)[0][1] for p in fn["params"] if pat_binds(p)}
    stmts = top_stmts_of(fn["body"])
    lets = {}
    for s in stmts:
        if s.get("k") == "let":
            for nm, h in pat_binds(s["pat"]):
                lets[nm] = (h, s)
    if "results" not in lets:
        raise Unestablished("validate: no `let results`", c.loc(fn))
    rs = strip(lets["results"][1]["init"])
    names, base = chain_of(rs)
    where = c.loc(fn, rs)
    ok = names in OUTER_OK[2:] and e4.local_hid(base) == P.get("inputs")
    z = None
    for x in walk(rs):
        if x.get("k") == "mcall" and x["name"] == "zip" and "par_chunks" in pretty(x) or (x.get("k") == "mcall" and x["name"] == "zip" and "chunks(" in pretty(x["recv"])):
            z = x
            break
    same = False
    if z is not None:
        l, r = strip(z["recv"]), strip(z["args"][0])
        same = (l.get("name") == r.get("name") and e4.local_hid(l["recv"]) == P.get("inputs") and e4.local_hid(r["recv"]) == P.get("targets")
                and pretty(strip(l["args"][0])) == pretty(strip(r["args"][0])))
    ctx.check("R12.2", "outer-chain", ok and same, "validate-chain:" + ".".join(names), where, "inputs.%s with targets chunked alike" % ".".join(names),
              "validate walks the data with `%s` (inputs/targets chunked alike: %s)" % (".".join(names), same))
    cls = [x for x in walk(rs) if x.get("k") == "closure"]
    if len(cls) < 2:
        raise Unestablished("validate: closures not found", where)
    outer, inner = cls[0], cls[1]
    ob = strip(outer["body"])
    while ob.get("k") == "blk" and not ob["b"]["stmts"]:
        ob = strip(ob["b"]["tail"])
    n2, b2 = chain_of(ob)
    opb = pat_binds(outer["params"][0])
    okc = n2 == ["iter", "zip", "map", "collect"] and len(opb) == 2 and e4.local_hid(b2) == opb[0][1]
    zz = [x for x in walk(ob, into_closures=False) if x.get("k") == "mcall" and x["name"] == "zip"]
    if zz:
        rn_, rb_ = chain_of(zz[0]["args"][0])
        okc = okc and rn_ == ["iter"] and e4.local_hid(rb_) == opb[1][1]
    ctx.check("R12.2", "per-chunk-chain", okc, "chunk-chain:" + ".".join(n2), c.loc(fn, ob), "inputs.iter().zip(targets.iter()).map(..).collect::<Vec<_>>()",
              "inside the parallel closure the chunk is processed with `%s`: it must only collect one (loss, acc) pair per sample, in order (a per-chunk "
              "reduction changes the weighting when the last chunk is shorter)" % ".".join(n2))
    ipb = pat_binds(inner["params"][0])
    ist = top_stmts_of(inner["body"])
    il = {}
    for s in ist:
        if s.get("k") == "let":
            for nm, h in pat_binds(s["pat"]):
                il[nm] = (h, s)
    pr = il.get("prediction")
    okp = pr is not None and pretty(strip(pr[1]["init"])) == "self.predict(%s)" % ipb[0][0]
    ctx.check("R12.2", "prediction-is-predict-of-input", okp, "prediction:" + (short(pretty(pr[1]["init"]), 50) if pr else "?"), c.loc(fn, inner), "prediction = self.predict(input)")
    ls = il.get("loss")
    okl = False
    if ls:
        i = strip(ls[1]["init"])
        okl = (i.get("k") == "mcall" and i["callee"] == "objective::Function::loss" and pretty(strip(i["args"][0])) == "prediction" and e4.local_hid(i["args"][1]) == ipb[1][1]
               and ls[1]["pat"].get("k") == "tuple" and pat_binds(ls[1]["pat"]["ps"][0]) and pat_binds(ls[1]["pat"]["ps"][0])[0][1] == ls[0])
    ctx.check("R12.2", "loss-is-objective-of-prediction-and-target", okl, "loss:" + (short(pretty(ls[1]["init"]), 60) if ls else "?"), c.loc(fn, inner), "(loss, _) = objective.loss(&prediction, target)")
    tail = strip(ist[-1])
    okt = tail.get("k") == "tup" and [pretty(strip(z_)) for z_ in tail["xs"]] == ["loss", "acc"]
    ctx.check("R12.2", "per-sample-pair", okt, "per-sample-result:" + short(pretty(tail), 40), c.loc(fn, inner), "(loss, acc) per sample")
    # aggregation
    # aggregation, on the E6 summary: the result is (sum(L) / len(L) as f32, sum(A) / len(A) as f32) where L and A are the first and second
    # components of one and the same sequence of per-sample pairs (unzip, or one push of each component per pair)
    from .. import e6
    Ev = e6.Exec(c, fn)
    lv = [p_ for p_ in Ev.run_fn() if p_.exit is None or p_.exit[0] == "return"]
    oku = okm = bool(lv)
    got = "?"

    def component(t, k, P_):
        """-> the sequence of pairs t is the k-th component list of, or None"""
        if isinstance(t, tuple) and t and t[0] == "proj" and t[2] == k:
            u = e6.is_call(t[1], "unzip", 1)
            return e6.strip_upd(u[0]) if u else None
        if isinstance(t, tuple) and len(t) == 4 and t[0] == "loopout":
            name, lid_, entry = t[1], t[2], t[3]
            S_ = Ev.loop_summaries.get(lid_)
            if S_ is None or S_.get("kind") != "for" or len(S_["paths"]) != 1 or S_["paths"][0].pc or S_["paths"][0].exit is not None:
                return None
            if not (e6.is_call(entry, "new", 0) is not None or e6.is_call(entry, "with_capacity", 1) is not None or entry == ("vec", ())):
                return None
            el_ = ("elem", S_["iter"], lid_)
            pushes = [e_ for e_ in S_["paths"][0].eff if e_[0] == "push" and e_[1] == ("local", name)]
            others = [e_ for e_ in S_["paths"][0].eff if e_[0] not in ("push", "loop")]
            if len(pushes) == 1 and not others and pushes[0][2] == ("proj", el_, k):
                return e6.strip_upd(S_["iter"])
        return None
    for P_ in lv:
        v_ = P_.val if P_.exit is None else P_.exit[1]
        got = e6.show(v_, 3)[:160]
        if not (isinstance(v_, tuple) and v_ and v_[0] == "tup" and len(v_[1]) == 2):
            oku = okm = False
            continue
        seqs = []
        for k_, a_ in enumerate(v_[1]):
            good = False
            if isinstance(a_, tuple) and a_[0] == "bin" and a_[1] == "Div":
                sm = e6.is_call(a_[2], "sum", 1)
                dn = a_[3]
                ln = e6.is_call(dn[1], "len", 1) if isinstance(dn, tuple) and dn and dn[0] == "cast" and dn[2] == "f32" else None
                mp_ = e6.is_call(sm[0], "map", 2) if sm else None
                if mp_ and ln and isinstance(mp_[1], tuple) and mp_[1][0] == "closure" and e6.strip_upd(mp_[0]) == e6.strip_upd(ln[0]):
                    # the k-th components summed straight from the list of pairs: sum(pairs.iter().map(|(l, a)| l)) / pairs.len()
                    Sc_ = Ev.loop_summaries.get("cl%s" % (mp_[1][1],))
                    lv_ = [q_ for q_ in (Sc_["paths"] if Sc_ else []) if q_.exit is None]
                    elc_ = ("elem", mp_[0], "cl%s" % (mp_[1][1],))
                    if Sc_ and len(lv_) == 1 and len(Sc_["paths"]) == 1 and not lv_[0].pc and not lv_[0].eff and e6.strip_upd(lv_[0].val) in (("proj", elc_, k_), ("un", "Deref", ("proj", elc_, k_))):
                        seqs.append(e6.strip_upd(mp_[0]))
                        good = True
                    else:
                        okm = False
                elif sm and ln and e6.strip_upd(sm[0]) == e6.strip_upd(ln[0]):
                    R_ = component(sm[0], k_, P_)
                    if R_ is not None:
                        seqs.append(R_)
                        good = True
                else:
                    okm = False
            else:
                okm = False
            oku = oku and good
        if len(seqs) == 2 and seqs[0] != seqs[1]:
            oku = False
    ctx.check("R12.2", "unzip", oku, "unzip", c.loc(fn), "(loss, acc) = results.into_iter().unzip()",
              "validate returns (%s): the two means must be taken over the first and the second components of the same per-sample results" % got)
    ctx.check("R12.2", "means", okm, "aggregation:" + short(got, 80), c.loc(fn), "(sum(loss)/len(loss), sum(acc)/len(acc))", "validate returns (%s)" % got)
    return inner, il, ipb


def _loss_call(e5, t):
    """args of `objective.loss(p, t)` when t is that call or its first component (the loss value)"""
    if isinstance(t, tuple) and t and t[0] == "proj" and t[2] == 0:
        t = t[1]
    return e5.is_call(t, "loss", 3)


def r3(ctx, inner=None, il=None, ipb=None):
    """accuracy rule, decided on the E6 summary of Network::validate: per sample, which value is reported as accuracy under
    which conditions on the last layer / its activation / the target length (independent of match-vs-if-let, helper
    extraction, early returns, branch order)."""
    c = ctx.crate
    fn = ctx.fn("network::Network::validate")
    from .. import e6 as e5
    E = e5.Exec(c, fn)
    E.run_fn()
    # the per-sample closure: its value is a pair whose first component is objective.loss(prediction, target)
    cand = []
    for lid, S in E.loop_summaries.items():
        if S.get("kind") != "closure":
            continue
        live = [p for p in S["paths"] if p.exit is None]
        if live and all(isinstance(p.val, tuple) and p.val[0] == "tup" and len(p.val[1]) == 2 and _loss_call(e5, p.val[1][0]) is not None for p in live):
            cand.append((lid, S))
    if len(cand) != 1:
        raise Unestablished("validate: expected one per-sample closure returning (loss, accuracy), found %d" % len(cand), c.loc(fn))
    lid, S = cand[0]
    where = c.loc(fn, S["node"])
    live = [p for p in S["paths"] if p.exit is None]
    la = _loss_call(e5, live[0].val[1][0])          # (objective, prediction, target)
    P, Tt = la[1], la[2]
    pa = e5.is_call(P, "predict", 2)
    ctx.check("R12.3", "loss-of-prediction-and-target", pa is not None and pa[0] == ("p", "self") and la[0] == ("field", ("p", "self"), "objective"), "loss-arguments:" + short(e5.show(live[0].val[1][0], 2), 80), where,
              "loss = self.objective.loss(&self.predict(input), target)")
    L = None
    ok_last, ok_soft, ok_tol = True, True, True
    n_soft = n_single = n_general = 0
    why = []
    for p in live:
        acc = p.val[1][1]
        facts = list(p.pc)
        dense = [(t, pol) for (t, pol) in facts if isinstance(t, tuple) and t[0] == "is" and t[2] == "network::Layer::Dense" and pol]
        if len(dense) != 1:
            ok_last = False
            why.append("a non-panicking path does not require the last layer to be Dense")
            continue
        L = dense[0][0][1]
        a1 = e5.is_call(L, "unwrap", 1)
        if not (a1 and e5.is_call(a1[0], "last", 1) and e5.is_call(a1[0], "last", 1)[0] == ("field", ("p", "self"), "layers")):
            ok_last = False
            why.append("selector is %s" % e5.show(L, 2))
        act = ("field", ("payload", L, "network::Layer::Dense", 0), "activation")
        soft = [pol for (t, pol) in facts if isinstance(t, tuple) and t[0] == "is" and t[1] == act and t[2] == "activation::Function::Softmax"]
        rest = [(t, pol) for (t, pol) in facts if not (isinstance(t, tuple) and t[0] == "is")]
        if soft and soft[0]:
            n_soft += 1
            want = e5.mk_bin("Eq", e5.mk_mcall("tensor::Tensor::argmax", "argmax", Tt, ()), e5.mk_mcall("tensor::Tensor::argmax", "argmax", P, ()))
            if not (len(rest) == 1 and rest[0][0] == want and acc == ("lit", "1.0" if rest[0][1] else "0.0")):
                ok_soft = False
                why.append("softmax path: %s => %s" % ([(e5.show(t, 2), pol) for (t, pol) in rest], e5.show(acc, 2)))
        elif soft:
            tf, pf = e5.mk_mcall("tensor::Tensor::get_flat", "get_flat", Tt, ()), e5.mk_mcall("tensor::Tensor::get_flat", "get_flat", P, ())
            is_one = e5.mk_bin("Eq", ("call", "std::vec::Vec::<T, A>::len", (tf,)), ("lit", "1"))
            one = [pol for (t, pol) in rest if t == is_one]
            other = [(t, pol) for (t, pol) in rest if t != is_one]
            if not one:
                ok_tol = False
                why.append("tolerance path without a test on the target length: %s" % [(e5.show(t, 2), pol) for (t, pol) in rest])
            elif one[0]:
                n_single += 1
                d1 = ("bin", "Sub", ("idx", pf, ("lit", "0")), ("idx", tf, ("lit", "0")))
                d2 = ("bin", "Sub", ("idx", tf, ("lit", "0")), ("idx", pf, ("lit", "0")))
                okk = len(other) == 1 and any(other[0][0] == e5.mk_bin("Lt", ("call", "core::f32::<impl f32>::abs", (d,)), ("p", "tol")) for d in (d1, d2)) \
                    and acc == ("lit", "1.0" if other[0][1] else "0.0")
                if not okk:
                    ok_tol = False
                    why.append("single-output path: %s => %s" % ([(e5.show(t, 2), pol) for (t, pol) in other], e5.show(acc, 2)))
            else:
                n_general += 1
                okk = False
                if not other and isinstance(acc, tuple) and acc[0] == "bin" and acc[1] == "Div":
                    num, den = acc[2], acc[3]
                    den_ok = isinstance(den, tuple) and den[0] == "cast" and den[1] == ("call", "std::vec::Vec::<T, A>::len", (tf,)) and den[2] == "f32"
                    sm = e5.is_call(num, "sum", 1)
                    mp = e5.is_call(sm[0], "map", 2) if sm else None
                    zp = e5.is_call(mp[0], "zip", 2) if mp else None
                    if den_ok and zp and set(zp) == {tf, pf} and isinstance(mp[1], tuple) and mp[1][0] == "closure":
                        CS = E.loop_summaries.get("cl%s" % mp[1][1])
                        if CS:
                            el = ("elem", CS["recv"], "cl%s" % mp[1][1])
                            d1 = ("bin", "Sub", e5.mk_proj(el, 0), e5.mk_proj(el, 1))
                            d2 = ("bin", "Sub", e5.mk_proj(el, 1), e5.mk_proj(el, 0))
                            tests = [e5.mk_bin("Lt", ("call", "core::f32::<impl f32>::abs", (d,)), ("p", "tol")) for d in (d1, d2)]
                            cps = [q for q in CS["paths"] if q.exit is None]
                            okk = len(cps) == 2 and all(len(q.pc) == 1 and q.pc[0][0] in tests and q.val == ("lit", "1.0" if q.pc[0][1] else "0.0") for q in cps)
                if not okk:
                    ok_tol = False
                    why.append("multi-output path: accuracy = %s" % short(e5.show(acc, 3), 200))
        else:
            ok_last = False
            why.append("a path does not depend on the last layer's activation")
    ctx.check("R12.3", "selected-by-last-layer", ok_last and L is not None, "accuracy-selector", where, "the last layer must be Dense (other kinds are rejected); its activation selects the rule",
              "; ".join(why))
    ctx.check("R12.3", "selected-by-activation", n_soft >= 1 and (n_single + n_general) >= 1, "activation-selector", where, "Softmax => argmax agreement, otherwise tolerance rule")
    ctx.check("R12.3", "softmax-argmax-agreement", ok_soft and n_soft == 2, "softmax-accuracy:" + short("; ".join(w for w in why if w.startswith("softmax")), 100), where,
              "1 iff argmax(target) == argmax(prediction)", "; ".join(why))
    ctx.check("R12.3", "tolerance-rule", ok_tol and n_single == 2 and n_general == 1, "tolerance-accuracy:" + short("; ".join(w for w in why if not w.startswith("softmax")), 100), where,
              "single output: [|p-t| < tol]; otherwise mean over components of [|t-p| < tol] (strict)", "; ".join(why))
    fa = ctx.fn("tensor::Tensor::argmax")
    # on the E6 summary: one result path (data is Single = d): enumerate(d).max_by(|l, r| l.1.partial_cmp(r.1).unwrap()).unwrap().0
    Ea = e5.Exec(c, fa)
    la = [p_ for p_ in Ea.run_fn() if p_.exit is None or p_.exit[0] == "return"]
    ok = False
    t = "?"
    DATA_ = ("field", ("p", "self"), "data")
    if len(la) == 1 and la[0].pc == ((("is", DATA_, "tensor::Data::Single"), True),):
        va = la[0].val if la[0].exit is None else la[0].exit[1]
        t = e5.show(va, 3)
        d_ = ("payload", DATA_, "tensor::Data::Single", 0)
        if isinstance(va, tuple) and va[0] == "proj" and va[2] == 0:
            u_ = e5.is_call(va[1], "unwrap", 1) or e5.is_call(va[1], "expect")
            mb = e5.is_call(u_[0], "max_by", 2) if u_ else None
            if mb and mb[0] == ("call", "std::iter::Iterator::enumerate", (d_,)) and isinstance(mb[1], tuple) and mb[1][0] == "closure":
                CS = Ea.loop_summaries.get("cl%s" % mb[1][1])
                if CS and len(CS["paths"]) == 1 and not CS["paths"][0].pc and CS["paths"][0].exit is None and not CS["paths"][0].eff:
                    el_ = ("elem", CS["recv"], "cl%s" % mb[1][1])
                    cv = CS["paths"][0].val
                    uc = e5.is_call(cv, "unwrap", 1) or e5.is_call(cv, "expect")
                    pc_ = e5.is_call(uc[0], "partial_cmp", 2) if uc else None
                    ok = pc_ is not None and pc_ == (("proj", ("proj", el_, 0), 1), ("proj", ("proj", el_, 1), 1)) and not la[0].eff[1:] 
    ctx.check("R12.3", "argmax-definition", ok, "argmax:" + short(t, 100), c.loc(fa), "index of a maximum under partial_cmp")


def _tail(n):
    n = strip(n)
    while n is not None and n.get("k") == "blk" and not n["b"]["stmts"]:
        n = strip(n["b"]["tail"])
    return n


def run(ctx):
    ctx.guard("R12.1", "predict", r1, ctx)
    r = ctx.guard("R12.2", "validate", r2, ctx)
    ctx.guard("R12.3", "accuracy", r3, ctx)
    ctx.floor("R12.1", 3, "")
    ctx.floor("R12.2", 7, "")
    ctx.floor("R12.3", 5, "")
