"""C07 - activations: defined function, exact derivative, total on finite floats; soft-max structure."""
from fractions import Fraction as Fr

from ..core import Unestablished
from ..hir import walk, strip, pretty, short, calls, pat_binds
from .. import e1, e2, e4, arms
from ..e1 import Rat, fn_atom, ite, cmp_atom, rewrite, diff, r_max
from ..e2 import AV, INF
from ..extract import Unrecognised

LEVEL = "other"
RULES = {
    "R07.1": "definition agreement: per-element expression of ReLU max(v,0), leaky ReLU (v>0 ? v : alpha*v with alpha = literal 0.01 "
             "set in Function::create), sigmoid 1/(1+exp(-v)), tanh, identity - forward and backward - equals the definition (canonical form)",
    "R07.2": "backward is the symbolic derivative of forward (sigmoid via E=exp(-v); tanh via cosh^2-sinh^2=1; piecewise functions "
             "branch-wise away from the kink)",
    "R07.3": "Single and Triple arms are the same scalar function, traverse every element in order (map/extend idiom), and the "
             "result's shape literal is built from the input's own dimensions (len(), [0].len(), [0][0].len())",
    "R07.4": "totality/range (interval analysis over all finite inputs at once, by monotonicity): no NaN, no infinity; sigmoid in "
             "[0,1]; tanh in [-1,1]; tanh' = 1/cosh^2 in [0,1]; sigmoid' in [0,1]",
    "R07.5": "soft-max structure: m = fold(f32::max) from -inf over the same flattened vector; every exponent is exp(x_i - m) "
             "(argument <= 0, so no overflow; the maximal element contributes exp(0)=1, so the denominator is >= 1); one sum over "
             "exactly the exponents that are output; y_i = e_i / sum in order; result reshaped to the input's shape",
    "R07.6": "activation::Function::forward/backward dispatch every variant to its own implementation with the same argument",
}
ASSUMPTIONS = ["libm accuracy of exp/tanh/cosh is not decided (monotone, correctly signed results assumed)",
               "equalities are over the reals; `sum = 1` up to rounding is not decided"]
TRUSTED = ["rustc nightly front end", "driver/src/main.rs", "sa/extract.py", "sa/e1.py", "sa/e2.py"]

ACT = "activation::"
v = Rat.atom("r0")
ALPHA = Rat.atom("self.alpha")


def spec(kind, direction):
    gt = cmp_atom("Gt", v, 0)
    if kind == "ReLU":
        return r_max(v, 0) if direction == "forward" else ite(gt, 1, 0)
    if kind == "LeakyReLU":
        return ite(gt, v, ALPHA * v) if direction == "forward" else ite(gt, 1, ALPHA)
    if kind == "Sigmoid":
        y = 1 / (1 + fn_atom("exp", -v))
        return y if direction == "forward" else y * (1 - y)
    if kind == "Tanh":
        return fn_atom("tanh", v) if direction == "forward" else 1 / (fn_atom("cosh", v) ** 2)


def hyp_norm(x):
    """tanh -> sinh/cosh, then sinh^2 -> cosh^2 - 1 (the one identity)."""
    def r1(name, args, atom):
        if name == "tanh":
            return fn_atom("sinh", args[0]) / fn_atom("cosh", args[0])
        return None
    x = rewrite(x, r1)

    def poly(p):
        tot = Rat.const(0)
        for m, c in p.items():
            t = Rat.const(c)
            for a_, e in m:
                if a_.startswith("sinh(") and a_ in e1.REG:
                    ch = fn_atom("cosh", e1.REG[a_][1][0])
                    t = t * ((ch * ch - 1) ** (e // 2)) * (Rat.atom(a_) ** (e % 2))
                else:
                    t = t * (Rat.atom(a_) ** e)
            tot = tot + t
        return tot
    return poly(x.n) / poly(x.d)


def elementwise(ctx, kind, direction):
    c = ctx.crate
    fn = ctx.fn(ACT + kind + "::" + direction)
    m = arms.data_match(fn["body"])
    if m is None:
        raise Unestablished("no rank dispatch in %s::%s" % (kind, direction), c.loc(fn))
    sp = spec(kind, direction)
    arms.guarded_arms(ctx, "R07.3", fn, m, "%s::%s" % (kind, direction))
    vals = {}
    bodies = {}
    for ra in arms.rank_arms(m, ["r0"]):
        rank = ra["rank"]
        inst = "%s::%s:%s" % (kind, direction, rank)
        where = c.loc(fn, ra["arm"]["body"])
        depth = {"Single": 1, "Triple": 3}.get(rank)
        if depth is None:
            ctx.bad("R07.3", inst, "unexpected-rank-arm", where, "")
            continue
        try:
            sem, r = arms.arm_semantics(c, ra, env=arms.fn_level_env(c, fn, upto=m))
        except (Unrecognised, ValueError) as e:
            ctx.bad("R07.3", inst, "arm-not-recognised-as-elementwise", where, "cannot establish an every-element, in-order map: %s" % e)
            continue
        if r.levels != depth or len(sem) != 1 or sem[0][0] or "<value>" not in sem[0][1]:
            ctx.bad("R07.3", inst, "unexpected-arm-structure", where, "levels=%d guards=%s" % (r.levels, [g for g, _ in sem]))
            continue
        val = sem[0][1]["<value>"]
        vals[rank] = val
        bodies[rank] = (r, ra)
        ctx.check("R07.1", inst, val == sp, "differs-from-definition:" + short(str(val), 100), where, "elem = %s" % short(str(val), 100),
                  "%s::%s (%s arm) computes `%s`, definition `%s`" % (kind, direction, rank, val, sp))
        # shape literal from the input's own dims
        lit = [x for x in walk(ra["arm"]["body"]) if x.get("k") == "struct" and x["path"].endswith("tensor::Tensor")]
        ok_shape = False
        if lit:
            fs = dict((a_, e_) for a_, e_ in lit[-1]["fs"])
            env = arms.fn_level_env(c, {"body": ra["arm"]["body"]})
            root = list(ra["roots"].items())[0]
            N = e1.Norm(c, env)
            got = [str(N.norm(z)) for z in strip(fs["shape"])["args"]] if strip(fs["shape"]).get("k") == "call" else []
            dn = pretty({"k": "local", "name": "D"})
            base = [k_ for k_, nm in ra["roots"].items()][0]
            bname = [x["name"] for x in walk(ra["arm"]["body"]) if x.get("k") == "local" and x["hid"] == base][:1]
            b = bname[0] if bname else "data"
            want = ["len(%s)" % b, "len(%s[0])" % b, "len(%s[0][0])" % b][:depth]
            ok_shape = got == want and strip(fs["shape"])["callee"] == "tensor::Shape::" + rank and strip(fs["data"])["callee"] == "tensor::Data::" + rank
            ctx.check("R07.3", inst + ":shape", ok_shape, "output-shape-not-input-dims:" + ",".join(got), where, "shape = %s(%s)" % (rank, ", ".join(got)))
        else:
            ctx.bad("R07.3", inst + ":shape", "no-tensor-literal", where, "")
    for rank in ("Single", "Triple"):
        if rank not in vals and not any(o["instance"].startswith("%s::%s:%s" % (kind, direction, rank)) for o in ctx.obligations):
            ctx.bad("R07.3", "%s::%s:%s" % (kind, direction, rank), "rank-not-supported", c.loc(fn, m), "")
    if len(vals) == 2:
        ctx.check("R07.3", "%s::%s:siblings" % (kind, direction), vals["Single"] == vals["Triple"], "single-and-triple-arms-differ", c.loc(fn, m),
                  "", "Single: %s ; Triple: %s" % (vals["Single"], vals["Triple"]))
    return fn, vals, bodies


def derivative(ctx, kind, fwd, bwd):
    inst = kind
    f, b = fwd.get("Single"), bwd.get("Single")
    if f is None or b is None:
        ctx.unest("R07.2", inst, "missing forward/backward expression")
        return
    gt = cmp_atom("Gt", v, 0)
    cases = [None]
    if kind in ("ReLU", "LeakyReLU"):
        cases = [True, False]
    ok, why = True, ""
    for cs in cases:
        def rule(name, args, atom, cs=cs):
            if cs is None:
                return None
            if name == "ite" and args[0] == gt:
                return args[1] if cs else args[2]
            if name == "max" and sorted(map(str, args)) == sorted(["0", "r0"]):
                return v if cs else Rat.const(0)
            return None
        ff, bb = rewrite(f, rule), rewrite(b, rule)
        try:
            d = diff(ff, "r0")
        except ValueError as e:
            ok, why = False, str(e)
            break
        if hyp_norm(d) != hyp_norm(bb):
            ok, why = False, "case %s: d forward/dv = %s but backward = %s" % ({None: "-", True: "v>0", False: "v<0"}[cs], d, bb)
    ctx.check("R07.2", inst, ok, "backward-is-not-derivative-of-forward", "activation::%s" % kind, "backward = d forward / dv", "%s: %s" % (kind, why))


def totality(ctx, kind, direction, fn, bodies):
    c = ctx.crate
    for rank, (r, ra) in sorted(bodies.items()):
        inst0 = "%s::%s:%s" % (kind, direction, rank)
        n_ob = [0]

        def ob(kind_, ok, node, detail):
            n_ob[0] += 1
            if not ok:
                ctx.bad("R07.4", "%s:%s#%d" % (inst0, kind_, n_ob[0]), kind_ + "-not-discharged", c.loc(fn, node), detail)
        ev = e2.Eval(c, {}, {"alpha": AV(Fr(1, 100), Fr(1, 100))}, ob)
        cn = r.cellname(c)
        ev.cellkey = cn
        ev.cells = {"r0": AV(-e2.F32_MAX, e2.F32_MAX)}
        try:
            e2.eval_fn_lets(ev, fn, None)
            res = ev.eval(r.body)
        except ValueError as e:
            ctx.unest("R07.4", inst0, "abstract interpreter: %s" % e, c.loc(fn, r.body))
            continue
        rng = {("Sigmoid", "forward"): (0, 1), ("Sigmoid", "backward"): (0, 1), ("Tanh", "forward"): (-1, 1), ("Tanh", "backward"): (0, 1),
               ("ReLU", "backward"): (0, 1), ("LeakyReLU", "backward"): (0, 1)}.get((kind, direction))
        ok = not res.nan and res.lo != -INF and res.hi != INF
        if rng:
            ok = ok and res.lo >= rng[0] and res.hi <= rng[1]
        ctx.check("R07.4", inst0, ok, "not-total-or-out-of-range:" + repr(res), c.loc(fn, r.body),
                  "for every finite input: result in %r%s" % (res, " within %s" % (rng,) if rng else ""),
                  "%s::%s on finite inputs yields %r%s" % (kind, direction, res, ", required range %s" % (rng,) if rng else ""))


def linear(ctx):
    c = ctx.crate
    fn = ctx.fn(ACT + "Linear::forward")
    b = strip(fn["body"])
    while b.get("k") == "blk" and not b["b"]["stmts"]:
        b = strip(b["b"]["tail"])
    ph = pat_binds(fn["params"][1])[0][1]
    ctx.check("R07.1", "Linear::forward", b.get("k") == "mcall" and b["name"] == "clone" and e4.local_hid(b["recv"]) == ph, "identity-forward-not-clone",
              c.loc(fn), "forward = input.clone()")
    fn = ctx.fn(ACT + "Linear::backward")
    b = strip(fn["body"])
    while b.get("k") == "blk" and not b["b"]["stmts"]:
        b = strip(b["b"]["tail"])
    ph = pat_binds(fn["params"][1])[0][1]
    ok = b.get("k") == "call" and b["callee"] == "tensor::Tensor::ones" and pretty(strip(b["args"][0])) == "%s.shape.clone()" % fn["params"][1]["name"]
    ctx.check("R07.1", "Linear::backward", ok, "identity-backward-not-ones", c.loc(fn), "backward = ones(input.shape)")
    # Tensor::ones fills with literal 1.0 in every arm
    fo = ctx.fn("tensor::Tensor::ones")
    lits = {x["v"] for x in walk(fo["body"]) if x.get("k") == "lit" and c.ty(x) == "f32"}
    ctx.check("R07.1", "Tensor::ones", lits == {"1.0"}, "ones-fills-with:" + ",".join(sorted(lits)), c.loc(fo), "Tensor::ones fills 1.0")
    from . import c14
    sub = type(ctx)(ctx.prop, ctx.facts)
    sub.guard("R14.3", "constructors", c14.r3_constructors, sub)
    bad = [o for o in sub.obligations if o["status"] != "ok" and o["instance"].startswith("ones")]
    ctx.check("R07.1", "Tensor::ones-dims", not bad, "ones-dims:" + ",".join(o["instance"] for o in bad), c.loc(fo), "ones(shape) has the shape's own dimensions in order (identity derivative keeps the input's shape)")
    # leaky slope literal
    fc = ctx.fn(ACT + "Function::create")
    sl = [x for x in walk(fc["body"]) if x.get("k") == "struct" and x["path"].endswith("activation::LeakyReLU")]
    val = e4.lit_value(dict((a_, e_) for a_, e_ in sl[0]["fs"]).get("alpha")) if sl else None
    ctx.check("R07.1", "LeakyReLU:slope", val == "0.01", "leaky-slope:" + str(val), c.loc(fc), "alpha = 0.01")
    wr = [(mk, w) for mk, mv in c.mir.items() for w in mv["facts"]["writes"] + mv["facts"]["mutborrows"] if w["adt"] == "activation::LeakyReLU"]
    ctx.check("R07.1", "LeakyReLU:slope-immutable", not wr, "leaky-slope-written", "crate", "alpha is never written after construction")


def softmax(ctx):
    c = ctx.crate
    fn = ctx.fn(ACT + "Softmax::forward")
    b = fn["body"]
    while b.get("k") == "blk":
        b = b["b"]
    inp = pat_binds(fn["params"][1])[0][1]
    lets = {}
    for s in b["stmts"]:
        if s.get("k") == "let" and s["pat"].get("k") == "bind":
            lets[s["pat"]["hid"]] = (s["pat"]["name"], s["init"])
    # x = input.get_flat()
    xh = [h for h, (nm, init) in lets.items() if init is not None and strip(init).get("k") == "mcall" and strip(init)["callee"] == "tensor::Tensor::get_flat"
          and e4.local_hid(strip(init)["recv"]) == inp]
    if len(xh) != 1:
        raise Unestablished("soft-max: no `x = input.get_flat()`", c.loc(fn))
    xh = xh[0]
    # max = x.iter().cloned().fold(NEG_INFINITY, f32::max)
    mh = None
    for h, (nm, init) in lets.items():
        i = strip(init) if init is not None else None
        if i is not None and i.get("k") == "mcall" and i["name"] == "fold":
            src = strip(i["recv"])
            chain = []
            while src.get("k") == "mcall":
                chain.append(src["name"])
                src = strip(src["recv"])
            a0, a1 = strip(i["args"][0]), strip(i["args"][1])
            ok = (e4.local_hid(src) == xh and set(chain) <= {"iter", "cloned", "copied"} and "iter" in chain
                  and a0.get("k") == "path" and a0["def"].endswith("NEG_INFINITY") and a1.get("k") == "path" and a1["def"].endswith("f32>::max"))
            ctx.check("R07.5", "max-fold", ok, "max-not-fold-of-f32-max-from-neg-inf", c.loc(fn, i), "m = x.iter().cloned().fold(-inf, f32::max)",
                      "the shift is computed as %s" % short(pretty(i), 120))
            if ok:
                mh = h
    if mh is None and not any(o["instance"] == "max-fold" for o in ctx.obligations):
        # loop form: let mut m = -inf; for &v in x.iter() { m = m.max(v) | f32::max(m, v) | if v > m { m = v } }
        for h, (nm, init) in lets.items():
            i = strip(init) if init is not None else None
            if i is None or not (i.get("k") == "path" and i["def"].endswith("NEG_INFINITY")):
                continue
            for s_ in b["stmts"]:
                if s_.get("k") != "for":
                    continue
                it_ = strip(s_["iter"])
                names_ = []
                src_ = it_
                while src_.get("k") == "mcall":
                    names_.append(src_["name"])
                    src_ = strip(src_["recv"])
                if not (e4.local_hid(src_) == xh and set(names_) <= {"iter", "cloned", "copied"} and "iter" in names_):
                    continue
                vb = pat_binds(s_["pat"])
                asg = [y for y in walk(s_["body"]) if y.get("k") == "assign" and e4.local_hid(y["l"]) == h]
                if len(vb) != 1 or len(asg) != 1:
                    continue
                r_ = strip(asg[0]["r"])
                ok_ = False
                if r_.get("k") in ("mcall", "call") and (r_.get("name") == "max" or r_.get("callee", "").endswith("f32>::max")):
                    ops = ([r_["recv"]] + list(r_["args"])) if r_["k"] == "mcall" else list(r_["args"])
                    ok_ = sorted(str(e4.local_hid(o_)) for o_ in ops) == sorted([str(h), str(vb[0][1])])
                elif e4.local_hid(r_) == vb[0][1]:
                    from .c13 import enclosing_conditions
                    cs_ = enclosing_conditions(s_["body"], asg[0]) or []
                    if len(cs_) == 1 and cs_[0][1] == "th":
                        cn_ = strip(cs_[0][0]["c"])
                        N_ = e1.Norm(c, {h: Rat.atom("m"), vb[0][1]: Rat.atom("v")})
                        try:
                            ok_ = str(N_.norm(cn_)) in (e1.cmp_atom("Gt", Rat.atom("v"), Rat.atom("m")), e1.cmp_atom("Ge", Rat.atom("v"), Rat.atom("m")))
                        except ValueError:
                            ok_ = False
                outs_ = e4.outcomes(c, s_["body"], lambda n_: False)
                if ok_ and all(k_ == e4.FALL for (k_, _) in outs_):
                    ctx.ok("R07.5", "max-fold", "m = running f32::max over x starting from -inf (loop form)", c.loc(fn, s_))
                    mh = h
    if mh is None:
        if not any(o["instance"] == "max-fold" for o in ctx.obligations):
            ctx.bad("R07.5", "max-fold", "no-max-subtraction", c.loc(fn), "soft-max computes no maximum of its inputs: exp overflows for large inputs")
        return
    loops = [s for s in b["stmts"] if s.get("k") == "for" and any(y.get("k") == "mcall" and y["name"] == "exp" for y in walk(s["body"]))]
    if len(loops) != 1:
        raise Unestablished("soft-max: expected one accumulation loop", c.loc(fn))
    lp = loops[0]
    it = strip(lp["iter"])
    ctx.check("R07.5", "loop-over-x", it.get("k") == "mcall" and it["name"] == "iter" and e4.local_hid(it["recv"]) == xh, "loop-not-over-x", c.loc(fn, lp), "for &v in x.iter()")
    vh = pat_binds(lp["pat"])[0][1]
    body = strip(lp["body"])["b"]
    el = [s for s in body["stmts"] if s.get("k") == "let"]
    eh = None
    for s in el:
        i = strip(s["init"])
        if i.get("k") == "mcall" and i["name"] == "exp":
            from ..hir import resolve as _resolve, let_table as _let_table
            arg = _resolve(i["recv"], _let_table(lp["body"]))        # `let shifted = v - max; shifted.exp()`
            ok = arg.get("k") == "bin" and arg["op"] == "Sub" and e4.local_hid(arg["l"]) == vh and e4.local_hid(arg["r"]) == mh
            ctx.check("R07.5", "exp-argument", ok, "exp-argument-not-x-minus-max:" + short(pretty(arg), 40), c.loc(fn, i), "exp(v - max)",
                      "exponent is exp(%s); without subtracting the maximum exp overflows to inf for large inputs and inf/inf = NaN" % pretty(arg))
            eh = s["pat"]["hid"]
    if eh is None:
        ctx.bad("R07.5", "exp-argument", "no-exp-in-loop", c.loc(fn, lp), "")
        return
    sums = [x for x in walk(lp["body"]) if x.get("k") == "assignop" and x["op"].startswith("Add") and e4.local_hid(x["r"]) == eh]
    pushes = [x for x in walk(lp["body"]) if x.get("k") == "mcall" and x["name"] == "push" and e4.local_hid(x["args"][0]) == eh]
    ctx.check("R07.5", "sum-and-push-same-exponent", len(sums) == 1 and len(pushes) == 1, "sum-or-push-mismatch", c.loc(fn, lp),
              "sum += exp; exps.push(exp)")
    outs = e4.outcomes(c, lp["body"], lambda n: n is (sums[0] if sums else None))
    ctx.check("R07.5", "loop-no-early-exit", all(k == e4.FALL and cnt == 1 for (k, cnt) in outs), "early-exit-or-conditional-sum", c.loc(fn, lp), "every element contributes once")
    if not sums or not pushes:
        return
    sh = e4.local_hid(sums[0]["l"])
    exh = e4.local_hid(pushes[0]["recv"])
    init_sum = lets.get(sh, (None, None))[1]
    ctx.check("R07.5", "sum-starts-at-zero", init_sum is not None and e4.lit_value(init_sum) == "0.0", "sum-initial-value", c.loc(fn), "sum = 0.0")
    # y = exps.iter().map(|&v| v / sum).collect()
    ok = False
    yh = None
    for h, (nm, init) in lets.items():
        i = strip(init) if init is not None else None
        if i is not None and i.get("k") == "mcall" and i["name"] == "collect":
            mp = strip(i["recv"])
            if mp.get("k") == "mcall" and mp["name"] == "map":
                src = strip(mp["recv"])
                cl = strip(mp["args"][0])
                if src.get("k") == "mcall" and src["name"] == "iter" and e4.local_hid(src["recv"]) == exh:
                    pv = pat_binds(cl["params"][0])[0][1]
                    bd = strip(cl["body"])
                    while bd.get("k") == "blk" and not bd["b"]["stmts"]:
                        bd = strip(bd["b"]["tail"])
                    ok = bd.get("k") == "bin" and bd["op"] == "Div" and e4.local_hid(bd["l"]) == pv and e4.local_hid(bd["r"]) == sh
                    yh = h
    if not ok:
        # loop form: `for &e in exps.iter() { y.push(e / sum) }` into a freshly created empty vector
        for s_ in b["stmts"]:
            s_ = strip(s_)
            if s_ is None or s_.get("k") != "for" or s_ is lp:
                continue
            src = strip(s_["iter"])
            if not (src.get("k") == "mcall" and src["name"] == "iter" and e4.local_hid(src["recv"]) == exh):
                continue
            pb = pat_binds(s_["pat"])
            bd = strip(s_["body"])
            while bd is not None and bd.get("k") == "blk" and not bd["b"]["stmts"]:
                bd = strip(bd["b"]["tail"])
            if bd is not None and bd.get("k") == "blk" and len(bd["b"]["stmts"]) == 1 and bd["b"]["tail"] is None:
                bd = strip(bd["b"]["stmts"][0])
            if len(pb) != 1 or bd is None or bd.get("k") != "mcall" or bd["name"] != "push":
                continue
            dv = strip(bd["args"][0])
            th = e4.local_hid(bd["recv"])
            init_y = lets.get(th, (None, None))[1]
            iy = strip(init_y) if init_y is not None else None
            empty = iy is not None and iy.get("k") == "call" and iy["callee"].split("::")[-1] in ("new", "with_capacity") and "Vec" in iy["callee"]
            other = [x for x in walk(fn["body"]) if x.get("k") == "mcall" and x is not bd and e4.local_hid(x.get("recv")) == th
                     and x["name"] not in ("len", "iter", "clone")]
            if (empty and not other and dv.get("k") == "bin" and dv["op"] == "Div" and e4.local_hid(dv["l"]) == pb[0][1]
                    and e4.local_hid(dv["r"]) == sh):
                ok = True
                yh = th
    ctx.check("R07.5", "normalisation", ok, "outputs-not-exp-over-sum", c.loc(fn), "y_i = e_i / sum, in order")
    t = strip(b["tail"]) if b["tail"] is not None else None
    from ..hir import cpretty as _cpretty, let_table as _let_table2
    okr = (t is not None and t.get("k") == "mcall" and t["callee"] == "tensor::Tensor::reshape" and _cpretty(strip(t["args"][0]), _let_table2(fn["body"])) == "%s.shape.clone()" % fn["params"][1]["name"]
           and strip(t["recv"]).get("k") == "call" and strip(t["recv"])["callee"] == "tensor::Tensor::single" and e4.local_hid(strip(t["recv"])["args"][0]) == yh)
    ctx.check("R07.5", "reshape-to-input-shape", okr, "result-not-reshaped-to-input-shape", c.loc(fn), "Tensor::single(y).reshape(input.shape)")


def dispatch(ctx):
    c = ctx.crate
    for d in ("forward", "backward"):
        fn = ctx.fn(ACT + "Function::" + d)
        ph = pat_binds(fn["params"][1])[0][1]
        m = [x for x in walk(fn["body"]) if x.get("k") == "match"][0]
        seen = set()
        for arm in m["arms"]:
            vp, binds = e4.arm_variant(arm)
            kind = vp.split("::")[-1]
            seen.add(kind)
            cs = [x for x in walk(arm["body"]) if x.get("k") == "mcall" and x["callee"].startswith(ACT)]
            ok = len(cs) == 1 and cs[0]["callee"] == ACT + kind + "::" + d and e4.local_hid(cs[0]["args"][0]) == ph and binds and e4.local_hid(cs[0]["recv"]) == binds[0][1]
            ctx.check("R07.6", "%s:%s" % (d, kind), ok, "dispatches-to:" + ",".join(x["callee"] for x in cs), c.loc(fn, arm["body"]), "-> %s::%s(input)" % (kind, d))
        want = {vv["name"] for vv in c.adts["activation::Function"]["variants"]}
        for k in sorted(want - seen):
            ctx.bad("R07.6", "%s:%s" % (d, k), "variant-not-dispatched", c.loc(fn), "")
    ctx.floor("R07.6", 12, "6 variants x forward/backward")


def run(ctx):
    for kind in ("ReLU", "LeakyReLU", "Sigmoid", "Tanh"):
        res = {}
        for d in ("forward", "backward"):
            r = ctx.guard("R07.1", "%s::%s" % (kind, d), elementwise, ctx, kind, d)
            if r:
                res[d] = r
                ctx.guard("R07.4", "%s::%s" % (kind, d), totality, ctx, kind, d, r[0], r[2])
        if len(res) == 2:
            ctx.guard("R07.2", kind, derivative, ctx, kind, res["forward"][1], res["backward"][1])
    ctx.guard("R07.1", "Linear", linear, ctx)
    ctx.guard("R07.5", "softmax", softmax, ctx)
    ctx.guard("R07.6", "dispatch", dispatch, ctx)
    ctx.floor("R07.1", 16 + 6, "16 arms + identity/ones/slope facts")
    ctx.floor("R07.2", 4, "four differentiable activations")
    ctx.floor("R07.3", 16 + 8, "16 shape literals + 8 sibling comparisons")
    ctx.floor("R07.4", 16, "16 arms")
    ctx.floor("R07.5", 8, "soft-max structure facts")
