"""C07 - activations: defined function, exact derivative, total on finite floats; soft-max structure."""
from fractions import Fraction as Fr

from ..core import Unestablished
from ..hir import walk, strip, pretty, short, calls, pat_binds
from .. import e1, e2, e4, arms
from ..e1 import Rat, fn_atom, ite, cmp_atom, rewrite, diff, r_max
from ..e2 import AV, INF
from ..extract import Unrecognised

LEVEL = "other"
RULES = {
    "R07.1": "definition agreement: per-element expression of ReLU max(v,0), leaky ReLU (v>0 ? v : alpha*v with alpha = literal 0.01 "
             "set in Function::create), sigmoid 1/(1+exp(-v)), tanh, identity - forward and backward - equals the definition (canonical form)",
    "R07.2": "backward is the symbolic derivative of forward (sigmoid via E=exp(-v); tanh via cosh^2-sinh^2=1; piecewise functions "
             "branch-wise away from the kink)",
    "R07.3": "Single and Triple arms are the same scalar function, traverse every element in order (map/extend idiom), and the "
             "result's shape literal is built from the input's own dimensions (len(), [0].len(), [0][0].len())",
    "R07.4": "totality/range (interval analysis over all finite inputs at once, by monotonicity): no NaN, no infinity; sigmoid in "
             "[0,1]; tanh in [-1,1]; tanh' = 1/cosh^2 in [0,1]; sigmoid' in [0,1]",
    "R07.5": "soft-max structure: m = fold(f32::max) from -inf over the same flattened vector; every exponent is exp(x_i - m) "
             "(argument <= 0, so no overflow; the maximal element contributes exp(0)=1, so the denominator is >= 1); one sum over "
             "exactly the exponents that are output; y_i = e_i / sum in order; result reshaped to the input's shape",
    "R07.6": "activation::Function::forward/backward dispatch every variant to its own implementation with the same argument",
}
ASSUMPTIONS = ["libm accuracy of exp/tanh/cosh is not decided (monotone, correctly signed results assumed)",
               "equalities are over the reals; `sum = 1` up to rounding is not decided"]
TRUSTED = ["rustc nightly front end", "driver/src/main.rs", "sa/extract.py", "sa/e1.py", "sa/e2.py"]

ACT = "activation::"
v = Rat.atom("r0")
ALPHA = Rat.atom("self.alpha")


def spec(kind, direction):
    gt = cmp_atom("Gt", v, 0)
    if kind == "ReLU":
        return r_max(v, 0) if direction == "forward" else ite(gt, 1, 0)
    if kind == "LeakyReLU":
        return ite(gt, v, ALPHA * v) if direction == "forward" else ite(gt, 1, ALPHA)
    if kind == "Sigmoid":
        y = 1 / (1 + fn_atom("exp", -v))
        return y if direction == "forward" else y * (1 - y)
    if kind == "Tanh":
        return fn_atom("tanh", v) if direction == "forward" else 1 / (fn_atom("cosh", v) ** 2)


def hyp_norm(x):
    """tanh -> sinh/cosh, then sinh^2 -> cosh^2 - 1 (the one identity)."""
    def r1(name, args, atom):
        if name == "tanh":
            return fn_atom("sinh", args[0]) / fn_atom("cosh", args[0])
        return None
    x = rewrite(x, r1)

    def poly(p):
        tot = Rat.const(0)
        for m, c in p.items():
            t = Rat.const(c)
            for a_, e in m:
                if a_.startswith("sinh(") and a_ in e1.REG:
                    ch = fn_atom("cosh", e1.REG[a_][1][0])
                    t = t * ((ch * ch - 1) ** (e // 2)) * (Rat.atom(a_) ** (e % 2))
                else:
                    t = t * (Rat.atom(a_) ** e)
            tot = tot + t
        return tot
    return poly(x.n) / poly(x.d)


def elementwise(ctx, kind, direction):
    c = ctx.crate
    fn = ctx.fn(ACT + kind + "::" + direction)
    m = arms.data_match(fn["body"])
    if m is None:
        raise Unestablished("no rank dispatch in %s::%s" % (kind, direction), c.loc(fn))
    sp = spec(kind, direction)
    arms.guarded_arms(ctx, "R07.3", fn, m, "%s::%s" % (kind, direction))
    vals = {}
    bodies = {}
    for ra in arms.rank_arms(m, ["r0"]):
        rank = ra["rank"]
        inst = "%s::%s:%s" % (kind, direction, rank)
        where = c.loc(fn, ra["arm"]["body"])
        depth = {"Single": 1, "Triple": 3}.get(rank)
        if depth is None:
            ctx.bad("R07.3", inst, "unexpected-rank-arm", where, "")
            continue
        try:
            sem, r = arms.arm_semantics(c, ra, env=arms.fn_level_env(c, fn, upto=m))
        except (Unrecognised, ValueError) as e:
            ctx.bad("R07.3", inst, "arm-not-recognised-as-elementwise", where, "cannot establish an every-element, in-order map: %s" % e)
            continue
        if r.levels != depth or len(sem) != 1 or sem[0][0] or "<value>" not in sem[0][1]:
            ctx.bad("R07.3", inst, "unexpected-arm-structure", where, "levels=%d guards=%s" % (r.levels, [g for g, _ in sem]))
            continue
        val = sem[0][1]["<value>"]
        vals[rank] = val
        bodies[rank] = (r, ra)
        ctx.check("R07.1", inst, val == sp, "differs-from-definition:" + short(str(val), 100), where, "elem = %s" % short(str(val), 100),
                  "%s::%s (%s arm) computes `%s`, definition `%s`" % (kind, direction, rank, val, sp))
        # shape literal from the input's own dims
        lit = [x for x in walk(ra["arm"]["body"]) if x.get("k") == "struct" and x["path"].endswith("tensor::Tensor")]
        ok_shape = False
        if lit:
            fs = dict((a_, e_) for a_, e_ in lit[-1]["fs"])
            env = arms.fn_level_env(c, {"body": ra["arm"]["body"]})
            root = list(ra["roots"].items())[0]
            N = e1.Norm(c, env)
            from ..hir import resolve as _resolve, let_table as _let_table
            _lt = _let_table(ra["arm"]["body"])
            for key_ in ("shape", "data"):
                if strip(fs[key_]).get("k") == "local":
                    fs[key_] = _resolve(fs[key_], _lt)
            got = [str(N.norm(z)) for z in strip(fs["shape"])["args"]] if strip(fs["shape"]).get("k") == "call" else []
            # the vector stored as the data is the element-by-element image of the input (established above): same length
            dloc = strip(strip(fs["data"])["args"][0]) if strip(fs["data"]).get("k") == "call" and strip(fs["data"]).get("args") else None
            if dloc is not None and dloc.get("k") == "local" and depth == 1:
                got = [g_.replace("len(%s)" % dloc["name"], "len(%s)" % "\0") for g_ in got]
            dn = pretty({"k": "local", "name": "D"})
            base = [k_ for k_, nm in ra["roots"].items()][0]
            bname = [x["name"] for x in walk(ra["arm"]["body"]) if x.get("k") == "local" and x["hid"] == base][:1]
            b = bname[0] if bname else "data"
            got = [g_.replace("\0", b) for g_ in got]
            want = ["len(%s)" % b, "len(%s[0])" % b, "len(%s[0][0])" % b][:depth]
            ok_shape = got == want and strip(fs["shape"])["callee"] == "tensor::Shape::" + rank and strip(fs["data"])["callee"] == "tensor::Data::" + rank
            ctx.check("R07.3", inst + ":shape", ok_shape, "output-shape-not-input-dims:" + ",".join(got), where, "shape = %s(%s)" % (rank, ", ".join(got)))
        else:
            ctx.bad("R07.3", inst + ":shape", "no-tensor-literal", where, "")
    for rank in ("Single", "Triple"):
        if rank not in vals and not any(o["instance"].startswith("%s::%s:%s" % (kind, direction, rank)) for o in ctx.obligations):
            ctx.bad("R07.3", "%s::%s:%s" % (kind, direction, rank), "rank-not-supported", c.loc(fn, m), "")
    if len(vals) == 2:
        ctx.check("R07.3", "%s::%s:siblings" % (kind, direction), vals["Single"] == vals["Triple"], "single-and-triple-arms-differ", c.loc(fn, m),
                  "", "Single: %s ; Triple: %s" % (vals["Single"], vals["Triple"]))
    return fn, vals, bodies


def derivative(ctx, kind, fwd, bwd):
    inst = kind
    f, b = fwd.get("Single"), bwd.get("Single")
    if f is None or b is None:
        ctx.unest("R07.2", inst, "missing forward/backward expression")
        return
    gt = cmp_atom("Gt", v, 0)
    cases = [None]
    if kind in ("ReLU", "LeakyReLU"):
        cases = [True, False]
    ok, why = True, ""
    for cs in cases:
        def rule(name, args, atom, cs=cs):
            if cs is None:
                return None
            if name == "ite" and args[0] == gt:
                return args[1] if cs else args[2]
            if name == "max" and sorted(map(str, args)) == sorted(["0", "r0"]):
                return v if cs else Rat.const(0)
            return None
        ff, bb = rewrite(f, rule), rewrite(b, rule)
        try:
            d = diff(ff, "r0")
        except ValueError as e:
            ok, why = False, str(e)
            break
        if hyp_norm(d) != hyp_norm(bb):
            ok, why = False, "case %s: d forward/dv = %s but backward = %s" % ({None: "-", True: "v>0", False: "v<0"}[cs], d, bb)
    ctx.check("R07.2", inst, ok, "backward-is-not-derivative-of-forward", "activation::%s" % kind, "backward = d forward / dv", "%s: %s" % (kind, why))


def totality(ctx, kind, direction, fn, bodies):
    c = ctx.crate
    for rank, (r, ra) in sorted(bodies.items()):
        inst0 = "%s::%s:%s" % (kind, direction, rank)
        n_ob = [0]

        def ob(kind_, ok, node, detail):
            n_ob[0] += 1
            if not ok:
                ctx.bad("R07.4", "%s:%s#%d" % (inst0, kind_, n_ob[0]), kind_ + "-not-discharged", c.loc(fn, node), detail)
        ev = e2.Eval(c, {}, {"alpha": AV(Fr(1, 100), Fr(1, 100))}, ob)
        cn = r.cellname(c)
        ev.cellkey = cn
        ev.cells = {"r0": AV(-e2.F32_MAX, e2.F32_MAX)}
        try:
            e2.eval_fn_lets(ev, fn, None)
            res = ev.eval(r.body)
        except ValueError as e:
            ctx.unest("R07.4", inst0, "abstract interpreter: %s" % e, c.loc(fn, r.body))
            continue
        rng = {("Sigmoid", "forward"): (0, 1), ("Sigmoid", "backward"): (0, 1), ("Tanh", "forward"): (-1, 1), ("Tanh", "backward"): (0, 1),
               ("ReLU", "backward"): (0, 1), ("LeakyReLU", "backward"): (0, 1)}.get((kind, direction))
        ok = not res.nan and res.lo != -INF and res.hi != INF
        if rng:
            ok = ok and res.lo >= rng[0] and res.hi <= rng[1]
        ctx.check("R07.4", inst0, ok, "not-total-or-out-of-range:" + repr(res), c.loc(fn, r.body),
                  "for every finite input: result in %r%s" % (res, " within %s" % (rng,) if rng else ""),
                  "%s::%s on finite inputs yields %r%s" % (kind, direction, res, ", required range %s" % (rng,) if rng else ""))


def linear(ctx):
    c = ctx.crate
    fn = ctx.fn(ACT + "Linear::forward")
    b = strip(fn["body"])
    while b.get("k") == "blk" and not b["b"]["stmts"]:
        b = strip(b["b"]["tail"])
    ph = pat_binds(fn["params"][1])[0][1]
    ctx.check("R07.1", "Linear::forward", b.get("k") == "mcall" and b["name"] == "clone" and e4.local_hid(b["recv"]) == ph, "identity-forward-not-clone",
              c.loc(fn), "forward = input.clone()")
    fn = ctx.fn(ACT + "Linear::backward")
    b = strip(fn["body"])
    while b.get("k") == "blk" and not b["b"]["stmts"]:
        b = strip(b["b"]["tail"])
    ph = pat_binds(fn["params"][1])[0][1]
    ok = b.get("k") == "call" and b["callee"] == "tensor::Tensor::ones" and pretty(strip(b["args"][0])) == "%s.shape.clone()" % fn["params"][1]["name"]
    ctx.check("R07.1", "Linear::backward", ok, "identity-backward-not-ones", c.loc(fn), "backward = ones(input.shape)")
    # Tensor::ones fills with literal 1.0 in every arm
    fo = ctx.fn("tensor::Tensor::ones")
    lits = {x["v"] for x in walk(fo["body"]) if x.get("k") == "lit" and c.ty(x) == "f32"}
    ctx.check("R07.1", "Tensor::ones", lits == {"1.0"}, "ones-fills-with:" + ",".join(sorted(lits)), c.loc(fo), "Tensor::ones fills 1.0")
    from . import c14
    sub = type(ctx)(ctx.prop, ctx.facts)
    sub.guard("R14.3", "constructors", c14.r3_constructors, sub)
    bad = [o for o in sub.obligations if o["status"] != "ok" and o["instance"].startswith("ones")]
    ctx.check("R07.1", "Tensor::ones-dims", not bad, "ones-dims:" + ",".join(o["instance"] for o in bad), c.loc(fo), "ones(shape) has the shape's own dimensions in order (identity derivative keeps the input's shape)")
    # leaky slope literal
    fc = ctx.fn(ACT + "Function::create")
    sl = [x for x in walk(fc["body"]) if x.get("k") == "struct" and x["path"].endswith("activation::LeakyReLU")]
    val = e4.lit_value(dict((a_, e_) for a_, e_ in sl[0]["fs"]).get("alpha")) if sl else None
    ctx.check("R07.1", "LeakyReLU:slope", val == "0.01", "leaky-slope:" + str(val), c.loc(fc), "alpha = 0.01")
    wr = [(mk, w) for mk, mv in c.mir.items() for w in mv["facts"]["writes"] + mv["facts"]["mutborrows"] if w["adt"] == "activation::LeakyReLU"]
    ctx.check("R07.1", "LeakyReLU:slope-immutable", not wr, "leaky-slope-written", "crate", "alpha is never written after construction")


def softmax_backward_shape(ctx):
    """R07.3 for Softmax::backward (E6): every result is `Tensor::single(v).reshape(<the parameter's own shape>)` with v holding one value per
    probability of `self.forward(<the parameter>)` - so the output has the input's shape for flat and 3-D inputs alike."""
    from .. import e6
    c = ctx.crate
    fn = ctx.fn(ACT + "Softmax::backward")
    inp = pat_binds(fn["params"][1])[0][0]
    E = e6.Exec(c, fn)
    live = [p for p in E.run_fn() if p.exit is None or p.exit[0] == "return"]
    ok = bool(live)
    why = ""
    for P in live:
        val = e6.strip_upd(P.val if P.exit is None else P.exit[1])
        r = e6.is_call(val, "reshape", 2)
        sh = r[1] if r is not None else None
        while sh is not None and e6.is_call(sh, "clone", 1):
            sh = e6.is_call(sh, "clone", 1)[0]
        if r is None or sh != ("field", ("p", inp), "shape"):
            ok, why = False, "result is %s" % e6.show(val, 3)[:120]
    ctx.check("R07.3", "Softmax::backward:shape", ok, "output-shape-not-input-dims:" + __import__("re").sub(r"#\w+", "", short(why, 60)), c.loc(fn), "Tensor::single(derivative).reshape(logits.shape)",
              "Softmax::backward: %s; the result must carry the shape of the tensor it was given" % why)


def softmax(ctx):
    """R07.5 on the E6 effect summary of Softmax::forward (independent of statement layout, names, helper extraction, loop idiom)."""
    from .. import e6
    c = ctx.crate
    fn = ctx.fn(ACT + "Softmax::forward")
    inp = pat_binds(fn["params"][1])[0][0]
    E = e6.Exec(c, fn)
    paths = E.run_fn()
    live = [p for p in paths if p.exit is None or p.exit[0] == "return"]
    ok1 = len(live) == 1 and not live[0].pc
    ctx.check("R07.5", "one-unconditional-result", ok1, "result-depends-on:" + short("; ".join(e6.show(t, 2) for p in live for (t, _) in p.pc), 80), c.loc(fn),
              "one result path, no case split", "soft-max must be exp(x_i - m) / sum for every input; %d result paths, conditions: %s"
              % (len(live), "; ".join(e6.show(t, 2) for p in live for (t, _) in p.pc)[:200]))
    if not live:
        return
    # the path that does the work: the one with the most effects
    P = max(live, key=lambda p: len(p.eff))
    X = ("call", "tensor::Tensor::get_flat", (("p", inp),))
    val = e6.strip_upd(P.val)
    r = e6.is_call(val, "reshape", 2)
    sg = e6.is_call(r[0], "single", 1) if r is not None else None
    okr = r is not None and sg is not None and r[1] == ("field", ("p", inp), "shape")
    ctx.check("R07.5", "reshape-to-input-shape", okr, "result-not-reshaped-to-input-shape", c.loc(fn), "Tensor::single(y).reshape(input.shape)")
    if sg is None:
        return
    es = e6.elementwise_sequence(E, sg[0])
    if es is None:
        ctx.bad("R07.5", "normalisation", "outputs-not-exp-over-sum", c.loc(fn), "the result vector is not built one value per exponent, in order: %s" % e6.show(sg[0], 3)[:160])
        return
    S, expr, el = es

    def sources(lid_iter, lid):
        """(sequence walked, term of the current element) for `for v in S` and for `for i in 0..S.len()` reading S[i]"""
        rng = e6.range_of(lid_iter)
        if rng is not None and rng[0] == ("lit", "0"):
            ln = e6.is_call(rng[1], "len", 1)
            if ln is not None:
                return ln[0], ("idx", ln[0], ("elem", lid_iter, lid))
        return lid_iter, ("elem", lid_iter, lid)
    S2, el2 = sources(S, el[2])
    exps = S2
    okn = (isinstance(exps, tuple) and len(exps) == 4 and exps[0] == "loopout" and isinstance(expr, tuple) and expr[0] == "bin" and expr[1] == "Div" and expr[2] == el2
           and isinstance(expr[3], tuple) and len(expr[3]) == 4 and expr[3][0] == "loopout" and expr[3][2] == exps[2])
    sum_loop = None
    if (not okn and isinstance(exps, tuple) and len(exps) == 4 and exps[0] == "loopout" and isinstance(expr, tuple) and expr[0] == "bin" and expr[1] == "Div" and expr[2] == el2
            and isinstance(expr[3], tuple) and len(expr[3]) == 4 and expr[3][0] == "loopout"):
        # the sum accumulated by a second loop over the finished exponent list, front to back: the same additions in the same order
        L2 = E.loop_summaries.get(expr[3][2])
        if L2 is not None and L2.get("kind") == "for":
            s2, e2_ = sources(L2["iter"], expr[3][2])
            p2 = L2["paths"]
            if e6.strip_upd(s2) == e6.strip_upd(exps) and len(p2) == 1 and p2[0].exit is None and not p2[0].pc:
                ef2 = [e_ for e_ in p2[0].eff if e_[0] != "loop"]
                if len(ef2) == 1 and ef2[0][0] == "set" and ef2[0][1] == ("local", expr[3][1]) and ef2[0][2] == e6.mk_bin("Add", ("loopin", expr[3][1], expr[3][2]), e2_):
                    sum_loop = expr[3][2]
                    okn = True
    ctx.check("R07.5", "normalisation", okn, "outputs-not-exp-over-sum", c.loc(fn), "y_i = e_i / sum, in order",
              "result element is %s over %s" % (e6.show(expr, 3)[:120], e6.show(S, 2)[:80]))
    if not okn:
        return
    lid = exps[2]
    sumv = expr[3]
    L = E.loop_summaries.get(lid)
    src, xel = sources(L["iter"], lid) if L.get("kind") == "for" else (None, None)
    ctx.check("R07.5", "loop-over-x", src == X, "loop-not-over-x", c.loc(fn, L["node"]), "for &v in x.iter()", "the exponent loop walks %s" % e6.show(L.get("iter"), 2)[:100])
    lp = L["paths"]
    oke = len(lp) == 1 and lp[0].exit is None and not lp[0].pc
    ctx.check("R07.5", "loop-no-early-exit", oke, "early-exit-or-conditional-sum", c.loc(fn, L["node"]), "every element contributes once")
    if not oke:
        return
    eff = [e for e in lp[0].eff if e[0] != "loop"]
    sets = [e for e in eff if e[0] == "set" and e[1] == ("local", sumv[1])]
    pushes = [e for e in eff if e[0] == "push" and e[1] == ("local", exps[1])]
    other = [e for e in eff if e not in sets and e not in pushes]
    EXP = pushes[0][2] if len(pushes) == 1 else None
    oks = (len(sets) == 1 and len(pushes) == 1 and not other and sets[0][2] == e6.mk_bin("Add", ("loopin", sumv[1], lid), EXP))
    if sum_loop is not None:
        oks = not sets and len(pushes) == 1 and not other        # (the sum loop was checked above: sum += each stored exponent, in order)
    ctx.check("R07.5", "sum-and-push-same-exponent", oks, "sum-or-push-mismatch", c.loc(fn, L["node"]), "sum += exp; exps.push(exp)",
              "loop effects: %s" % "; ".join(e[0] + " " + e6.show(e[2], 3)[:80] for e in eff))
    ctx.check("R07.5", "sum-starts-at-zero", sumv[3] in (("lit", "0.0"), ("lit", "0.0f32"), ("lit", "0."), ("lit", "0f32")) and
              (e6.is_call(exps[3], "new", 0) is not None or e6.is_call(exps[3], "with_capacity", 1) is not None or exps[3] == ("vec", ())),
              "sum-initial-value", c.loc(fn), "sum = 0.0, exps empty")
    if EXP is None:
        ctx.bad("R07.5", "exp-argument", "no-exp-in-loop", c.loc(fn, L["node"]), "")
        return
    ea = e6.is_call(EXP, "exp", 1)
    M = None
    if ea is not None and isinstance(ea[0], tuple) and ea[0][0] == "bin" and ea[0][1] == "Sub" and ea[0][2] == xel:
        M = ea[0][3]
    ctx.check("R07.5", "exp-argument", M is not None, "exp-argument-not-x-minus-max:" + short(e6.show(ea[0] if ea else EXP, 3), 40), c.loc(fn, L["node"]), "exp(v - max)",
              "exponent is %s; without subtracting the maximum exp overflows to inf for large inputs and inf/inf = NaN" % e6.show(EXP, 3)[:120])
    if M is None:
        if not e6.find_terms(EXP, lambda t: t[0] == "call" and t[1].endswith("::max")) and not e6.find_terms(EXP, lambda t: t[0] == "call" and t[1].endswith("::fold")):
            ctx.bad("R07.5", "max-fold", "no-max-subtraction", c.loc(fn), "soft-max computes no maximum of its inputs: exp overflows for large inputs")
        return
    # M = fold(x, -inf, f32::max)  or a running maximum kept in a local
    okm = False
    fd = e6.is_call(M, "fold", 3)
    if fd is not None:
        okm = (fd[0] == X and isinstance(fd[1], tuple) and fd[1][0] == "path" and fd[1][1].endswith("NEG_INFINITY")
               and isinstance(fd[2], tuple) and fd[2][0] == "path" and fd[2][1].endswith("f32>::max"))
    elif isinstance(M, tuple) and len(M) == 4 and M[0] == "loopout":
        ML = E.loop_summaries.get(M[2])
        msrc, mel = sources(ML["iter"], M[2]) if ML and ML.get("kind") == "for" else (None, None)
        start = isinstance(M[3], tuple) and M[3][0] == "path" and M[3][1].endswith("NEG_INFINITY")
        mps = ML["paths"] if ML else []
        lin = ("loopin", M[1], M[2])
        form = False
        if len(mps) == 1 and not mps[0].pc and mps[0].exit is None:
            ef = [e for e in mps[0].eff if e[0] != "loop"]
            if len(ef) == 1 and ef[0][0] == "set" and ef[0][1] == ("local", M[1]):
                mx = e6.is_call(ef[0][2], "max", 2)
                form = mx is not None and sorted(map(repr, mx)) == sorted(map(repr, (lin, mel)))
        elif len(mps) == 2 and all(q.exit is None for q in mps):
            upd = [q for q in mps if [e for e in q.eff if e[0] != "loop"]]
            keep = [q for q in mps if not [e for e in q.eff if e[0] != "loop"]]
            if len(upd) == 1 and len(keep) == 1:
                ef = [e for e in upd[0].eff if e[0] != "loop"]
                cond = [t for (t, pol) in upd[0].pc if pol]
                gt = {repr(e6.mk_bin("Gt", mel, lin)), repr(e6.mk_bin("Lt", lin, mel)), repr(e6.mk_bin("Ge", mel, lin)), repr(e6.mk_bin("Le", lin, mel))}
                form = (len(ef) == 1 and ef[0][0] == "set" and ef[0][1] == ("local", M[1]) and ef[0][2] == mel and len(upd[0].pc) == 1 and len(cond) == 1 and repr(cond[0]) in gt)
        okm = msrc == X and start and form
    ctx.check("R07.5", "max-fold", okm, "max-not-fold-of-f32-max-from-neg-inf", c.loc(fn), "m = x.iter().cloned().fold(-inf, f32::max)",
              "the shift is computed as %s" % e6.show(M, 3)[:160])


def dispatch(ctx):
    c = ctx.crate
    for d in ("forward", "backward"):
        fn = ctx.fn(ACT + "Function::" + d)
        ph = pat_binds(fn["params"][1])[0][1]
        m = [x for x in walk(fn["body"]) if x.get("k") == "match"][0]
        seen = set()
        for arm in m["arms"]:
            vp, binds = e4.arm_variant(arm)
            kind = vp.split("::")[-1]
            seen.add(kind)
            cs = [x for x in walk(arm["body"]) if x.get("k") == "mcall" and x["callee"].startswith(ACT)]
            ok = len(cs) == 1 and cs[0]["callee"] == ACT + kind + "::" + d and e4.local_hid(cs[0]["args"][0]) == ph and binds and e4.local_hid(cs[0]["recv"]) == binds[0][1]
            ctx.check("R07.6", "%s:%s" % (d, kind), ok, "dispatches-to:" + ",".join(x["callee"] for x in cs), c.loc(fn, arm["body"]), "-> %s::%s(input)" % (kind, d))
        want = {vv["name"] for vv in c.adts["activation::Function"]["variants"]}
        for k in sorted(want - seen):
            ctx.bad("R07.6", "%s:%s" % (d, k), "variant-not-dispatched", c.loc(fn), "")
    ctx.floor("R07.6", 12, "6 variants x forward/backward")


RULES["R07.3"] += " | Softmax::backward: every result is Tensor::single(v).reshape(<the parameter's own shape>)"

RULES["R07.1"] += " | entries-stay-in-place (who-may-permute): over every function of the property's modules, no Vec/slice operation that moves entries to other positions (reverse, swap, rotate, sort .., mem::swap of two entries) outside the table of sites confirmed on the pinned tree (common.PERMUTING_SITES)"


def as_computed(ctx):
    """every forward / backward of activation.rs returns the lists its element-wise pipeline produced: on the E6 value of each non-panicking path
    the only in-place change of a list is appending entries (push / extend); no entry is assigned, dropped or moved in straight-line code after
    the pipeline (changes made inside the loops are part of the loop's value and are judged by the function rules)"""
    from .. import e6
    c = ctx.crate
    n = 0
    for path, fn in sorted(c.fns.items()):
        leaf = path.rsplit("::", 1)[-1]
        if fn.get("file") != "src/activation.rs" or leaf not in ("forward", "backward"):
            continue
        live = [p for p in e6.Exec(c, fn).run_fn() if p.exit is None or p.exit[0] == "return"]
        tam = sorted({nm for p in live for nm in e6.inplace_changes(p.val if p.exit is None else p.exit[1])})
        n += 1
        ctx.check("R07.1", path.split("::")[-2] + "::" + leaf + ":returned-as-computed", bool(live) and not tam, "result-changed-in-place-by:" + ",".join(tam), c.loc(fn),
                  "%d paths: output entry i is f(input entry i), returned as produced" % len(live),
                  "%s changes its result in place (%s) after the element-wise pipeline produced it" % (path, tam))
    if n < 10:
        ctx.bad("R07.1", "returned-as-computed:count", "activation-functions-found:%d" % n, "src/activation.rs", "expected the forward/backward of at least five activation kinds")


RULES["R07.1"] += " | returned-as-computed: on the E6 value of every non-panicking path of each activation forward/backward, the only in-place change of a list is appending entries; nothing assigns, drops or moves an entry after the element-wise pipeline"


def run(ctx):
    ctx.guard("R07.1", "returned-as-computed", as_computed, ctx)
    from .common import no_permuting_ops
    ctx.guard("R07.1", "entries-stay-in-place", no_permuting_ops, ctx, "R07.1", "activation", {"src/activation.rs"}, 20)
    for kind in ("ReLU", "LeakyReLU", "Sigmoid", "Tanh"):
        res = {}
        for d in ("forward", "backward"):
            r = ctx.guard("R07.1", "%s::%s" % (kind, d), elementwise, ctx, kind, d)
            if r:
                res[d] = r
                ctx.guard("R07.4", "%s::%s" % (kind, d), totality, ctx, kind, d, r[0], r[2])
        if len(res) == 2:
            ctx.guard("R07.2", kind, derivative, ctx, kind, res["forward"][1], res["backward"][1])
    ctx.guard("R07.1", "Linear", linear, ctx)
    ctx.guard("R07.5", "softmax", softmax, ctx)
    ctx.guard("R07.3", "softmax-backward-shape", softmax_backward_shape, ctx)
    ctx.guard("R07.6", "dispatch", dispatch, ctx)
    ctx.floor("R07.1", 16 + 6, "16 arms + identity/ones/slope facts")
    ctx.floor("R07.2", 4, "four differentiable activations")
    ctx.floor("R07.3", 16 + 8, "16 shape literals + 8 sibling comparisons")
    ctx.floor("R07.4", 16, "16 arms")
    ctx.floor("R07.5", 9, "soft-max structure facts")
