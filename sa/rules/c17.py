"""C17 - loop connections compute the accumulated repeated sub-network."""
from ..core import Unestablished
from ..hir import walk, strip, pretty, short, calls, pat_binds, npretty, cpretty, let_table
from .. import e1, e4
from ..e1 import Rat
from .common import top_stmts_of, check_acc_dispatch, acc_matches, mentions_local, INPLACE, T
from .learn import chain_of
from . import spatial
from .c11 import primitives
from .c16 import key_agreement, hm

LEVEL = "other"
RULES = {
    "R17.1": "re-run: under `self.loopbacks.contains_key(&i)` the triple (into, iterations, inskips) is read from self.loopbacks[&i]; "
             "`for _ in 0..iterations` re-runs _forward(&current, into, i+1) where `current` is the previous iteration's last output "
             "(initially the layer's own output), reshaped to layers[into]'s input shape when that differs from layers[i]'s output "
             "shape, plus activated[into] iff inskips; each iteration's (pre, post, max) lists are recorded in order",
    "R17.2": "accumulation: for every (idx, j) in (into..i+1).enumerate() and every iteration the configured accumulation combines "
             "preactivated[j] with fpres[iteration][idx] and activated[j+1] with fposts[iteration][idx] (Mean: over all iterations at "
             "once), each arm using only its own primitive; the placeholder first entry of fposts is removed before accumulation; the "
             "primitives satisfy C15's element-wise rule",
    "R17.3": "Network::loopback: the duplicate guard tests the key it inserts (outof); index validation rejects outof < into and "
             "out-of-range indices; input shape of layers[into] is asserted equal to the output shape of layers[outof]; the loop count of "
             "every layer in into..=outof is raised by `iterations`",
    "R17.4": "flat re-entry: a loop whose output is flattened re-enters a spatial layer through its Data::Single arm, which must "
             "re-chunk with the layer's own input height/width (R02.3 re-checked here)",
}
RULES["R17.5"] = "tensors crossing a connection are re-shaped by Tensor::reshape / flatten: count assertion first, row-major rebuild (R14.1/R14.2 re-run under this property)"
RULES["R17.3"] += " | index validation and duplicate guard are read off the path conditions of the insert into self.loopbacks"
ASSUMPTIONS = ["the accumulated values are not decided"]
TRUSTED = ["rustc nightly front end", "driver/src/main.rs", "sa/e1.py", "sa/e4.py", "sa/extract.py (for the primitives)"]

NF = "network::Network::forward"


def loop_block(ctx):
    c = ctx.crate
    fn = ctx.fn(NF)
    loops = [x for x in walk(fn["body"], into_closures=False) if x.get("k") == "for" and any(cal == "network::Network::_forward" for _, cal in calls(x["body"]))]
    lp = loops[0]
    ih = pat_binds(lp["pat"])[0][1]
    blk = [s for s in top_stmts_of(lp["body"]) if s.get("k") == "if" and any(x.get("k") == "mcall" and (hm(x["callee"], "contains_key") or hm(x["callee"], "get")) and "loopbacks" in pretty(x["recv"]) for x in walk(s["c"]))]
    if len(blk) != 1:
        raise Unestablished("expected one `if self.loopbacks.contains_key(..)` / `if let Some(..) = self.loopbacks.get(..)` block", c.loc(fn, lp))
    return fn, lp, ih, blk[0]


def r1(ctx):
    c = ctx.crate
    fn, lp, ih, blk = loop_block(ctx)
    ck = [x for x in walk(blk["c"]) if x.get("k") == "mcall" and x["name"] in ("contains_key", "get") and "loopbacks" in pretty(x["recv"])][0]
    ctx.check("R17.1", "guard-key-is-layer-index", e4.local_hid(ck["args"][0]) == ih, "loop-guard-key", c.loc(fn, blk), "contains_key(&i)")
    # must come after the layer's own forward in the loop body
    st_outer = top_stmts_of(lp["body"])
    fw = [i for i, s in enumerate(st_outer) if any(x.get("k") == "mcall" and x["callee"] == "network::Network::_forward" for x in walk(s)) and s is not blk]
    ctx.check("R17.1", "after-own-forward", bool(fw) and st_outer.index(blk) > fw[0], "loop-block-position", c.loc(fn, blk), "the loop block follows the layer's own forward pass")
    st = top_stmts_of(blk["th"])
    tl = [s for s in st if s.get("k") == "let" and s["pat"].get("k") == "tuple"]
    ok = False
    into_h = it_h = sk_h = None
    cnd_ = strip(blk["c"])
    if cnd_.get("k") == "letx" and ck["name"] == "get" and e4.arm_variant({"pat": cnd_["pat"]})[0].endswith("Some") and len(pat_binds(cnd_["pat"])) == 3 \
            and strip(cnd_["init"]) is ck:
        # `if let Some(&(into, iterations, inskips)) = self.loopbacks.get(&i)`: the stored triple, bound by the guard itself
        into_h, it_h, sk_h = (h for (_, h) in pat_binds(cnd_["pat"]))
        ok = True
    elif tl:
        init = strip(tl[0]["init"])
        pb = pat_binds(tl[0]["pat"])
        ok = init.get("k") == "index" and "self.loopbacks" in pretty(init["b"]) and e4.local_hid(init["i"]) == ih and len(pb) == 3
        if ok:
            into_h, it_h, sk_h = (h for (_, h) in pb)
    ctx.check("R17.1", "triple-from-loopbacks[i]", ok, "loop-parameters", c.loc(fn, blk), "(into, iterations, inskips) = self.loopbacks[&i]")
    if not ok:
        return None
    lets = {}
    for s in st:
        if s.get("k") == "let" and s["pat"].get("k") == "bind":
            lets[s["pat"]["name"]] = s
    fp = lets.get("fposts")
    okf = fp is not None and "activated.last().unwrap().clone()" in pretty(fp["init"]) and pretty(fp["init"]).count("box_assume_init_into_vec_unsafe") == 2
    ctx.check("R17.1", "starts-from-own-output", okf, "fposts-initial", c.loc(fn, fp["init"]) if fp else c.loc(fn, blk), "fposts = vec![vec![activated.last().clone()]]")
    iters = [s for s in st if s.get("k") == "for" and any(x.get("k") == "mcall" and x["callee"] == "network::Network::_forward" for x in walk(s["body"]))]
    if len(iters) != 1:
        raise Unestablished("expected one iteration loop calling _forward", c.loc(fn, blk))
    il = iters[0]
    it = strip(il["iter"])
    rng = [strip(b) for a, b in it["fs"]] if it.get("k") == "struct" and it["path"] == "std::ops::Range" else []
    ctx.check("R17.1", "iterations-times", len(rng) == 2 and e4.lit_value(rng[0]) == "0" and e4.local_hid(rng[1]) == it_h, "iteration-range:" + short(pretty(it), 50), c.loc(fn, il), "for _ in 0..iterations",
              "the loop body is re-run over %s; a connection with k iterations must re-run exactly k times" % pretty(it))
    ist = top_stmts_of(il["body"])
    ilets = {s["pat"]["name"]: s for s in ist if s.get("k") == "let" and s["pat"].get("k") == "bind"}
    cur = ilets.get("current")
    okc = cur is not None and pretty(strip(cur["init"])) == "fposts.last().unwrap().last().unwrap().clone()"
    ctx.check("R17.1", "current-is-previous-output", okc, "current-source:" + (short(pretty(cur["init"]), 60) if cur else "?"), c.loc(fn, il), "current = previous iteration's last output")
    ch = cur["pat"]["hid"] if cur else None
    inp = ilets.get("inputs")
    oki = inp is not None and strip(inp["init"]).get("k") == "mcall" and strip(inp["init"])["callee"] == "network::Layer::inputs" and "self.layers[into]" == pretty(strip(strip(inp["init"])["recv"])) \
        and e4.local_hid(strip(strip(inp["init"])["recv"])["i"]) == into_h
    rs = [s for s in ist if s.get("k") == "if" and any(x.get("k") == "mcall" and x["callee"] == T + "reshape" for x in walk(s["th"]))]
    okr = False
    if len(rs) == 1 and inp is not None:
        cn = strip(rs[0]["c"])
        okr = (cn.get("k") == "bin" and cn["op"] == "Ne" and e4.local_hid(cn["l"]) == inp["pat"]["hid"] and pretty(strip(cn["r"])) == "self.layers[i].outputs()"
               and any(x_.get("k") == "assign" and cpretty(x_, let_table(il["body"])) in ("current = current.reshape(inputs.clone())",
                                                                                            "current = current.reshape(%s.clone())" % cpretty(inp["init"], let_table(il["body"])))
                       for x_ in walk(rs[0]["th"])))
    ctx.check("R17.1", "reshape-to-entry-shape", oki and okr, "reshape-on-mismatch", c.loc(fn, il), "if layers[into].inputs() != layers[i].outputs() { current = current.reshape(inputs) }")
    sk = [s for s in ist if s.get("k") == "if" and e4.local_hid(s["c"]) == sk_h]
    oks = False
    got = "?"
    if len(sk) == 1:
        adds = [x for x in walk(sk[0]["th"]) if x.get("k") == "mcall" and x["callee"] in INPLACE]
        if len(adds) == 1:
            a = strip(adds[0]["args"][0])
            got = pretty(adds[0])
            oks = (adds[0]["callee"] == T + "add_inplace" and e4.local_hid(adds[0]["recv"]) == ch and a.get("k") == "index" and pretty(strip(a["b"])) == "activated" and e4.local_hid(a["i"]) == into_h
                   and sk[0]["el"] is None)
    ctx.check("R17.1", "inskip-adds-entry-input", oks, "inskip:" + short(got, 60), c.loc(fn, sk[0]) if sk else c.loc(fn, il), "if inskips { current.add_inplace(&activated[into]) }",
              "with input skips the re-run receives `%s`; it must add the original input of layer `into` (activated[into])" % got)
    fwc = [x for x in walk(il["body"]) if x.get("k") == "mcall" and x["callee"] == "network::Network::_forward"]
    okw = False
    if len(fwc) == 1:
        a = fwc[0]["args"]
        N = e1.Norm(c, {ih: Rat.atom("i")})
        okw = e4.local_hid(a[0]) == ch and e4.local_hid(a[1]) == into_h and N.norm(a[2]) == Rat.atom("i") + 1
    ctx.check("R17.1", "rerun-range", okw, "rerun-call:" + (short(pretty(fwc[0]), 60) if fwc else "?"), c.loc(fn, il), "_forward(&current, into, i + 1)")
    order = [pretty(strip(s)) for s in ist if s.get("k") == "mcall" and s["name"] == "push"]
    ctx.check("R17.1", "records-each-iteration", order == ["fpres.push(fpre)", "fposts.push(fpost)", "fmaxs.push(fmax)"], "iteration-recording:" + ",".join(order)[:80], c.loc(fn, il), "push fpre, fpost, fmax")
    # statement order within an iteration: reshape, inskip, forward
    pos = {id(s): k for k, s in enumerate(ist)}
    seq_ok = bool(rs) and bool(sk) and pos[id(rs[0])] < pos[id(sk[0])] < [k for k, s in enumerate(ist) if any(y in fwc for y in walk(s))][0]
    ctx.check("R17.1", "iteration-order", seq_ok, "iteration-statement-order", c.loc(fn, il), "reshape, then input skip, then re-run")
    return fn, blk, st, il, into_h, it_h, ih


def r2(ctx, fn, blk, st, il, into_h, it_h, ih):
    c = ctx.crate
    rm = [k for k, s in enumerate(st) if pretty(strip(s)) == "fposts.remove(0)"]
    acc = [s for s in st if s.get("k") == "for" and acc_matches(s)]
    if len(acc) != 1:
        raise Unestablished("expected one accumulation loop after the iterations", c.loc(fn, blk))
    al = acc[0]
    ctx.check("R17.2", "placeholder-removed", len(rm) == 1 and st.index(il) < rm[0] < st.index(al), "fposts-placeholder", c.loc(fn, blk), "fposts.remove(0) between the iterations and the accumulation")
    it = strip(al["iter"])
    pb = pat_binds(al["pat"])
    okd = False
    if it.get("k") == "mcall" and it["name"] == "enumerate" and len(pb) == 2:
        r = strip(it["recv"])
        if r.get("k") == "struct" and r["path"] == "std::ops::Range":
            fs = dict((a, b) for a, b in r["fs"])
            N = e1.Norm(c, {ih: Rat.atom("i")})
            okd = e4.local_hid(fs["start"]) == into_h and N.norm(fs["end"]) == Rat.atom("i") + 1
    ctx.check("R17.2", "covers-into..=i", okd, "accumulation-range:" + short(pretty(it), 60), c.loc(fn, al), "for (idx, j) in (into..i + 1).enumerate()")
    if not okd:
        return
    idxh, jh = pb[0][1], pb[1][1]
    ms = acc_matches(al)
    m = ms[0]
    scr = strip(m["scrut"])
    ctx.check("R17.2", "dispatch-on-loopaccumulation", scr.get("k") == "field" and scr["f"] == "loopaccumulation", "dispatch-field:" + pretty(scr), c.loc(fn, m), "match self.loopaccumulation")

    def ow(body):
        asg = [npretty(x) for x in walk(body) if x.get("k") == "assign"]
        return any(a.startswith("preactivated[j] = fpres[iteration][idx]") for a in asg) and any(a.startswith("activated[(1 + j)] = fposts[iteration][idx]") for a in asg)
    check_acc_dispatch(ctx, "R17.2", fn, m, "loop-dispatch", overwrite_ok=ow)
    N = e1.Norm(c, {jh: Rat.atom("j"), idxh: Rat.atom("idx")})
    for arm in m["arms"]:
        vp, _ = e4.arm_variant(arm)
        v = vp.split("::")[-1]
        if v in ("_",):
            continue
        where = c.loc(fn, arm["body"])
        if v != "Mean":
            fl = [x for x in walk(arm["body"]) if x.get("k") == "for"]
            okl = False
            if fl:
                r = strip(fl[0]["iter"])
                okl = r.get("k") == "struct" and e4.lit_value(dict((a, b) for a, b in r["fs"])["start"]) == "0" and e4.local_hid(dict((a, b) for a, b in r["fs"])["end"]) == it_h
                ith = pat_binds(fl[0]["pat"])[0][1]
            ctx.check("R17.2", "every-iteration:" + v, okl, "iteration-walk:" + v, where, "for iteration in 0..iterations")
            if not okl:
                continue
            N2 = e1.Norm(c, {jh: Rat.atom("j"), idxh: Rat.atom("idx"), ith: Rat.atom("it")})
            pairs = []
            for x in walk(arm["body"]):
                tgt = src = None
                if x.get("k") == "mcall" and x["callee"] in INPLACE:
                    tgt, src = strip(x["recv"]), strip(x["args"][0])
                elif x.get("k") == "assign" and strip(x["l"]).get("k") == "index":
                    tgt, src = strip(x["l"]), strip(x["r"])
                    if src.get("k") == "mcall":
                        src = strip(src["recv"])
                if tgt is None or tgt.get("k") != "index" or src.get("k") != "index":
                    continue
                try:
                    pairs.append((pretty(strip(tgt["b"])), str(N2.norm(tgt["i"])), pretty(strip(strip(src["b"])["b"])) if strip(src["b"]).get("k") == "index" else "?",
                                  str(N2.norm(strip(src["b"])["i"])) if strip(src["b"]).get("k") == "index" else "?", str(N2.norm(src["i"]))))
                except (ValueError, KeyError):
                    pairs.append(("?",) * 5)
            fm = []
            for x in walk(arm["body"]):
                xx = strip(x)
                if xx.get("k") == "index" and strip(xx["b"]).get("k") == "index" and pretty(strip(strip(xx["b"])["b"])) == "fmaxs":
                    try:
                        fm.append((str(N2.norm(strip(xx["b"])["i"])), str(N2.norm(xx["i"]))))
                    except ValueError:
                        fm.append(("?", "?"))
            gm = [str(N2.norm(x["args"][0])) for x in walk(arm["body"]) if x.get("k") == "mcall" and x["name"] == "get_mut" and pretty(strip(x["recv"])) == "maxpools"]
            fm = sorted(set(fm))
            ctx.check("R17.2", "maxpool-indices:" + v, fm == [("it", "idx")] and gm == ["j"], "maxpool-index-bookkeeping:%s:%s:%s" % (v, fm, gm), where,
                      "maxpools[j] combined with fmaxs[iteration][idx]",
                      "the %s arm updates the max-pool indices of %s with fmaxs%s; layer j of the range is entry idx of each iteration's list" % (v, gm, fm))
            want = [("preactivated", "j", "fpres", "it", "idx"), ("activated", "1 + j", "fposts", "it", "idx")]
            ctx.check("R17.2", "operands:" + v, sorted(pairs) == sorted(want), "accumulation-operands:%s:%s" % (v, pairs)[:120], where,
                      "preactivated[j] <- fpres[it][idx]; activated[j+1] <- fposts[it][idx]",
                      "the %s arm combines %s; expected %s" % (v, pairs, want))
        else:
            t = npretty(arm["body"])
            ok = ("let fpre = fpres.iter().map(|x| &x[idx]).collect()" in t and "let fpost = fposts.iter().map(|x| &x[idx]).collect()" in t
                  and "preactivated[j].mean_inplace(&fpre)" in t and "activated[(1 + j)].mean_inplace(&fpost)" in t)
            ctx.check("R17.2", "operands:Mean", ok, "mean-operands", where, "preactivated[j].mean_inplace(all fpres[..][idx]); activated[j+1].mean_inplace(all fposts[..][idx])")


def r3(ctx):
    c = ctx.crate
    key_agreement(ctx, "R17.3", "network::Network::loopback", "loopbacks", "loopback", False)
    fn = ctx.fn("network::Network::loopback")
    P = {pat_binds(p)[0][0]: pat_binds(p)[0][1] for p in fn["params"] if pat_binds(p)}
    st = top_stmts_of(fn["body"])
    from ..hir import let_table, cpretty
    from .common import range_bounds
    TT = let_table(fn["body"])
    env0 = {}
    for h_, init_ in TT.items():
        try:
            env0[h_] = e1.Norm(c, env0).norm(init_)
        except ValueError:
            pass
    # what is known false when the connection is stored (panicking guards before it, enclosing branches)
    inserts = [x for x in walk(fn["body"]) if x.get("k") == "mcall" and hm(x["callee"], "insert") and "loopbacks" in pretty(x["recv"])]
    first = inserts[0] if inserts else fn["body"]
    N = e1.Norm(c, env0)
    known_false = set()
    cond = "?"
    if inserts:
        pcs = [it for it in (e4.path_conditions(c, fn["body"], inserts[0]) or []) if it["kind"] == "if" or it.get("panics")]
        descr = []
        for (a, pol, _) in e4.atoms_of(pcs):
            try:
                v = N.norm(a)
            except ValueError:
                continue
            known_false.add(str(v) if not pol else str(e1.negate_cond(v)))
            descr.append(("!" if not pol else "") + pretty(a))
        cond = " && ".join(descr)
    okk = bool(inserts)
    L = Rat.atom("len(self.layers)")
    need = {e1.cmp_atom("Ge", Rat.atom("into"), L, integer=True), e1.cmp_atom("Lt", Rat.atom("outof"), Rat.atom("into"), integer=True)}
    parts_ok = need <= known_false
    ctx.check("R17.3", "index-validation", okk and parts_ok, "index-validation:" + short(cond, 90), c.loc(fn, first), "rejects into >= len and outof < into")
    # shape agreement and loop counts, decided on the E6 effect summary of loopback
    from .. import e6
    E = e6.Exec(c, fn)
    fpaths = [p for p in E.run_fn() if p.exit is None or p.exit[0] == "return"]
    Lyr = ("field", ("p", "self"), "layers")
    pin, pout, pit = ("p", "into"), ("p", "outof"), ("p", "iterations")

    def shape_of(layer_idx, field, facts):
        """terms that denote `layers[idx].<field>`: the accessor call, or the field of the payload of the variant known on this path"""
        el = ("idx", Lyr, layer_idx)
        out = [("call", "network::Layer::" + field, (el,))]
        for (t, pol) in facts:
            if pol and isinstance(t, tuple) and t[0] == "is" and t[1] == el:
                out.append(("field", ("payload", el, t[2], 0), field))
        return out
    oka = bool(fpaths)
    for p in fpaths:
        A = shape_of(pin, "inputs", p.pc)
        B = shape_of(pout, "outputs", p.pc)
        found = False
        for (t, pol) in p.pc:
            if isinstance(t, tuple) and t[0] == "bin" and t[1] in ("Eq", "Ne") and ((t[1] == "Eq") == pol):
                if (t[2] in A and t[3] in B) or (t[3] in A and t[2] in B):
                    found = True
        oka = oka and found
    ctx.check("R17.3", "shape-equality-asserted", oka, "loop-shape-check", c.loc(fn), "every non-panicking path has established layers[into].inputs == layers[outof].outputs")
    okl = False
    why = ""
    for p in fpaths[:1]:
        loops_ = [e for e in p.eff if e[0] == "loop" and E.loop_summaries[e[1]].get("kind") == "for"
                  and any(f[0] == "set" and isinstance(f[1], tuple) and f[1][0] == "field" and f[1][2] == "loops" for bp in E.loop_summaries[e[1]]["paths"] for f in bp.eff)]
        if len(loops_) != 1:
            why = "%d loops raise `loops`" % len(loops_)
            break
        lid, it = loops_[0][1], loops_[0][2]
        el = ("elem", it, lid)
        rng = e6.range_of(it)
        want_rng = (pin, e6.mk_bin("Add", pout, ("lit", "1")))
        if rng is not None:
            scrut = ("idx", Lyr, el)
            dom_ok = rng == want_rng
        else:
            scrut = el
            dom_ok = isinstance(it, tuple) and it[0] == "idx" and it[1] == Lyr and e6.range_of(it[2]) == want_rng
        n = 0
        arms_ok = True
        for v in ("Dense", "Convolution", "Deconvolution", "Maxpool"):
            vp = "network::Layer::" + v
            mine = [bp for bp in E.loop_summaries[lid]["paths"] if bp.exit is None and e6.variant_of(bp).get(scrut) == vp]
            if len(mine) != 1:
                arms_ok = False
                continue
            pay = ("payload", scrut, vp, 0)
            sets = [f for f in mine[0].eff if f[0] == "set" and isinstance(f[1], tuple) and f[1][0] == "field" and f[1][2] == "loops"]
            want = e6.mk_bin("Add", ("field", pay, "loops"), ("cast", pit, "f32"))
            if len(sets) == 1 and e6.strip_upd(sets[0][2]) == want:
                n += 1
            else:
                arms_ok = False
                why = "%s: %s" % (v, [e6.show(f[2], 2) for f in sets])
        okl = dom_ok and arms_ok and n == 4
        if not dom_ok:
            why = "layers walked: %s" % e6.show(it, 2)
    ctx.check("R17.3", "loop-counts-raised", okl, "loop-count-update:" + short(why, 60), c.loc(fn), "for every layer in into..=outof: layer.loops += iterations",
              "the repeat count of the layers in the loop range is not raised by `iterations` for exactly layers into..=outof: %s" % why)
    ins = [x for x in walk(fn["body"]) if x.get("k") == "mcall" and x["name"] == "insert"]
    # the stored components are the caller's arguments themselves (parameters by identity, not a re-bound / adjusted copy)
    ok = False
    if len(ins) == 1:
        tv = strip(ins[0]["args"][1])
        kv = e4.local_hid(ins[0]["args"][0])
        if tv is not None and tv.get("k") == "tup" and len(tv["xs"]) == 3:
            from ..hir import resolve
            comp = [e4.local_hid(resolve(z, TT)) for z in tv["xs"]]
            ok = comp == [P.get("into"), P.get("iterations"), P.get("inskips")] and None not in comp and kv == P.get("outof")
    ctx.check("R17.3", "stored-triple", ok, "stored-connection", c.loc(fn), "loopbacks.insert(outof, (into, iterations, inskips))")


def reshape_helpers(ctx, rule):
    """values cross a skip / loop connection through Tensor::reshape / flatten: both keep the row-major element sequence (C14's R14.1/R14.2 re-run)"""
    from . import c14
    sub = type(ctx)(ctx.prop, ctx.facts)
    sub.guard("R14.1", "reshape", c14.r1_r2_reshape, sub)
    sub.guard("R14.2", "flatten", c14.r2_flatten, sub)
    bad = [o for o in sub.obligations if o["status"] != "ok"]
    for o in bad:
        ctx.bad(rule, "reshape:" + o["instance"], o["key"].split("/", 3)[-1], o["where"], o["detail"])
    ctx.check(rule, "reshape-is-row-major", not bad and len(sub.obligations) >= 9, "reshape-broken", "src/tensor.rs",
              "%d facts: reshape asserts the element count and rebuilds in row-major order; flatten / get_flat / get_triple are row-major" % len(sub.obligations))


def range_forward(ctx, rule):
    """a loop re-runs Network::_forward over a range of layers: that walk feeds every layer the previous layer's output, for every layer
    kind (C02's R02.5 re-run under this property)"""
    from . import c02
    sub = type(ctx)(ctx.prop, ctx.facts)
    sub.guard("R02.5", "composition", c02.r5, sub)
    bad = [o for o in sub.obligations if o["status"] != "ok"]
    for o in bad:
        ctx.bad(rule, "range-forward:" + o["instance"], o["key"].split("/", 3)[-1], o["where"], o["detail"])
    ctx.check(rule, "range-forward", not bad and len(sub.obligations) >= 8, "range-forward-broken", "src/network.rs",
              "%d facts about Network::_forward / predict" % len(sub.obligations))


RULES["R17.6"] = "the range walk used by every loop iteration (Network::_forward) chains the layers in order for every layer kind (R02.5 re-run under this property)"


def run(ctx):
    ctx.guard("R17.6", "range-forward", range_forward, ctx, "R17.6")
    from .common import accumulation_setter
    ctx.guard("R17.2", "accumulation-setter", accumulation_setter, ctx, "R17.2")
    ctx.guard("R17.5", "reshape", reshape_helpers, ctx, "R17.5")
    r = ctx.guard("R17.1", "re-run", r1, ctx)
    if r:
        ctx.guard("R17.2", "accumulation", r2, ctx, *r)
    ctx.guard("R17.2", "primitives", primitives, ctx, "R17.2")
    ctx.guard("R17.3", "loopback", r3, ctx)
    for l in spatial.LAYERS:
        ctx.guard("R17.4", l, spatial.flat_rechunk, ctx, "R17.4", l)
    ctx.floor("R17.1", 11, "")
    ctx.floor("R17.2", 3 + 5 + 4 + 4 + 5 + 1, "")
    ctx.floor("R17.3", 5, "key, validation, shape, counts, stored")
    ctx.floor("R17.4", 6, "")
