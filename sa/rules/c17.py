"""C17 - loop connections compute the accumulated repeated sub-network."""
from ..core import Unestablished
from ..hir import walk, strip, pretty, short, calls, pat_binds, npretty, cpretty, let_table
from .. import e1, e4
from ..e1 import Rat
from .common import top_stmts_of, check_acc_dispatch, acc_matches, mentions_local, INPLACE, T
from .learn import chain_of
from . import spatial
from .c11 import primitives
from .c16 import key_agreement, hm

LEVEL = "other"
RULES = {
    "R17.1": "re-run: under `self.loopbacks.contains_key(&i)` the triple (into, iterations, inskips) is read from self.loopbacks[&i]; "
             "`for _ in 0..iterations` re-runs _forward(&current, into, i+1) where `current` is the previous iteration's last output "
             "(initially the layer's own output), reshaped to layers[into]'s input shape when that differs from layers[i]'s output "
             "shape, plus activated[into] iff inskips; each iteration's (pre, post, max) lists are recorded in order",
    "R17.2": "accumulation: for every (idx, j) in (into..i+1).enumerate() and every iteration the configured accumulation combines "
             "preactivated[j] with fpres[iteration][idx] and activated[j+1] with fposts[iteration][idx] (Mean: over all iterations at "
             "once), each arm using only its own primitive; the placeholder first entry of fposts is removed before accumulation; the "
             "primitives satisfy C15's element-wise rule",
    "R17.3": "Network::loopback: the duplicate guard tests the key it inserts (outof); index validation rejects outof < into and "
             "out-of-range indices; input shape of layers[into] is asserted equal to the output shape of layers[outof]; the loop count of "
             "every layer in into..=outof is raised by `iterations`",
    "R17.4": "flat re-entry: a loop whose output is flattened re-enters a spatial layer through its Data::Single arm, which must "
             "re-chunk with the layer's own input height/width (R02.3 re-checked here)",
}
RULES["R17.5"] = "tensors crossing a connection are re-shaped by Tensor::reshape / flatten: count assertion first, row-major rebuild (R14.1/R14.2 re-run under this property)"
RULES["R17.3"] += " | index validation and duplicate guard are read off the path conditions of the insert into self.loopbacks"
ASSUMPTIONS = ["the accumulated values are not decided"]
TRUSTED = ["rustc nightly front end", "driver/src/main.rs", "sa/e1.py", "sa/e4.py", "sa/extract.py (for the primitives)"]

NF = "network::Network::forward"


def loop_block_e6(ctx):
    """R17.1 / R17.2 decided on the E6 effect summary of Network::forward (layout, names, loop idioms and helper extraction do not matter).
    For every way through one layer visit i:  a loop is run iff self.loopbacks has an entry for i; its triple (into, iterations, inskips) is
    that entry; after the layer's own records are appended the range into..=i is re-run `iterations` times by _forward(current, into, i + 1),
    `current` being the previous pass's last output (first: the layer's own output), reshaped to layers[into]'s inputs when they differ from
    layers[i]'s outputs, plus activated[into] iff inskips; each pass records (pre, post, max); the seed entry of the post record is dropped;
    then for every j in into..=i (position idx = j - into) and every pass the configured accumulation combines preactivated[j] with
    pres[pass][idx] and activated[j + 1] with posts[pass][idx] (Mean: over all passes at once; the max-pool indices at maxpools[j] likewise)."""
    from .. import e6
    c = ctx.crate
    fn = ctx.fn(NF)
    E = e6.Exec(c, fn)
    live = [p for p in E.run_fn() if p.exit is None or p.exit[0] == "return"]
    if len(live) != 1:
        raise Unestablished("Network::forward: expected one non-panicking path, found %d" % len(live), c.loc(fn))
    walks = [e for e in live[0].eff if e[0] == "loop" and E.loop_summaries[e[1]].get("kind") == "for"
             and e6.find_terms(tuple(q.eff for q in E.loop_summaries[e[1]]["paths"]), lambda t: t[0] == "call" and t[1] == "network::Network::_forward")]
    if len(walks) != 1:
        raise Unestablished("expected one layer loop calling _forward in Network::forward, found %d" % len(walks), c.loc(fn))
    lid = walks[0][1]
    L = E.loop_summaries[lid]
    where = c.loc(fn, L["node"])
    I = ("elem", L["iter"], lid)
    SELF = ("p", "self")
    LB = ("field", SELF, "loopbacks")
    LAYERS = ("field", SELF, "layers")
    ACCF = ("field", SELF, "loopaccumulation")
    val = live[0].val if live[0].exit is None else live[0].exit[1]
    if not (isinstance(val, tuple) and val and val[0] == "tup" and len(val[1]) == 4):
        raise Unestablished("Network::forward does not return its four records", c.loc(fn))
    pre_n, act_n, max_n, _fb = [e6.root_name(x) for x in val[1]]
    PRIM = {"Add": "add_inplace", "Subtract": "sub_inplace", "Multiply": "mul_inplace", "Mean": "mean_inplace"}
    LIN = e6.lin
    res = {}

    def note(key, ok, detail=""):
        res.setdefault(key, []).append((bool(ok), detail))

    def paths_of(e):
        return [e6.Path({}, pc=x[0], eff=x[1], exit=x[2], val=x[3]) for x in e[3]]

    def rooted(t, name):
        return e6.root_name(t) == name
    n_loop = n_plain = 0
    for q in L["paths"]:
        if q.exit is not None and q.exit[0] == "panic":
            continue
        has, T3, key_ok = None, None, True
        for (t, pol) in q.pc:
            ck = e6.is_call(t, "contains_key", 2)
            if ck and ck[0] == LB:
                has, key_ok, T3 = pol, LIN(ck[1]) == LIN(I), ("idx", LB, I)
            if isinstance(t, tuple) and t[0] == "is" and t[2] in ("Option::Some", "Option::None"):
                g = e6.is_call(t[1], "get", 2)
                if g and g[0] == LB:
                    has = pol if t[2] == "Option::Some" else (not pol)
                    key_ok, T3 = LIN(g[1]) == LIN(I), ("payload", t[1], "Option::Some", 0)
        if has is None:
            if e6.contains(tuple(q.eff), LB):
                note("guard", False, "a visit reads self.loopbacks without testing for an entry")
            has = False
        reruns = e6.find_terms(tuple(q.eff), lambda t: t[0] == "call" and t[1] == "network::Network::_forward" and len(t[2]) == 4 and LIN(t[2][2]) != LIN(I))
        if not has:
            n_plain += 1
            note("guard", not reruns, "a range is re-run without a registered loop")
            continue
        n_loop += 1
        note("guard", key_ok, "the entry looked up is not the one of the layer index")
        into, iters, insk = e6.mk_proj(T3, 0), e6.mk_proj(T3, 1), e6.mk_proj(T3, 2)
        uses = set()
        for t in e6.find_terms(tuple(q.eff), lambda t: t[0] == "proj" and e6.strip_upd(t[1]) in (T3, ("un", "Deref", T3))):
            uses.add(t[2])
        note("triple", uses == {0, 1, 2}, "components of the stored triple used: %s" % sorted(uses))
        effs = list(q.eff)
        own = [k for k, e in enumerate(effs) if e[0] == "mut" and e[1].rsplit("::", 1)[-1] in ("append", "extend", "push") and e[2] == ("local", act_n)]
        def reruns_range(e):
            for x in e[3]:
                for f in x[1]:
                    if f[0] in ("push", "mut") and e6.find_terms(f[2] if f[0] == "push" else f[3], lambda t: t[0] == "proj" and e6.is_call(t[1], "_forward", 4) is not None
                                                                  and LIN(t[1][2][2]) != LIN(I)):
                        return True
            return False
        itl = [k for k, e in enumerate(effs) if e[0] == "loop" and reruns_range(e)]
        if len(itl) != 1:
            note("iterations", False, "%d loops re-run the range" % len(itl))
            continue
        ki = itl[0]
        IT = effs[ki]
        note("after-own", bool(own) and own[0] < ki, "the re-run starts before the layer's own records are appended")
        rng = e6.range_of(IT[2])
        note("iterations", rng is not None and rng[0] == ("lit", "0") and LIN(rng[1]) == LIN(iters), "the range is re-run over %s" % e6.show(IT[2], 3)[:80])
        fposts_n = fpres_n = fmaxs_n = None
        formB = set()
        for x in paths_of(IT):
            if x.exit is not None and x.exit[0] == "panic":
                continue
            if x.exit is not None:
                note("records", False, "a pass leaves the loop early")
                continue
            fw = [e[2][1] for e in x.eff if e[0] == "push" and isinstance(e[2], tuple) and e[2][0] == "proj" and e6.is_call(e[2][1], "_forward", 4) is not None]
            if not fw or any(f != fw[0] for f in fw):
                note("rerun", False, "a pass does not run _forward exactly once")
                continue
            FW = fw[0]
            note("rerun", FW[2][0] == SELF and LIN(FW[2][2]) == LIN(into) and LIN(FW[2][3]) == LIN(e6.mk_bin("Add", I, ("lit", "1"))),
                 "_forward(.., %s, %s)" % (e6.show(FW[2][2], 2)[:40], e6.show(FW[2][3], 2)[:40]))
            pushes = [e for e in x.eff if e[0] == "push"]
            byproj = {}
            for e in pushes:
                if isinstance(e[2], tuple) and e[2][0] == "proj" and e[2][1] == FW and e[1][0] == "local":
                    byproj[e[2][2]] = e[1][1]
            okrec = len(pushes) == 3 and set(byproj) == {0, 1, 2} and [e[2][2] for e in pushes if isinstance(e[2], tuple) and e[2][0] == "proj"] == [0, 1, 2]
            note("records", okrec, "a pass records %s" % [e6.show(e[2], 1)[:30] for e in pushes])
            if not okrec:
                continue
            fpres_n, fposts_n, fmaxs_n = byproj[0], byproj[1], byproj[2]
            CUR = FW[2][1]
            C0 = ("call", "std::option::Option::<T>::unwrap", (("call", "core::slice::<impl [T]>::last", (("call", "std::option::Option::<T>::unwrap",
                  (("call", "core::slice::<impl [T]>::last", (("loopin", fposts_n, IT[1]),)),)),)),))
            # placeholder-free form: the post record starts empty and a pass asks `fposts.last()`: None -> the layer's own output
            LASTP = ("call", "core::slice::<impl [T]>::last", (("loopin", fposts_n, IT[1]),))
            for (t, pol) in x.pc:
                if isinstance(t, tuple) and t[0] == "is" and t[1] == LASTP and t[2] in ("Option::Some", "Option::None"):
                    some = pol if t[2] == "Option::Some" else (not pol)
                    formB.add(some)
                    if some:
                        C0 = ("call", "std::option::Option::<T>::unwrap", (("call", "core::slice::<impl [T]>::last", (("payload", LASTP, "Option::Some", 0),)),))
                    else:
                        own_out = e6.find_terms(CUR, lambda u_: (e6.is_call(u_, "unwrap", 1) or e6.is_call(u_, "expect")) is not None
                                                and e6.is_call((e6.is_call(u_, "unwrap", 1) or e6.is_call(u_, "expect"))[0], "last", 1) is not None
                                                and rooted(e6.is_call((e6.is_call(u_, "unwrap", 1) or e6.is_call(u_, "expect"))[0], "last", 1)[0], act_n)
                                                and e6.is_call((e6.is_call(u_, "unwrap", 1) or e6.is_call(u_, "expect"))[0], "last", 1)[0] != ("loopin", act_n, lid))
                        C0 = own_out[0] if len(set(own_out)) == 1 else ("?",)
            INS = ("call", "network::Layer::inputs", (("idx", LAYERS, into),))
            OUTS = ("call", "network::Layer::outputs", (("idx", LAYERS, I),))
            same = None
            sk = None
            for (t, pol) in x.pc:
                if isinstance(t, tuple) and t[0] == "bin" and t[1] == "Eq" and {e6.strip_upd(t[2]), e6.strip_upd(t[3])} == {INS, OUTS}:
                    same = pol
                if e6.strip_upd(t) == insk or e6.strip_upd(t) == ("un", "Deref", insk):
                    sk = pol
            RS = ("call", "tensor::Tensor::reshape", (C0, INS))
            bases = [C0, RS] if same is True else [RS]
            base = CUR
            added = None
            if isinstance(CUR, tuple) and CUR and CUR[0] == "upd" and CUR[2].startswith("tensor::Tensor::add_inplace@") and len(CUR[3]) == 1:
                base, added = CUR[1], CUR[3][0]
            note("current", e6.contains(CUR, C0), "a pass starts from %s" % e6.show(CUR, 3)[:100])
            note("reshape", base in bases, "entry shape handling: current = %s (shapes equal: %s)" % (e6.show(base, 3)[:100], same))
            if sk is True:
                oks = (added is not None and isinstance(added, tuple) and added[0] == "idx" and rooted(added[1], act_n) and LIN(e6.strip_upd(added[2])) == LIN(into))
                note("inskip", oks, "with input skips the pass receives %s" % e6.show(CUR, 3)[:120])
            elif sk is False:
                note("inskip", added is None and not isinstance(base, tuple) or (added is None), "without input skips the pass receives %s" % e6.show(CUR, 3)[:120])
            else:
                note("inskip", False, "a pass does not consult the stored inskips flag")
        if fposts_n is None:
            continue
        seed = e6.entry_value(q, ("loopin", fposts_n, IT[1]))
        oks = False
        if isinstance(seed, tuple) and seed[0] == "vec" and len(seed[1]) == 1 and isinstance(seed[1][0], tuple) and seed[1][0][0] == "vec" and len(seed[1][0][1]) == 1:
            u = e6.is_call(seed[1][0][1][0], "unwrap", 1) or e6.is_call(seed[1][0][1][0], "expect")
            l_ = e6.is_call(u[0], "last", 1) if u else None
            oks = bool(l_) and rooted(l_[0], act_n) and l_[0] != ("loopin", act_n, lid)
        if formB:
            empty = e6.is_call(seed, "new", 0) is not None or seed == ("vec", ()) or e6.is_call(seed, "with_capacity", 1) is not None
            oks = empty and formB == {True, False}
        note("seed", oks, "the post record starts as %s" % e6.show(seed, 3)[:100])
        rest = effs[ki + 1:]
        accl = [k for k, e in enumerate(rest) if e[0] == "loop"]
        rm = [k for k, e in enumerate(rest) if e[0] == "mut" and e[1].endswith("::remove") and e[2] == ("local", fposts_n) and e[3] == (("lit", "0"),)]
        if len(accl) != 1:
            note("range", False, "%d loops follow the passes" % len(accl))
            continue
        anyrm = [k for k, e in enumerate(rest) if e[0] == "mut" and e[2] == ("local", fposts_n) and e[1].rsplit("::", 1)[-1] not in ("shrink_to_fit", "reserve", "shrink_to", "reserve_exact")]
        if formB:
            note("placeholder", not anyrm, "the post record has no placeholder entry but is modified after the passes")
        else:
            note("placeholder", len(rm) == 1 and rm[0] < accl[0] and len(anyrm) == 1, "fposts.remove(0) between the passes and the accumulation: %d" % len(rm))
        ACC = rest[accl[0]]
        a_it = ACC[2]
        a_el = ("elem", a_it, ACC[1])
        en = e6.is_call(a_it, "enumerate", 1)
        rng2 = e6.range_of(en[0] if en else a_it)
        okrng = rng2 is not None and LIN(rng2[0]) == LIN(into) and LIN(rng2[1]) == LIN(e6.mk_bin("Add", I, ("lit", "1")))
        note("range", okrng, "accumulation walks %s" % e6.show(a_it, 3)[:80])
        if en:
            J, IDX = LIN(("proj", a_el, 1)), LIN(("proj", a_el, 0))
        else:
            J, IDX = LIN(a_el), LIN(e6.mk_bin("Sub", a_el, into))
        J1 = LIN(e6.mk_bin("Add", ("proj", a_el, 1) if en else a_el, ("lit", "1")))

        def operand(t, rec_n, pass_el, need_removed=False):
            """t == REC[pass][idx]"""
            t0 = t
            if isinstance(t0, tuple) and t0[0] == "payload" and t0[2] == "Option::Some":
                t0 = t0[1]
            if not (isinstance(t0, tuple) and t0[0] == "idx" and isinstance(t0[1], tuple) and t0[1][0] == "idx"):
                return False
            if LIN(e6.strip_upd(t0[2])) != IDX or not rooted(t0[1][1], rec_n):
                return False
            if pass_el is not None and e6.strip_upd(t0[1][2]) != pass_el:
                return False
            if need_removed and not formB and not e6.find_terms(t0[1][1], lambda u_: u_[0] == "upd" and "::remove@" in u_[2]):
                return False
            return True
        seen_v = set()
        for y in paths_of(ACC):
            if y.exit is not None and y.exit[0] == "panic":
                continue
            V = None
            for (t, pol) in y.pc:
                if pol and isinstance(t, tuple) and t[0] == "is" and t[1] == ACCF:
                    V = t[2].split("::")[-1]
            if V is None:
                note("dispatch", False, "an accumulation step does not consult self.loopaccumulation")
                continue
            seen_v.add(V)
            note("dispatch", True)
            if V == "Mean":
                muts = [e for e in y.eff if e[0] == "mut" and e[1].startswith("tensor::Tensor::") and e[1].rsplit("::", 1)[-1] in set(PRIM.values()) | {"div_scalar_inplace"}]
                good = len(muts) == 2 and all(e[1].endswith("::mean_inplace") for e in muts)
                if good:
                    for e, (tn, jj, rec_n, rmv) in zip(muts, ((pre_n, J, fpres_n, False), (act_n, J1, fposts_n, True))):
                        pl = e[2]
                        okp = isinstance(pl, tuple) and pl[0] == "idx" and pl[1] == ("local", tn) and LIN(e6.strip_upd(pl[2])) == jj
                        a = e[3][0] if e[3] else None
                        cm = e6.is_call(a, "collect", 1)
                        mp = e6.is_call(cm[0], "map", 2) if cm else None
                        okm = False
                        if mp and rooted(mp[0], rec_n) and isinstance(mp[1], tuple) and mp[1][0] == "closure":
                            if rmv and not formB and not e6.find_terms(mp[0], lambda u_: u_[0] == "upd" and "::remove@" in u_[2]):
                                okm = False
                            else:
                                cl_eff = [z for z in y.eff if z[0] == "loop" and z[1] == "cl%s" % mp[1][1]]
                                if cl_eff and len(cl_eff[0][3]) == 1 and not cl_eff[0][3][0][0] and cl_eff[0][3][0][2] is None:
                                    v_ = cl_eff[0][3][0][3]
                                    elc = ("elem", e6.strip_upd(mp[0]), "cl%s" % mp[1][1])
                                    okm = isinstance(v_, tuple) and v_[0] == "idx" and e6.strip_upd(v_[1]) == elc and LIN(e6.strip_upd(v_[2])) == IDX
                        else:
                            # the same list built by a push loop over the record (`for pass in fpres.iter() { v.push(&pass[idx]) }`)
                            es = e6.elementwise_sequence(E, a) if a is not None else None
                            okm = False
                            if es is not None and rooted(es[0], rec_n):
                                S_, v_, el_ = es
                                if not (rmv and not formB and not e6.find_terms(S_, lambda u_: u_[0] == "upd" and "::remove@" in u_[2])):
                                    v0_ = e6.strip_upd(v_)
                                    okm = isinstance(v0_, tuple) and v0_[0] == "idx" and e6.strip_upd(v0_[1]) == e6.strip_upd(el_) and LIN(e6.strip_upd(v0_[2])) == IDX
                        good = good and okp and okm
                note("operands:Mean", good, "Mean step: %s" % [e6.show(e[2], 2)[:40] + " <- " + e6.show(e[3][0], 2)[:60] for e in muts])
                continue
            inner = [e for e in y.eff if e[0] == "loop" and e6.range_of(e[2]) is not None]
            other = [e for e in y.eff if e[0] != "loop"]
            rngp = e6.range_of(inner[0][2]) if len(inner) == 1 else None
            okev = len(inner) == 1 and not other and rngp[0] == ("lit", "0") and LIN(rngp[1]) == LIN(iters)
            note("every-iteration:" + V, okev, "%s: %d pass loops, other effects %d" % (V, len(inner), len(other)))
            if not okev:
                continue
            p_el = ("elem", inner[0][2], inner[0][1])
            for z in paths_of(inner[0]):
                if z.exit is not None and z.exit[0] == "panic":
                    continue
                if z.exit is not None:
                    note("every-iteration:" + V, False, "%s: a pass is left early" % V)
                    continue
                if V == "Overwrite":
                    ups = [e for e in z.eff if e[0] == "set" and isinstance(e[1], tuple) and e[1][0] == "idx" and e[1][1] in (("local", pre_n), ("local", act_n))]
                    prims = [e for e in z.eff if e[0] == "mut" and e[1].rsplit("::", 1)[-1] in PRIM.values()]
                    pairs = [(e[1], e[2]) for e in ups]
                    okp = not prims
                else:
                    ups = [e for e in z.eff if e[0] == "mut" and e[1].startswith("tensor::Tensor::") and e[1].rsplit("::", 1)[-1] in set(PRIM.values()) | {"div_scalar_inplace"}]
                    okp = all(e[1].rsplit("::", 1)[-1] == PRIM[V] for e in ups)
                    pairs = [(e[2], e[3][0] if e[3] else None) for e in ups]
                good = okp and len(pairs) == 2
                if good:
                    (p0, a0), (p1, a1) = pairs
                    good = (isinstance(p0, tuple) and p0[0] == "idx" and p0[1] == ("local", pre_n) and LIN(e6.strip_upd(p0[2])) == J and operand(a0, fpres_n, p_el)
                            and isinstance(p1, tuple) and p1[0] == "idx" and p1[1] == ("local", act_n) and LIN(e6.strip_upd(p1[2])) == J1 and operand(a1, fposts_n, p_el, True))
                note("operands:" + V, good, "%s step: %s" % (V, [e6.show(a_, 2)[:40] + " <- " + e6.show(b_, 2)[:70] for a_, b_ in pairs]))
                # max-pool indices: whenever maxpools[..] is looked at, it is maxpools[j], combined with fmaxs[pass][idx]
                gm = e6.find_terms(tuple(z.pc) + tuple(z.eff), lambda t: t[0] == "call" and t[1].rsplit("::", 1)[-1] in ("get_mut", "get") and len(t[2]) == 2 and rooted(t[2][0], max_n))
                mx = [e for e in z.eff if (e[0] == "mut" and e[1] == "tensor::Tensor::extend") or (e[0] == "set" and e[1][0] == "local" and e not in ups and V == "Overwrite")]
                okmx = all(LIN(e6.strip_upd(g_[2][1])) == J for g_ in gm) and all(operand(e[3][0] if e[0] == "mut" else e[2], fmaxs_n, p_el) for e in mx)
                note("maxpool-indices:" + V, okmx, "%s: maxpools looked up at %s, combined with %s" % (V, [e6.show(g_[2][1], 2)[:30] for g_ in gm], [e6.show(e[3][0] if e[0] == "mut" else e[2], 2)[:60] for e in mx]))
        acc = c.adts.get("feedback::Accumulation")
        for v_ in [x_["name"] for x_ in acc["variants"]]:
            if v_ not in seen_v:
                note("operands:" + v_, False, "no accumulation step handles %s" % v_)

    def verdict(key):
        r_ = res.get(key, [])
        return bool(r_) and all(x[0] for x in r_), next((x[1] for x in r_ if not x[0]), "")
    for rule, key, inst, what in (
            ("R17.1", "guard", "guard-key-is-layer-index", "contains_key(&i)"),
            ("R17.1", "after-own", "after-own-forward", "the loop block follows the layer's own forward pass"),
            ("R17.1", "triple", "triple-from-loopbacks[i]", "(into, iterations, inskips) = self.loopbacks[&i]"),
            ("R17.1", "seed", "starts-from-own-output", "fposts = vec![vec![activated.last().clone()]]"),
            ("R17.1", "iterations", "iterations-times", "for _ in 0..iterations"),
            ("R17.1", "current", "current-is-previous-output", "current = previous iteration's last output"),
            ("R17.1", "reshape", "reshape-to-entry-shape", "if layers[into].inputs() != layers[i].outputs() { current = current.reshape(inputs) }"),
            ("R17.1", "inskip", "inskip-adds-entry-input", "if inskips { current.add_inplace(&activated[into]) }"),
            ("R17.1", "rerun", "rerun-range", "_forward(&current, into, i + 1)"),
            ("R17.1", "records", "records-each-iteration", "push fpre, fpost, fmax"),
            ("R17.2", "placeholder", "placeholder-removed", "fposts.remove(0) between the iterations and the accumulation"),
            ("R17.2", "range", "covers-into..=i", "for (idx, j) in (into..i + 1).enumerate()"),
            ("R17.2", "dispatch", "dispatch-on-loopaccumulation", "match self.loopaccumulation")):
        ok, why = verdict(key)
        if key == "guard":
            ok = ok and n_loop > 0 and n_plain > 0
        ctx.check(rule, inst, ok, key + ":" + short(why, 90), where, what, "Network::forward: %s" % why)
    ok_r, _ = verdict("reshape")
    ok_i, _ = verdict("inskip")
    ctx.check("R17.1", "iteration-order", ok_r and ok_i, "iteration-statement-order", where, "reshape, then input skip, then re-run")
    acc = c.adts.get("feedback::Accumulation")
    for v_ in [x_["name"] for x_ in acc["variants"]]:
        keys = ["operands:" + v_] + ([] if v_ == "Mean" else ["every-iteration:" + v_, "maxpool-indices:" + v_])
        for key in keys:
            ok, why = verdict(key)
            tag = {"operands": "accumulation-operands", "every-iteration": "iteration-walk", "maxpool-indices": "maxpool-index-bookkeeping"}[key.split(":")[0]]
            ctx.check("R17.2", key, ok, "%s:%s:%s" % (tag, v_, short(why, 80)), where,
                      {"operands": "preactivated[j] <- fpres[it][idx]; activated[j+1] <- fposts[it][idx]", "every-iteration": "for iteration in 0..iterations",
                       "maxpool-indices": "maxpools[j] combined with fmaxs[iteration][idx]"}[key.split(":")[0]], "Network::forward, %s" % why)


def r3(ctx):
    c = ctx.crate
    key_agreement(ctx, "R17.3", "network::Network::loopback", "loopbacks", "loopback", False)
    fn = ctx.fn("network::Network::loopback")
    P = {pat_binds(p)[0][0]: pat_binds(p)[0][1] for p in fn["params"] if pat_binds(p)}
    st = top_stmts_of(fn["body"])
    from ..hir import let_table, cpretty
    from .common import range_bounds
    TT = let_table(fn["body"])
    env0 = {}
    for h_, init_ in TT.items():
        try:
            env0[h_] = e1.Norm(c, env0).norm(init_)
        except ValueError:
            pass
    # what is known false when the connection is stored (panicking guards before it, enclosing branches)
    inserts = [x for x in walk(fn["body"]) if x.get("k") == "mcall" and hm(x["callee"], "insert") and "loopbacks" in pretty(x["recv"])]
    first = inserts[0] if inserts else fn["body"]
    N = e1.Norm(c, env0)
    known_false = set()
    cond = "?"
    if inserts:
        pcs = [it for it in (e4.path_conditions(c, fn["body"], inserts[0]) or []) if it["kind"] == "if" or it.get("panics")]
        descr = []
        for (a, pol, _) in e4.atoms_of(pcs):
            try:
                v = N.norm(a)
            except ValueError:
                continue
            known_false.add(str(v) if not pol else str(e1.negate_cond(v)))
            descr.append(("!" if not pol else "") + pretty(a))
        cond = " && ".join(descr)
    okk = bool(inserts)
    L = Rat.atom("len(self.layers)")
    need = {e1.cmp_atom("Ge", Rat.atom("into"), L, integer=True), e1.cmp_atom("Lt", Rat.atom("outof"), Rat.atom("into"), integer=True)}
    parts_ok = need <= known_false
    ctx.check("R17.3", "index-validation", okk and parts_ok, "index-validation:" + short(cond, 90), c.loc(fn, first), "rejects into >= len and outof < into")
    # shape agreement and loop counts, decided on the E6 effect summary of loopback
    from .. import e6
    E = e6.Exec(c, fn)
    fpaths = [p for p in E.run_fn() if p.exit is None or p.exit[0] == "return"]
    Lyr = ("field", ("p", "self"), "layers")
    pin, pout, pit = ("p", "into"), ("p", "outof"), ("p", "iterations")

    def shape_of(layer_idx, field, facts):
        """terms that denote `layers[idx].<field>`: the accessor call, or the field of the payload of the variant known on this path"""
        el = ("idx", Lyr, layer_idx)
        out = [("call", "network::Layer::" + field, (el,))]
        for (t, pol) in facts:
            if pol and isinstance(t, tuple) and t[0] == "is" and t[1] == el:
                out.append(("field", ("payload", el, t[2], 0), field))
        return out
    oka = bool(fpaths)
    for p in fpaths:
        A = shape_of(pin, "inputs", p.pc)
        B = shape_of(pout, "outputs", p.pc)
        found = False
        for (t, pol) in p.pc:
            if isinstance(t, tuple) and t[0] == "bin" and t[1] in ("Eq", "Ne") and ((t[1] == "Eq") == pol):
                if (t[2] in A and t[3] in B) or (t[3] in A and t[2] in B):
                    found = True
        oka = oka and found
    ctx.check("R17.3", "shape-equality-asserted", oka, "loop-shape-check", c.loc(fn), "every non-panicking path has established layers[into].inputs == layers[outof].outputs")
    okl = False
    why = ""
    for p in fpaths[:1]:
        loops_ = [e for e in p.eff if e[0] == "loop" and E.loop_summaries[e[1]].get("kind") == "for"
                  and any(f[0] == "set" and isinstance(f[1], tuple) and f[1][0] == "field" and f[1][2] == "loops" for bp in E.loop_summaries[e[1]]["paths"] for f in bp.eff)]
        if len(loops_) != 1:
            why = "%d loops raise `loops`" % len(loops_)
            break
        lid, it = loops_[0][1], loops_[0][2]
        el = ("elem", it, lid)
        rng = e6.range_of(it)
        want_rng = (pin, e6.mk_bin("Add", pout, ("lit", "1")))
        if rng is not None:
            scrut = ("idx", Lyr, el)
            dom_ok = rng == want_rng
        else:
            scrut = el
            dom_ok = isinstance(it, tuple) and it[0] == "idx" and it[1] == Lyr and e6.range_of(it[2]) == want_rng
        n = 0
        arms_ok = True
        for v in ("Dense", "Convolution", "Deconvolution", "Maxpool"):
            vp = "network::Layer::" + v
            mine = [bp for bp in E.loop_summaries[lid]["paths"] if bp.exit is None and e6.variant_of(bp).get(scrut) == vp]
            if len(mine) != 1:
                arms_ok = False
                continue
            pay = ("payload", scrut, vp, 0)
            sets = [f for f in mine[0].eff if f[0] == "set" and isinstance(f[1], tuple) and f[1][0] == "field" and f[1][2] == "loops"]
            want = e6.mk_bin("Add", ("field", pay, "loops"), ("cast", pit, "f32"))
            if len(sets) == 1 and e6.strip_upd(sets[0][2]) == want:
                n += 1
            else:
                arms_ok = False
                why = "%s: %s" % (v, [e6.show(f[2], 2) for f in sets])
        okl = dom_ok and arms_ok and n == 4
        if not dom_ok:
            why = "layers walked: %s" % e6.show(it, 2)
    ctx.check("R17.3", "loop-counts-raised", okl, "loop-count-update:" + short(why, 60), c.loc(fn), "for every layer in into..=outof: layer.loops += iterations",
              "the repeat count of the layers in the loop range is not raised by `iterations` for exactly layers into..=outof: %s" % why)
    ins = [x for x in walk(fn["body"]) if x.get("k") == "mcall" and x["name"] == "insert"]
    # the stored components are the caller's arguments themselves (parameters by identity, not a re-bound / adjusted copy)
    ok = False
    if len(ins) == 1:
        tv = strip(ins[0]["args"][1])
        kv = e4.local_hid(ins[0]["args"][0])
        if tv is not None and tv.get("k") == "tup" and len(tv["xs"]) == 3:
            from ..hir import resolve
            comp = [e4.local_hid(resolve(z, TT)) for z in tv["xs"]]
            ok = comp == [P.get("into"), P.get("iterations"), P.get("inskips")] and None not in comp and kv == P.get("outof")
    ctx.check("R17.3", "stored-triple", ok, "stored-connection", c.loc(fn), "loopbacks.insert(outof, (into, iterations, inskips))")


def reshape_helpers(ctx, rule):
    """values cross a skip / loop connection through Tensor::reshape / flatten: both keep the row-major element sequence (C14's R14.1/R14.2 re-run)"""
    from . import c14
    sub = type(ctx)(ctx.prop, ctx.facts)
    sub.guard("R14.1", "reshape", c14.r1_r2_reshape, sub)
    sub.guard("R14.2", "flatten", c14.r2_flatten, sub)
    bad = [o for o in sub.obligations if o["status"] != "ok"]
    for o in bad:
        ctx.bad(rule, "reshape:" + o["instance"], o["key"].split("/", 3)[-1], o["where"], o["detail"])
    ctx.check(rule, "reshape-is-row-major", not bad and len(sub.obligations) >= 9, "reshape-broken", "src/tensor.rs",
              "%d facts: reshape asserts the element count and rebuilds in row-major order; flatten / get_flat / get_triple are row-major" % len(sub.obligations))


def range_forward(ctx, rule):
    """a loop re-runs Network::_forward over a range of layers: that walk feeds every layer the previous layer's output, for every layer
    kind (C02's R02.5 re-run under this property)"""
    from . import c02
    sub = type(ctx)(ctx.prop, ctx.facts)
    sub.guard("R02.5", "composition", c02.r5, sub)
    bad = [o for o in sub.obligations if o["status"] != "ok"]
    for o in bad:
        ctx.bad(rule, "range-forward:" + o["instance"], o["key"].split("/", 3)[-1], o["where"], o["detail"])
    ctx.check(rule, "range-forward", not bad and len(sub.obligations) >= 8, "range-forward-broken", "src/network.rs",
              "%d facts about Network::_forward / predict" % len(sub.obligations))


RULES["R17.6"] = "the range walk used by every loop iteration (Network::_forward) chains the layers in order for every layer kind (R02.5 re-run under this property)"


def run(ctx):
    ctx.guard("R17.6", "range-forward", range_forward, ctx, "R17.6")
    from .common import accumulation_setter
    ctx.guard("R17.2", "accumulation-setter", accumulation_setter, ctx, "R17.2")
    ctx.guard("R17.5", "reshape", reshape_helpers, ctx, "R17.5")
    ctx.guard("R17.1", "re-run", loop_block_e6, ctx)
    ctx.guard("R17.2", "primitives", primitives, ctx, "R17.2")
    ctx.guard("R17.3", "loopback", r3, ctx)
    for l in spatial.LAYERS:
        ctx.guard("R17.4", l, spatial.flat_rechunk, ctx, "R17.4", l)
    ctx.floor("R17.1", 11, "")
    ctx.floor("R17.2", 3 + 5 + 4 + 4 + 1 + 1, "range, placeholder, dispatch; operands x5, every-iteration x4, maxpool x4; setter; primitives")
    ctx.floor("R17.3", 5, "key, validation, shape, counts, stored")
    ctx.floor("R17.4", 6, "")
