"""C03 - optimizer steps follow the documented update rules."""
from fractions import Fraction as Fr

from ..core import Unestablished
from ..hir import walk, strip, pretty, short, calls, pat_binds
from .. import e1, e2, e4, arms
from ..e1 import Rat, r_sqrt, r_max, fn_atom
from ..e2 import AV, INF
from ..extract import Unrecognised

LEVEL = "other"
RULES = {
    "R03.1": "rank-sibling agreement: in SGD/SGDM/Adam/AdamW/RMSprop::update the Single, Double and Triple arms traverse every "
             "element with aligned indices (0..w.len(), 0..w[i].len(), ...) and reduce to the same per-element program (same "
             "cells written, same canonical rational expression per guard valuation)",
    "R03.2": "agreement with the documented equations (PyTorch-style, see DESIGN appendix B): new parameter and every new "
             "state component as a rational function of old parameter, gradient, old state, hyper-parameters and beta^stepnr, "
             "per valuation of (decay Some/None, momentum branch, centred, momentum Some/None); equality over the reals",
    "R03.3": "slot isolation: every state tensor is addressed as self.<state>[layer][filter][bias as usize] with the update's own "
             "(layer, filter, bias) parameters; update writes nothing else of self; Network::update / Feedback::update pass "
             "(i, 0, false | i, 0, true | i, f, false) with i the reverse-enumeration index that also selects the gradient",
    "R03.4": "Optimizer::validate: each zero test is on the hyper-parameter that is then assigned its default; every stateful "
             "variant gets all of its state vectors assigned; Optimizer::update dispatches every variant to its own update",
    "R03.5": "NaN-freedom (interval/sign analysis): under the stated ranges every sqrt argument is >= 0, every denominator is "
             "non-zero, second-moment state stays >= 0 (inductive), and no written cell may be NaN",
}
ASSUMPTIONS = [
    "parameters, gradients finite with magnitude <= 2^30; first-moment/buffer state finite; second-moment state >= 0 (checked inductive)",
    "learning rate, decay in [0, 2^10]; momentum, dampening in [0,1]; beta1, beta2, alpha in [0, 1-2^-24]; epsilon in [2^-40, 1]; stepnr >= 1",
    "no overflow to infinity (the property's own proviso); equality with the documented equations is over the reals, rounding ignored",
]
TRUSTED = ["rustc nightly front end", "driver/src/main.rs", "sa/extract.py", "sa/e1.py", "sa/e2.py"]

OPT = "optimizer::"
KINDS = ["SGD", "SGDM", "Adam", "AdamW", "RMSprop"]
STATE = {"SGD": [], "SGDM": ["velocity"], "Adam": ["momentum", "velocity"], "AdamW": ["momentum", "velocity"],
         "RMSprop": ["velocity", "gradient", "buffer"]}


def A(s):
    return Rat.atom(s)


def spec(kind, val, W, G):
    """-> {cell: Rat} expected store for semantic valuation `val` (dict)."""
    w, g = A(W), A(G)
    lr = A("self.learning_rate")
    out = {}
    if kind == "AdamW":
        g1 = g
    elif val.get("decay"):
        g1 = g + A("self.decay.Some") * w
        out[G] = g1
    else:
        g1 = g
    if kind == "SGD":
        out[W] = w - lr * g1
    elif kind == "SGDM":
        v = A("self.velocity")
        if val["mom"]:
            v1 = v * A("self.momentum") + (1 - A("self.dampening")) * g1
            out["self.velocity"] = v1
            out[G] = v1
            out[W] = w - lr * v1
        else:
            out["self.velocity"] = g1
            out[W] = w - lr * g1
    elif kind in ("Adam", "AdamW"):
        m, v = A("self.momentum"), A("self.velocity")
        b1, b2 = A("self.beta1"), A("self.beta2")
        w1 = w
        if kind == "AdamW":
            w1 = w - lr * A("self.decay") * w
        m1 = m * b1 + g1 * (1 - b1)
        v1 = v * b2 + g1 * g1 * (1 - b2)
        mh = m1 / (1 - fn_atom("pow", b1, A("stepnr")))
        vh = v1 / (1 - fn_atom("pow", b2, A("stepnr")))
        out["self.momentum"] = m1
        out["self.velocity"] = v1
        out[W] = w1 - lr * mh / (r_sqrt(vh) + A("self.epsilon"))
    elif kind == "RMSprop":
        al = A("self.alpha")
        v1 = al * A("self.velocity") + (1 - al) * g1 * g1
        out["self.velocity"] = v1
        vt = v1
        alts = [vt]
        if val["centered"]:
            gb = al * A("self.gradient") + (1 - al) * g1
            out["self.gradient"] = gb
            vt = v1 - gb * gb
            alts = [vt, r_max(vt, 0)]   # max(., 0) is a real-arithmetic no-op on a variance: both forms accepted
        res = []
        for vv in alts:
            o = dict(out)
            den = r_sqrt(vv) + A("self.epsilon")
            if val["mom_some"]:
                b1_ = A("self.momentum.Some") * A("self.buffer") + g1 / den
                o["self.buffer"] = b1_
                o[W] = w - lr * b1_
            else:
                o[W] = w - lr * g1 / den
            res.append(o)
        return res
    return [out]


GUARDS = {
    "is_some(self.decay)": "decay",
    "and(gt0(-1 + stepnr), ne0(self.momentum))": "mom",
    "self.centered": "centered",
    "is_some(self.momentum)": "mom_some",
}


def update_fn(ctx, kind):
    return ctx.fn(OPT + kind + "::update")


def r1_r2(ctx, kind):
    c = ctx.crate
    fn = update_fn(ctx, kind)
    m = arms.data_match(fn["body"])
    if m is None:
        raise Unestablished("no rank dispatch in %s::update" % kind, c.loc(fn))
    names = [d["name"] for d in arms.scrut_names(c, m)]
    arms.guarded_arms(ctx, "R03.1", fn, m, kind)
    pn = [pat_binds(p)[0][0] for p in fn["params"]]
    W, G = pn[-2], pn[-1]
    expected_roots = [W, G] + ["self." + s for s in STATE[kind]]
    if sorted(names) != sorted(expected_roots):
        ctx.bad("R03.3", kind + ":roots", "unexpected-tensors-in-update:" + ",".join(names), c.loc(fn, m),
                "update of %s matches on %s, expected %s" % (kind, names, expected_roots))
        return
    ras = arms.rank_arms(m, names)
    sems = {}
    for ra in ras:
        rank = ra["rank"]
        inst = "%s:%s" % (kind, rank)
        where = c.loc(fn, ra["arm"]["body"])
        if ra["mixed"] or rank not in ("Single", "Double", "Triple"):
            ctx.bad("R03.1", inst, "unexpected-arm", where, "arm mixes ranks or is not Single/Double/Triple")
            continue
        try:
            sem, r = arms.arm_semantics(c, ra, env=arms.fn_level_env(c, fn, upto=m))
        except (Unrecognised, ValueError) as e:
            ctx.bad("R03.1", inst, "arm-not-recognised-as-elementwise", where,
                    "cannot establish that the %s arm updates every element with aligned indices: %s" % (rank, e))
            continue
        depth = ["Single", "Double", "Triple"].index(rank) + 1
        if r.levels != depth:
            ctx.bad("R03.1", inst, "traversal-depth-%d" % r.levels, where, "")
            continue
        sems[rank] = (sem, ra, r)
    for rank in ("Single", "Double", "Triple"):
        if rank not in sems and not any(o["instance"] == "%s:%s" % (kind, rank) for o in ctx.obligations if o["rule"] == "R03.1"):
            ctx.bad("R03.1", "%s:%s" % (kind, rank), "rank-not-supported", c.loc(fn, m), "no %s arm" % rank)
    if "Single" not in sems:
        return
    ref = sems["Single"][0]
    ctx.ok("R03.1", kind + ":Single", "reference arm: %d guard valuation(s), cells %s" % (len(ref), sorted(ref[0][1])), c.loc(fn, sems["Single"][1]["arm"]["body"]))
    for rank in ("Double", "Triple"):
        if rank in sems:
            ok, why = arms.stores_equal(ref, sems[rank][0])
            ctx.check("R03.1", "%s:%s" % (kind, rank), ok, "differs-from-Single-arm", c.loc(fn, sems[rank][1]["arm"]["body"]),
                      "same per-element program as the Single arm", "%s arm of %s::update differs from the Single arm: %s" % (rank, kind, short(why, 600)))
    # R03.2 spec agreement on the reference arm
    for guards, st in ref:
        val = {}
        unknown = []
        for gname, gv in guards:
            neg = str(e1.negate_cond(gname)) if gname in e1.REG else None
            if gname in GUARDS:
                val[GUARDS[gname]] = gv
            elif neg in GUARDS:                     # the code tests the complement of the documented condition
                val[GUARDS[neg]] = not gv
            else:
                unknown.append(gname)
        inst = "%s:%s" % (kind, ",".join("%s=%s" % (k, "T" if v else "F") for k, v in sorted(val.items())) or "-")
        where = c.loc(fn, sems["Single"][1]["arm"]["body"])
        if unknown:
            ctx.unest("R03.2", inst, "guard(s) %s have no counterpart in the documented rule" % unknown, where)
            continue
        need = {"SGD": ["decay"], "SGDM": ["decay", "mom"], "Adam": ["decay"], "AdamW": [], "RMSprop": ["decay", "centered", "mom_some"]}[kind]
        if sorted(val) != sorted(need):
            ctx.bad("R03.2", inst, "guard-structure-differs", where, "guards found %s, documented rule branches on %s" % (sorted(val), need))
            continue
        alts = spec(kind, val, W, G)
        got = {k: v for k, v in st.items() if k != "<value>"}
        match = None
        why = ""
        for exp in alts:
            if set(exp) != set(got):
                why = "cells written %s, documented %s" % (sorted(got), sorted(exp))
                continue
            diff = [k for k in exp if exp[k] != got[k]]
            if not diff:
                match = exp
                break
            why = "cell `%s`: code %s ; documented %s" % (diff[0], got[diff[0]], exp[diff[0]])
        ctx.check("R03.2", inst, match is not None, "differs-from-documented-rule", where,
                  "matches the documented equations (cells %s)" % sorted(got), "%s::update %s: %s" % (kind, inst, short(why, 700)))
    return fn, m, sems, W, G


def r3_slots(ctx, kind, fn, m):
    c = ctx.crate
    pn = [pat_binds(p)[0] for p in fn["params"]]
    if kind == "SGD":
        ctx.ok("R03.3", kind + ":stateless", "SGD keeps no state", c.loc(fn))
    else:
        want = [pn[1][1], pn[2][1], pn[3][1]]  # layer, filter, bias
        for d in arms.scrut_names(c, m):
            if not d["name"].startswith("self."):
                continue
            idx = [e4.local_hid(strip(i)["x"]) if strip(i).get("k") == "cast" else e4.local_hid(i) for i in d["index"]]
            ctx.check("R03.3", "%s:%s" % (kind, d["name"]), idx == want, "state-slot-index:" + ",".join(pretty(i) for i in d["index"]), c.loc(fn, m),
                      "%s[layer][filter][bias as usize]" % d["name"],
                      "%s is addressed with [%s], expected [layer][filter][bias as usize]" % (d["name"], "][".join(pretty(i) for i in d["index"])))
    # nothing else of self written
    allowed = set(STATE[kind])
    for mk, mf in c.mir_bodies(OPT + kind + "::update"):
        for w in mf["writes"]:
            if w["adt"] == OPT + kind:
                ctx.check("R03.3", "%s:write:%s" % (kind, w["field"]), False, "hyperparameter-written-in-update", "%s:%s" % (mk, w["line"]), "",
                          "%s::update assigns self.%s" % (kind, w["field"]))
    callees = {cl["callee"] for mk, mf in c.mir_bodies(OPT + kind + "::update") for cl in mf["calls"]}
    impure = sorted(x for x in callees if x.startswith(("std::time", "random::", "std::collections", "std::env", "std::fs", "std::io")))
    ctx.check("R03.3", kind + ":pure", not impure, "update-calls:" + ",".join(impure), c.loc(fn), "update calls only iterator/float intrinsics")


def r3_callsites(ctx):
    """Network::update and Feedback::update on their E6 summaries: the layers are walked in the reverse order in which the optimizer
    state was sized; per layer variant every parameter tensor is handed to Optimizer::update exactly once, with its own gradient and
    its own (layer, filter, bias) slot:  Dense: (i, 0, false, W, dW[i]) and, iff a bias exists, (i, 0, true, b, db[i]);
    (De)Convolution: for every (f, (kernel, gradient)) of kernels zipped with the per-filter split of dW[i]: (i, f, false, kernel, gradient)."""
    from .. import e6
    c = ctx.crate
    LAYERS = ("field", ("p", "self"), "layers")
    for fpath in ("network::Network::update", "feedback::Feedback::update"):
        fn = ctx.fn(fpath)
        short_name = fpath.split("::")[1]
        E = e6.Exec(c, fn)
        live = [p for p in E.run_fn() if p.exit is None or p.exit[0] == "return"]
        if not live:
            raise Unestablished("%s: no non-panicking path" % fpath, c.loc(fn))
        P = live[0]

        def has_update(lid):
            for q in E.loop_summaries[lid]["paths"]:
                for e in q.eff:
                    if e[0] == "mut" and e[1] == "optimizer::Optimizer::update":
                        return True
                    if e[0] == "loop" and has_update(e[1]):
                        return True
            return False
        walks = [e[1] for e in P.eff if e[0] == "loop" and has_update(e[1])]
        if len(walks) != 1 or any([e[1] for e in q_.eff if e[0] == "loop" and has_update(e[1])] != walks for q_ in live):
            raise Unestablished("no (single, unconditional) traversal of self.layers calling the optimizer in %s" % fpath, c.loc(fn))
        lid = walks[0]
        L = E.loop_summaries[lid]
        wloc = c.loc(fn, L["node"])
        src = L.get("recv") if L.get("kind") == "closure" else L.get("iter")
        sw = e6.seq_walk(src, lid, LAYERS)
        LAYER, R = None, None
        if sw is not None:
            for d in ("rev", "fwd"):
                if sw[d] is not None and sw["pos"][d] is not None:
                    cand = e6.walk_element(L["paths"], sw[d])
                    if cand is not None:
                        LAYER = cand
                        LEN = ("call", "std::vec::Vec::<T, A>::len", (LAYERS,))
                        pos = sw["pos"][d]
                        # reverse ordinal of the element: len - 1 - position  (the order in which the state was sized and the gradients were pushed)
                        R = ({k: -v for k, v in pos[0].items()}, -pos[1] - 1)
                        ln = e6.lin(LEN)
                        R = ({k: v for k, v in {**R[0], **{k2: R[0].get(k2, 0) + v2 for k2, v2 in ln[0].items()}}.items() if v != 0}, R[1] + ln[1])
                        break
        okw = LAYER is not None and (L.get("kind") != "closure" or L.get("callee", "").endswith("::for_each"))
        ctx.check("R03.3", short_name + ":reverse-enumerate", okw, "layer-walk:" + short(e6.show(src, 3), 60), wloc,
                  "layers walked with their reverse ordinal (iter_mut().rev().enumerate()), matching the reverse order in which set_optimizer sizes the state",
                  "optimizer state is allocated in reverse layer order (set_optimizer/copy_optimizer); the walk is %s" % e6.show(src, 3)[:100])
        if not okw:
            continue

        class _I:
            """compares equal to any term whose linear form is the reverse ordinal"""
            def __eq__(self, other):
                return e6.lin(e6.strip_upd(other)) == R
            def __ne__(self, other):
                return not self.__eq__(other)
            __hash__ = None
        I = _I()
        STEP = ("p", "stepnr")
        roles = {}

        def grad_base(t, want_unwrap=False):
            """t = BASE[I]  (-> root name of BASE)"""
            t = e6.strip_upd(t)
            if want_unwrap:
                u = e6.is_call(t, "unwrap", 1) or e6.is_call(t, "expect")
                if u:
                    t = u[0]
                elif isinstance(t, tuple) and len(t) == 4 and t[0] == "payload" and t[2] == "Option::Some" and t[3] == 0:
                    t = t[1]          # `match g { Some(g) => g, None => panic!() }`: unwrap written out
                else:
                    return None
            if isinstance(t, tuple) and t and t[0] == "idx" and I == t[2]:
                return e6.root_name(t[1]) or e6.show(t[1], 2)
            return None
        seen = {}
        for q in L["paths"]:
            if q.exit is not None and q.exit[0] != "continue":      # `continue` of the walk ends the iteration like falling through
                continue
            vp = e6.variant_of(q).get(LAYER)
            if vp is None:
                seen.setdefault("?", []).append("a path of the walk does not dispatch on the layer")
                continue
            kind = vp.split("::")[-1]
            pay = ("payload", LAYER, vp, 0)
            ups = [e for e in q.eff if e[0] == "mut" and e[1] == "optimizer::Optimizer::update"]
            loops = [e for e in q.eff if e[0] == "loop" and has_update(e[1])]
            why = None
            if kind == "Dense":
                args = [tuple(e6.strip_upd(a) for a in e[3]) for e in ups]
                hasb = None
                for (t, pol) in q.pc:
                    t0 = e6.strip_upd(t)
                    if isinstance(t0, tuple) and t0[0] == "is" and t0[1] == ("field", pay, "bias") and t0[2] == "Option::Some":
                        hasb = pol
                    if isinstance(t0, tuple) and t0[0] == "is" and t0[1] == ("field", pay, "bias") and t0[2] == "Option::None" and pol:
                        hasb = False
                w_ = [a for a in args if len(a) == 6 and a[2] == ("lit", "false")]
                b_ = [a for a in args if len(a) == 6 and a[2] == ("lit", "true")]
                if loops or len(w_) != 1 or len(w_) + len(b_) != len(args) or hasb is None:
                    why = "%d weight / %d bias update(s), bias presence %s" % (len(w_), len(b_), "decided" if hasb is not None else "not decided")
                else:
                    a = w_[0]
                    g = grad_base(a[5])
                    if not (I == a[0] and a[1] == ("lit", "0") and a[3] == STEP and a[4] == ("field", pay, "weights") and g):
                        why = "weights: update(%s)" % ", ".join(e6.show(x, 2)[:40] for x in a)
                    else:
                        roles.setdefault("W", set()).add(g)
                    if hasb and not why:
                        if len(b_) != 1:
                            why = "a layer with a bias gets %d bias update(s)" % len(b_)
                        else:
                            a = b_[0]
                            g = grad_base(a[5], want_unwrap=True)
                            if not (I == a[0] and a[1] == ("lit", "0") and a[3] == STEP and a[4] == ("payload", ("field", pay, "bias"), "Option::Some", 0) and g):
                                why = "bias: update(%s)" % ", ".join(e6.show(x, 2)[:40] for x in a)
                            else:
                                roles.setdefault("B", set()).add(g)
                    elif hasb is False and b_ and not why:
                        why = "a layer without a bias gets a bias update"
                seen.setdefault(kind + (":bias" if hasb else ":nobias"), []).append(why)
                continue
            if kind in ("Convolution", "Deconvolution"):
                if ups or len(loops) != 1:
                    why = "%d direct update(s), %d filter loop(s)" % (len(ups), len(loops))
                else:
                    # (the summary carried by the effect itself: a loop reached through an or-pattern is summarised once per alternative)
                    fsrc = loops[0][2]
                    fc = e6.is_call(fsrc, "for_each", 1)
                    if fc:
                        fsrc = fc[0]
                    fen = e6.is_call(e6.strip_upd(fsrc), "enumerate", 1)
                    zp = e6.is_call(fen[0], "zip", 2) if fen else None
                    # `kernels.iter_mut().enumerate().zip(grads)`: the same pairs, the counter attached before the zip
                    zp_alt = e6.is_call(e6.strip_upd(fsrc), "zip", 2) if not fen else None
                    en_alt = e6.is_call(zp_alt[0], "enumerate", 1) if zp_alt else None
                    alt = en_alt is not None
                    fps = [e6.Path({}, pc=x[0], eff=x[1], exit=x[2], val=x[3]) for x in loops[0][3]]
                    fu = [e for e in fps[0].eff if e[0] == "mut" and e[1] == "optimizer::Optimizer::update"] if len(fps) == 1 else []
                    fel0 = ("elem", e6.strip_upd(fsrc), loops[0][1])
                    if fen and not zp and e6.strip_upd(fen[0]) == ("field", pay, "kernels") and len(fps) == 2:
                        # hand-written zip: `for (f, k) in kernels.iter_mut().enumerate() { let g = match grads.get_mut(f) { Some(g) => g, None => break }; update(.., k, g) }`
                        run_ = [x for x in fps if x.exit is None]
                        stop_ = [x for x in fps if x.exit is not None and x.exit[0] == "break"]
                        okz = False
                        if len(run_) == 1 and len(stop_) == 1 and not [e for e in stop_[0].eff if e[0] != "loop"] and len(run_[0].pc) == 1 and run_[0].pc[0][1]:
                            t_ = run_[0].pc[0][0]
                            gm = e6.is_call(t_[1], "get_mut", 2) if isinstance(t_, tuple) and t_[0] == "is" and t_[2] == "Option::Some" else None
                            fu2 = [e for e in run_[0].eff if e[0] != "loop"]
                            if gm and gm[1] == ("proj", fel0, 0) and len(fu2) == 1 and fu2[0][0] == "mut" and fu2[0][1] == "optimizer::Optimizer::update":
                                split = e6.is_call(e6.strip_upd(e6.entry_value(q, gm[0])), "quadruple_to_vec_triple", 1)
                                g = grad_base(split[0]) if split else None
                                a = tuple(e6.strip_upd(x) for x in fu2[0][3])
                                okz = (g and len(a) == 6 and I == a[0] and a[1] == ("proj", fel0, 0) and a[2] == ("lit", "false") and a[3] == STEP
                                       and a[4] == ("proj", fel0, 1) and a[5] == ("payload", e6.strip_upd(t_[1]), "Option::Some", 0))
                                if okz:
                                    roles.setdefault("W", set()).add(g)
                        if not okz:
                            why = "filter loop over %s is not a zip of kernels and gradients" % e6.show(fsrc, 3)[:80]
                    elif alt and len(fps) == 1 and not fps[0].pc and fps[0].exit is None and len(fu) == 1 and len([e for e in fps[0].eff if e[0] != "loop"]) == 1:
                        split = e6.is_call(e6.strip_upd(e6.entry_value(q, zp_alt[1])) if not e6.is_call(zp_alt[1], "quadruple_to_vec_triple", 1) else zp_alt[1], "quadruple_to_vec_triple", 1)
                        g = grad_base(split[0]) if split else None
                        a = tuple(e6.strip_upd(x) for x in fu[0][3])
                        okk = (en_alt[0] == ("field", pay, "kernels") and g and len(a) == 6 and I == a[0] and a[1] == ("proj", ("proj", fel0, 0), 0) and a[2] == ("lit", "false")
                               and a[3] == STEP and a[4] == ("proj", ("proj", fel0, 0), 1) and a[5] == ("proj", fel0, 1))
                        if not okk:
                            why = "filters: %s with update(%s)" % (e6.show(fsrc, 3)[:80], ", ".join(e6.show(x, 2)[:30] for x in a))
                        else:
                            roles.setdefault("W", set()).add(g)
                    elif not zp or len(fps) != 1 or fps[0].pc or fps[0].exit is not None or len(fu) != 1 or len([e for e in fps[0].eff if e[0] != "loop"]) != 1:
                        why = "filter loop over %s with %d path(s)" % (e6.show(fsrc, 3)[:80], len(fps))
                    else:
                        split = e6.is_call(zp[1], "quadruple_to_vec_triple", 1)
                        g = grad_base(split[0]) if split else None
                        a = tuple(e6.strip_upd(x) for x in fu[0][3])
                        okk = (zp[0] == ("field", pay, "kernels") and g and len(a) == 6 and I == a[0] and a[1] == ("proj", fel0, 0) and a[2] == ("lit", "false") and a[3] == STEP
                               and a[4] == ("proj", ("proj", fel0, 1), 0) and a[5] == ("proj", ("proj", fel0, 1), 1))
                        if not okk:
                            why = "filters: %s with update(%s)" % (e6.show(fsrc, 3)[:80], ", ".join(e6.show(x, 2)[:30] for x in a))
                        else:
                            roles.setdefault("W", set()).add(g)
                seen.setdefault(kind, []).append(why)
                continue
            if kind == "Feedback":
                fu = [e for e in q.eff if e[0] == "mut" and e[1] == "feedback::Feedback::update"]
                if ups or loops or len(fu) != 1:
                    why = "%d block update(s)" % len(fu)
                else:
                    a = tuple(e6.strip_upd(x) for x in fu[0][3])
                    g1 = grad_base(a[1]) if len(a) == 3 else None
                    g2 = grad_base(a[2], want_unwrap=True) if len(a) == 3 else None
                    if not (len(a) == 3 and a[0] == STEP and fu[0][4] == pay and g1 and g2):
                        why = "block.update(%s)" % ", ".join(e6.show(x, 2)[:40] for x in a)
                    else:
                        roles.setdefault("W", set()).add(g1)
                        roles.setdefault("B", set()).add(g2)
                seen.setdefault(kind, []).append(why)
                continue
            if ups or loops:
                seen.setdefault(kind, []).append("a %s layer has no parameters but the optimizer is called" % kind)
            else:
                seen.setdefault(kind, []).append(None)
        want = ["Dense:bias", "Dense:nobias", "Convolution", "Deconvolution"] + (["Feedback"] if short_name == "Network" else [])
        for k in want:
            r_ = seen.get(k)
            bad = [w for w in (r_ or []) if w]
            ctx.check("R03.3", "%s:%s" % (short_name, k), bool(r_) and not bad, "slot-arguments:" + short("; ".join(bad) if r_ else "not handled", 80), wloc,
                      "every parameter tensor of a %s layer is updated once with its own gradient and slot" % k,
                      "%s, %s layer: %s" % (fpath, k, "; ".join(bad) if r_ else "no path of the walk handles this case"))
        for k in sorted(set(seen) - set(want)):
            bad = [w for w in seen[k] if w]
            if bad:
                ctx.bad("R03.3", "%s:%s" % (short_name, k), "slot-arguments:" + short("; ".join(bad), 80), wloc, "; ".join(bad))
        # the summed gradients reach the optimizer as they were handed in: nothing else in update() modifies them (before or after the walk)
        gnames = set().union(*roles.values()) if roles else set()
        touched = []
        for e in P.eff:
            if e[0] == "loop" and e[1] == lid:
                continue
            txt = e6.find_terms(tuple(e[1:]) if e[0] != "loop" else e[3], lambda t: t[0] in ("set", "mut", "push", "mutcall"))
            if e[0] in ("set", "mut", "push", "mutcall"):
                txt = [e] + txt
            if e[0] == "loop":
                # a loop over (a view of) the gradient lists that changes anything: elements reached through `iter_mut()` are the lists' own cells
                srcs = {x_[1] for x_ in e6.find_terms(e[2], lambda y: y[0] in ("p", "loopin", "loopout", "free") and len(y) >= 2 and isinstance(y[1], str))}
                if (srcs & gnames) and any(f[0] in ("set", "mut", "push", "mutcall") for x_ in e[3] for f in x_[1]):
                    touched.append("elements of " + ",".join(sorted(srcs & gnames)))
            for t in txt:
                place = t[1] if t[0] in ("set", "push") else (t[2] if t[0] == "mut" else None)
                if place is not None and (e6.root_name(place) in gnames or any(e6.contains(place, ("local", g_)) for g_ in gnames)):
                    touched.append(e6.show(place, 2)[:40])
        # .. nor does the walk itself, other than by handing them to the optimizer: a gradient rescaled / overwritten in a layer's arm is not the sum
        def walk_effects(effs):
            for f in effs:
                if f[0] == "loop":
                    for x_ in f[3]:
                        yield from walk_effects(x_[1])
                else:
                    yield f
        for q in L["paths"]:
            for f in walk_effects(q.eff):
                if f[0] == "mut" and f[1].endswith(("Optimizer::update", "Feedback::update")):
                    continue
                place = f[1] if f[0] in ("set", "push") else (f[2] if f[0] == "mut" else None)
                if place is not None and (e6.root_name(place) in gnames or any(e6.contains(place, ("local", g_)) for g_ in gnames)):
                    touched.append("in the walk: " + e6.show(place, 2)[:40])
        entry_ok = True
        for g_ in gnames:
            ev = e6.entry_value(L["paths"][0], ("loopin", g_, lid)) if L["paths"] else None
            if isinstance(ev, tuple) and ev and ev[0] in ("loopout", "upd"):
                entry_ok = False
        ctx.check("R03.3", short_name + ":gradients-unmodified", not touched and entry_ok, "gradients-modified-before-step:" + __import__("re").sub(r"#\w+", "", short(",".join(touched), 60)), wloc,
                  "the gradient lists are only read by the optimizer calls", "%s changes the summed gradients (%s) outside the optimizer calls: the step is no longer taken on the sum of the "
                  "per-sample gradients" % (fpath, ", ".join(touched) or "before the walk"))
        okroles = len(roles.get("W", ())) == 1 and len(roles.get("B", ())) == 1 and roles["W"] != roles["B"]
        ctx.check("R03.3", short_name + ":gradient-lists", okroles, "gradient-lists:%s" % sorted((k, sorted(v)) for k, v in roles.items()), wloc,
                  "weights take their gradient from one list, biases from the other")
    ctx.floor("R03.3", 8 + 2 + 9 + 2 + 2, "8 state slots, 2 walks, 9 layer cases, 2 gradient-list facts, 2 unmodified-gradient facts")


def r4(ctx):
    c = ctx.crate
    fn = ctx.fn("optimizer::Optimizer::validate")
    ms = [x for x in walk(fn["body"]) if x.get("k") == "match" and any(e4.arm_variant(a)[0].startswith("optimizer::Optimizer::") for a in x["arms"])]
    if len(ms) != 1:
        raise Unestablished("validate: no match on the optimizer kind", c.loc(fn))
    seen = set()
    for a in ms[0]["arms"]:
        vp, binds = e4.arm_variant(a)
        kind = vp.split("::")[-1]
        seen.add(kind)
        where = c.loc(fn, a["body"])
        bh = binds[0][1] if binds else None
        for x in walk(a["body"]):
            if x.get("k") == "if":
                cnd = strip(x["c"])
                asg = [y for y in walk(x["th"]) if y.get("k") == "assign"]
                if cnd.get("k") == "bin" and cnd["op"] == "Eq" and len(asg) == 1:
                    lhs_, rhs_ = cnd["l"], cnd["r"]
                    if e4.lit_value(lhs_) is not None and e4.lit_value(rhs_) is None:   # `0.0 == field`
                        lhs_, rhs_ = rhs_, lhs_
                    tested = pretty(strip(lhs_))
                    assigned = pretty(strip(asg[0]["l"]))
                    ctx.check("R03.4", "%s:default:%s" % (kind, assigned.split(".")[-1]), tested == assigned and e4.lit_value(rhs_) in ("0.0", "0."),
                              "default-tests-other-field:" + tested, c.loc(fn, x), "if %s == 0.0 { %s = default }" % (tested, assigned),
                              "the zero test is on `%s` but the default is assigned to `%s`" % (tested, assigned))
        got = sorted({strip(y["l"])["f"] for y in walk(a["body"]) if y.get("k") == "assign" and strip(y["l"]).get("k") == "field" and strip(y["l"])["f"] in ("velocity", "momentum", "gradient", "buffer")
                      and not any(y is z for i in walk(a["body"]) if i.get("k") == "if" for z in walk(i))})
        ctx.check("R03.4", "%s:state-allocated" % kind, got == sorted(STATE.get(kind, [])), "state-vectors-assigned:" + ",".join(got), where,
                  "assigns %s" % got, "%s: state vectors assigned %s, the update uses %s" % (kind, got, STATE.get(kind)))
    for k in KINDS:
        if k not in seen:
            ctx.bad("R03.4", k + ":state-allocated", "variant-not-handled-in-validate", c.loc(fn), "")
    # dispatch
    fn = ctx.fn("optimizer::Optimizer::update")
    ms = [x for x in walk(fn["body"]) if x.get("k") == "match"]
    for a in ms[0]["arms"]:
        vp, binds = e4.arm_variant(a)
        kind = vp.split("::")[-1]
        cs = [cal for _, cal in calls(a["body"]) if cal.endswith("::update")]
        ctx.check("R03.4", "dispatch:" + kind, cs == [OPT + kind + "::update"], "dispatches-to:" + ",".join(cs), c.loc(fn, a["body"]), "-> %s::update" % kind)
        # argument order
        for x in walk(a["body"]):
            if x.get("k") == "mcall" and x["callee"].endswith("::update"):
                names = [pretty(strip(z)) for z in x["args"]]
                want = ["values", "gradients"] if kind == "SGD" else (["layer", "filter", "bias", "values", "gradients"] if kind == "RMSprop" else ["layer", "filter", "bias", "stepnr", "values", "gradients"])
                ctx.check("R03.4", "dispatch-args:" + kind, names == want, "argument-order:" + ",".join(names), c.loc(fn, x), "args %s" % names)
    # .. unconditionally: on the effect summary every way through Optimizer::update that does not panic performs exactly one step of the
    # variant it is about, and depends on nothing but the variant
    from .. import e6
    E = e6.Exec(c, fn)
    live = [p for p in E.run_fn() if p.exit is None or p.exit[0] == "return"]
    SELF = ("p", "self")
    okd = bool(live)
    whyd = ""
    for p in live:
        var = [t[2] for (t, pol) in p.pc if pol and isinstance(t, tuple) and t[0] == "is" and e6.strip_upd(t[1]) in (SELF, ("un", "Deref", SELF))]
        other = [t for (t, pol) in p.pc if not (isinstance(t, tuple) and t[0] == "is" and e6.strip_upd(t[1]) in (SELF, ("un", "Deref", SELF)))]
        steps = [e_ for e_ in p.eff if e_[0] == "mut" and e_[1].endswith("::update")]
        if len(var) != 1 or other or len(steps) != 1 or steps[0][1] != OPT + var[0].split("::")[-1] + "::update":
            okd = False
            whyd = "a path for %s performs %d step(s) under %s" % (var[0].split("::")[-1] if var else "?", len(steps), "; ".join(e6.show(t, 2) for t in other)[:100] or "no further condition")
    ctx.check("R03.4", "dispatch:unconditional", okd, "dispatch-conditional:" + short(whyd, 70), c.loc(fn), "every call of Optimizer::update performs exactly one step of its variant",
              "Optimizer::update: %s; every parameter tensor must receive one optimizer step per call, whatever its values" % whyd)


def r5(ctx, kind, fn, m, sems, W, G):
    c = ctx.crate
    M = Fr(2) ** 30
    BIG = Fr(2) ** 100
    one_m = 1 - Fr(1, 2 ** 24)
    fields = {
        "learning_rate": AV(Fr(0), Fr(2) ** 10), "decay": AV(Fr(0), Fr(2) ** 10), "momentum": AV(Fr(0), Fr(1)), "dampening": AV(Fr(0), Fr(1)),
        "beta1": AV(Fr(0), one_m), "beta2": AV(Fr(0), one_m), "alpha": AV(Fr(0), one_m), "epsilon": AV(Fr(1, 2 ** 40), Fr(1)),
        "centered": AV(Fr(0), Fr(1), ty="bool"),
    }
    second_moment = {"SGDM": [], "Adam": ["self.velocity"], "AdamW": ["self.velocity"], "RMSprop": ["self.velocity"]}.get(kind, [])
    for rank, (sem, ra, r) in sorted(sems.items()):
        inst0 = "%s:%s" % (kind, rank)
        n_ob = [0]

        def ob(kind_, ok, node, detail, inst0=inst0):
            i = n_ob[0]
            n_ob[0] += 1
            inst = "%s:%s#%d" % (inst0, kind_, i)
            if ok:
                ctx.ok("R03.5", inst, detail, c.loc(fn, node))
            else:
                ctx.bad("R03.5", inst, kind_ + "-not-discharged", c.loc(fn, node),
                        "%s::update (%s arm): %s" % (kind, rank, detail))
        cn = r.cellname(c)
        ev = e2.Eval(c, {}, fields, ob)
        ev.cellkey = cn
        ev.some = {"self.decay": AV(Fr(0), Fr(2) ** 10), "self.momentum": AV(Fr(0), Fr(1))}
        cells = {W: AV(-M, M), G: AV(-M, M)}
        for s in STATE[kind]:
            nm = "self." + s
            cells[nm] = AV(Fr(0), BIG) if nm in second_moment else AV(-BIG, BIG)
        ev.cells = dict(cells)
        for p in fn["params"]:
            for nm, hid in pat_binds(p):
                if nm == "stepnr":
                    ev.env[hid] = AV(Fr(1), Fr(2 ** 31 - 1), ty="i32")
        try:
            e2.eval_fn_lets(ev, fn, m)
            ev.eval(r.body) if r.body.get("k") != "blk" else ev.block(r.body["b"])
        except ValueError as e:
            ctx.unest("R03.5", inst0, "abstract interpreter: %s" % e, c.loc(fn, r.body))
            continue
        for nm, av in sorted(ev.cells.items()):
            ok = not av.nan
            ctx.check("R03.5", "%s:not-nan:%s" % (inst0, nm), ok, "cell-may-be-nan", c.loc(fn, ra["arm"]["body"]), "%s in %r" % (nm, av),
                      "%s::update (%s arm): new value of `%s` may be NaN: %r" % (kind, rank, nm, av))
            if nm in second_moment:
                ctx.check("R03.5", "%s:nonneg:%s" % (inst0, nm), av.lo >= 0, "second-moment-may-go-negative", c.loc(fn, ra["arm"]["body"]),
                          "%s stays >= 0 (inductive)" % nm, "%r" % av)


RULES["R03.1"] += " | entries-stay-in-place (who-may-permute): over every function of the property's modules, no Vec/slice operation that moves entries to other positions (reverse, swap, rotate, sort .., mem::swap of two entries) outside the table of sites confirmed on the pinned tree (common.PERMUTING_SITES)"


RULES["R03.1"] += " | writes-inside-the-walk: the same test for the five optimizer update functions: parameters, gradients and state entries are written only inside the element-wise walk"


def run(ctx):
    from .common import writes_inside_the_walk
    ctx.guard("R03.1", "writes-inside-the-walk", writes_inside_the_walk, ctx, "R03.1", {"src/optimizer.rs"}, lambda p_, l_, f_: l_ == "update" and not p_.endswith("Optimizer::update"), 5)
    from .common import no_permuting_ops
    ctx.guard("R03.1", "entries-stay-in-place", no_permuting_ops, ctx, "R03.1", "optimizer", {"src/optimizer.rs"}, 15)
    for kind in KINDS:
        r = ctx.guard("R03.1", kind, r1_r2, ctx, kind)
        if r:
            fn, m, sems, W, G = r
            ctx.guard("R03.3", kind, r3_slots, ctx, kind, fn, m)
            ctx.guard("R03.5", kind, r5, ctx, kind, fn, m, sems, W, G)
    ctx.guard("R03.3", "call-sites", r3_callsites, ctx)
    ctx.guard("R03.4", "validate", r4, ctx)
    ctx.floor("R03.1", 15, "5 optimizers x 3 rank arms")
    ctx.floor("R03.2", 2 + 4 + 2 + 1 + 8, "guard valuations: SGD 2, SGDM 4, Adam 2, AdamW 1, RMSprop 8")
    ctx.floor("R03.4", 14 + 5 + 5 + 5 + 1, "14 defaults, 5 state allocations, 5 dispatch arms, 5 argument orders")
    ctx.floor("R03.5", 60, "sqrt/division obligations and cell checks over 15 arms")
