"""C03 - optimizer steps follow the documented update rules."""
from fractions import Fraction as Fr

from ..core import Unestablished
from ..hir import walk, strip, pretty, short, calls, pat_binds
from .. import e1, e2, e4, arms
from ..e1 import Rat, r_sqrt, r_max, fn_atom
from ..e2 import AV, INF
from ..extract import Unrecognised

LEVEL = "other"
RULES = {
    "R03.1": "rank-sibling agreement: in SGD/SGDM/Adam/AdamW/RMSprop::update the Single, Double and Triple arms traverse every "
             "element with aligned indices (0..w.len(), 0..w[i].len(), ...) and reduce to the same per-element program (same "
             "cells written, same canonical rational expression per guard valuation)",
    "R03.2": "agreement with the documented equations (PyTorch-style, see DESIGN appendix B): new parameter and every new "
             "state component as a rational function of old parameter, gradient, old state, hyper-parameters and beta^stepnr, "
             "per valuation of (decay Some/None, momentum branch, centred, momentum Some/None); equality over the reals",
    "R03.3": "slot isolation: every state tensor is addressed as self.<state>[layer][filter][bias as usize] with the update's own "
             "(layer, filter, bias) parameters; update writes nothing else of self; Network::update / Feedback::update pass "
             "(i, 0, false | i, 0, true | i, f, false) with i the reverse-enumeration index that also selects the gradient",
    "R03.4": "Optimizer::validate: each zero test is on the hyper-parameter that is then assigned its default; every stateful "
             "variant gets all of its state vectors assigned; Optimizer::update dispatches every variant to its own update",
    "R03.5": "NaN-freedom (interval/sign analysis): under the stated ranges every sqrt argument is >= 0, every denominator is "
             "non-zero, second-moment state stays >= 0 (inductive), and no written cell may be NaN",
}
ASSUMPTIONS = [
    "parameters, gradients finite with magnitude <= 2^30; first-moment/buffer state finite; second-moment state >= 0 (checked inductive)",
    "learning rate, decay in [0, 2^10]; momentum, dampening in [0,1]; beta1, beta2, alpha in [0, 1-2^-24]; epsilon in [2^-40, 1]; stepnr >= 1",
    "no overflow to infinity (the property's own proviso); equality with the documented equations is over the reals, rounding ignored",
]
TRUSTED = ["rustc nightly front end", "driver/src/main.rs", "sa/extract.py", "sa/e1.py", "sa/e2.py"]

OPT = "optimizer::"
KINDS = ["SGD", "SGDM", "Adam", "AdamW", "RMSprop"]
STATE = {"SGD": [], "SGDM": ["velocity"], "Adam": ["momentum", "velocity"], "AdamW": ["momentum", "velocity"],
         "RMSprop": ["velocity", "gradient", "buffer"]}


def A(s):
    return Rat.atom(s)


def spec(kind, val, W, G):
    """-> {cell: Rat} expected store for semantic valuation `val` (dict)."""
    w, g = A(W), A(G)
    lr = A("self.learning_rate")
    out = {}
    if kind == "AdamW":
        g1 = g
    elif val.get("decay"):
        g1 = g + A("self.decay.Some") * w
        out[G] = g1
    else:
        g1 = g
    if kind == "SGD":
        out[W] = w - lr * g1
    elif kind == "SGDM":
        v = A("self.velocity")
        if val["mom"]:
            v1 = v * A("self.momentum") + (1 - A("self.dampening")) * g1
            out["self.velocity"] = v1
            out[G] = v1
            out[W] = w - lr * v1
        else:
            out["self.velocity"] = g1
            out[W] = w - lr * g1
    elif kind in ("Adam", "AdamW"):
        m, v = A("self.momentum"), A("self.velocity")
        b1, b2 = A("self.beta1"), A("self.beta2")
        w1 = w
        if kind == "AdamW":
            w1 = w - lr * A("self.decay") * w
        m1 = m * b1 + g1 * (1 - b1)
        v1 = v * b2 + g1 * g1 * (1 - b2)
        mh = m1 / (1 - fn_atom("pow", b1, A("stepnr")))
        vh = v1 / (1 - fn_atom("pow", b2, A("stepnr")))
        out["self.momentum"] = m1
        out["self.velocity"] = v1
        out[W] = w1 - lr * mh / (r_sqrt(vh) + A("self.epsilon"))
    elif kind == "RMSprop":
        al = A("self.alpha")
        v1 = al * A("self.velocity") + (1 - al) * g1 * g1
        out["self.velocity"] = v1
        vt = v1
        alts = [vt]
        if val["centered"]:
            gb = al * A("self.gradient") + (1 - al) * g1
            out["self.gradient"] = gb
            vt = v1 - gb * gb
            alts = [vt, r_max(vt, 0)]   # max(., 0) is a real-arithmetic no-op on a variance: both forms accepted
        res = []
        for vv in alts:
            o = dict(out)
            den = r_sqrt(vv) + A("self.epsilon")
            if val["mom_some"]:
                b1_ = A("self.momentum.Some") * A("self.buffer") + g1 / den
                o["self.buffer"] = b1_
                o[W] = w - lr * b1_
            else:
                o[W] = w - lr * g1 / den
            res.append(o)
        return res
    return [out]


GUARDS = {
    "is_some(self.decay)": "decay",
    "and(gt0(-1 + stepnr), ne0(self.momentum))": "mom",
    "self.centered": "centered",
    "is_some(self.momentum)": "mom_some",
}


def update_fn(ctx, kind):
    return ctx.fn(OPT + kind + "::update")


def r1_r2(ctx, kind):
    c = ctx.crate
    fn = update_fn(ctx, kind)
    m = arms.data_match(fn["body"])
    if m is None:
        raise Unestablished("no rank dispatch in %s::update" % kind, c.loc(fn))
    names = [d["name"] for d in arms.scrut_names(c, m)]
    arms.guarded_arms(ctx, "R03.1", fn, m, kind)
    pn = [pat_binds(p)[0][0] for p in fn["params"]]
    W, G = pn[-2], pn[-1]
    expected_roots = [W, G] + ["self." + s for s in STATE[kind]]
    if sorted(names) != sorted(expected_roots):
        ctx.bad("R03.3", kind + ":roots", "unexpected-tensors-in-update:" + ",".join(names), c.loc(fn, m),
                "update of %s matches on %s, expected %s" % (kind, names, expected_roots))
        return
    ras = arms.rank_arms(m, names)
    sems = {}
    for ra in ras:
        rank = ra["rank"]
        inst = "%s:%s" % (kind, rank)
        where = c.loc(fn, ra["arm"]["body"])
        if ra["mixed"] or rank not in ("Single", "Double", "Triple"):
            ctx.bad("R03.1", inst, "unexpected-arm", where, "arm mixes ranks or is not Single/Double/Triple")
            continue
        try:
            sem, r = arms.arm_semantics(c, ra, env=arms.fn_level_env(c, fn, upto=m))
        except (Unrecognised, ValueError) as e:
            ctx.bad("R03.1", inst, "arm-not-recognised-as-elementwise", where,
                    "cannot establish that the %s arm updates every element with aligned indices: %s" % (rank, e))
            continue
        depth = ["Single", "Double", "Triple"].index(rank) + 1
        if r.levels != depth:
            ctx.bad("R03.1", inst, "traversal-depth-%d" % r.levels, where, "")
            continue
        sems[rank] = (sem, ra, r)
    for rank in ("Single", "Double", "Triple"):
        if rank not in sems and not any(o["instance"] == "%s:%s" % (kind, rank) for o in ctx.obligations if o["rule"] == "R03.1"):
            ctx.bad("R03.1", "%s:%s" % (kind, rank), "rank-not-supported", c.loc(fn, m), "no %s arm" % rank)
    if "Single" not in sems:
        return
    ref = sems["Single"][0]
    ctx.ok("R03.1", kind + ":Single", "reference arm: %d guard valuation(s), cells %s" % (len(ref), sorted(ref[0][1])), c.loc(fn, sems["Single"][1]["arm"]["body"]))
    for rank in ("Double", "Triple"):
        if rank in sems:
            ok, why = arms.stores_equal(ref, sems[rank][0])
            ctx.check("R03.1", "%s:%s" % (kind, rank), ok, "differs-from-Single-arm", c.loc(fn, sems[rank][1]["arm"]["body"]),
                      "same per-element program as the Single arm", "%s arm of %s::update differs from the Single arm: %s" % (rank, kind, short(why, 600)))
    # R03.2 spec agreement on the reference arm
    for guards, st in ref:
        val = {}
        unknown = []
        for gname, gv in guards:
            neg = str(e1.negate_cond(gname)) if gname in e1.REG else None
            if gname in GUARDS:
                val[GUARDS[gname]] = gv
            elif neg in GUARDS:                     # the code tests the complement of the documented condition
                val[GUARDS[neg]] = not gv
            else:
                unknown.append(gname)
        inst = "%s:%s" % (kind, ",".join("%s=%s" % (k, "T" if v else "F") for k, v in sorted(val.items())) or "-")
        where = c.loc(fn, sems["Single"][1]["arm"]["body"])
        if unknown:
            ctx.unest("R03.2", inst, "guard(s) %s have no counterpart in the documented rule" % unknown, where)
            continue
        need = {"SGD": ["decay"], "SGDM": ["decay", "mom"], "Adam": ["decay"], "AdamW": [], "RMSprop": ["decay", "centered", "mom_some"]}[kind]
        if sorted(val) != sorted(need):
            ctx.bad("R03.2", inst, "guard-structure-differs", where, "guards found %s, documented rule branches on %s" % (sorted(val), need))
            continue
        alts = spec(kind, val, W, G)
        got = {k: v for k, v in st.items() if k != "<value>"}
        match = None
        why = ""
        for exp in alts:
            if set(exp) != set(got):
                why = "cells written %s, documented %s" % (sorted(got), sorted(exp))
                continue
            diff = [k for k in exp if exp[k] != got[k]]
            if not diff:
                match = exp
                break
            why = "cell `%s`: code %s ; documented %s" % (diff[0], got[diff[0]], exp[diff[0]])
        ctx.check("R03.2", inst, match is not None, "differs-from-documented-rule", where,
                  "matches the documented equations (cells %s)" % sorted(got), "%s::update %s: %s" % (kind, inst, short(why, 700)))
    return fn, m, sems, W, G


def r3_slots(ctx, kind, fn, m):
    c = ctx.crate
    pn = [pat_binds(p)[0] for p in fn["params"]]
    if kind == "SGD":
        ctx.ok("R03.3", kind + ":stateless", "SGD keeps no state", c.loc(fn))
    else:
        want = [pn[1][1], pn[2][1], pn[3][1]]  # layer, filter, bias
        for d in arms.scrut_names(c, m):
            if not d["name"].startswith("self."):
                continue
            idx = [e4.local_hid(strip(i)["x"]) if strip(i).get("k") == "cast" else e4.local_hid(i) for i in d["index"]]
            ctx.check("R03.3", "%s:%s" % (kind, d["name"]), idx == want, "state-slot-index:" + ",".join(pretty(i) for i in d["index"]), c.loc(fn, m),
                      "%s[layer][filter][bias as usize]" % d["name"],
                      "%s is addressed with [%s], expected [layer][filter][bias as usize]" % (d["name"], "][".join(pretty(i) for i in d["index"])))
    # nothing else of self written
    allowed = set(STATE[kind])
    for mk, mf in c.mir_bodies(OPT + kind + "::update"):
        for w in mf["writes"]:
            if w["adt"] == OPT + kind:
                ctx.check("R03.3", "%s:write:%s" % (kind, w["field"]), False, "hyperparameter-written-in-update", "%s:%s" % (mk, w["line"]), "",
                          "%s::update assigns self.%s" % (kind, w["field"]))
    callees = {cl["callee"] for mk, mf in c.mir_bodies(OPT + kind + "::update") for cl in mf["calls"]}
    impure = sorted(x for x in callees if x.startswith(("std::time", "random::", "std::collections", "std::env", "std::fs", "std::io")))
    ctx.check("R03.3", kind + ":pure", not impure, "update-calls:" + ",".join(impure), c.loc(fn), "update calls only iterator/float intrinsics")


def r3_callsites(ctx):
    """Network::update and Feedback::update: (layer, filter, bias) triples and gradient selection."""
    c = ctx.crate
    for fpath in ("network::Network::update", "feedback::Feedback::update"):
        fn = ctx.fn(fpath)
        # traversal: self.layers.iter_mut().rev().enumerate().for_each(|(i, layer)| match layer {..})
        trav = None
        for x in walk(fn["body"], into_closures=False):
            t_ = e4.traversal(x)
            if t_ is not None and t_["field"] == "layers" and any(cal == "optimizer::Optimizer::update" for _, cal in calls(t_["body"])):
                trav = t_
        if trav is None:
            raise Unestablished("no traversal of self.layers calling the optimizer in %s" % fpath, c.loc(fn))
        x, chain = trav["node"], trav["methods"]
        short_name = fpath.split("::")[1]
        ctx.check("R03.3", short_name + ":reverse-enumerate", chain == ["iter_mut", "rev", "enumerate"], "layer-walk:" + ".".join(chain), c.loc(fn, x),
                  "layers walked as iter_mut().rev().enumerate(), matching the reverse order in which set_optimizer sizes the state",
                  "optimizer state is allocated in reverse layer order (set_optimizer/copy_optimizer); the walk is %s" % chain)
        cl = {"body": trav["body"], "params": [trav["pat"]]}
        binds = pat_binds(cl["params"][0])
        ih = binds[0][1]
        n = 0
        for y in walk(cl["body"]):
            if y.get("k") == "mcall" and y["callee"] == "optimizer::Optimizer::update":
                n += 1
                a = y["args"]
                layer_ok = e4.local_hid(a[0]) == ih
                bias_v = e4.lit_value(a[2])
                filt = strip(a[1])
                # gradient argument indexed by the same i
                from ..hir import let_table, cpretty
                TT = let_table(fn["body"])
                values = cpretty(a[4], TT)
                grads = cpretty(a[5], TT)
                gsel = ("[%s]" % binds[0][0]) in grads or e4.local_hid(a[5]) is not None
                kind_ok = True
                if bias_v == "true":
                    kind_ok = "bias" in values and "bias" in grads and e4.lit_value(a[1]) == "0"
                elif "weights" in values:
                    kind_ok = "weight" in grads and e4.lit_value(a[1]) == "0"
                else:
                    kind_ok = filt.get("k") == "local"  # per-filter index from enumerate over kernels
                    # the filter index must come from an enumerate over layer.kernels zipped with the gradient split
                inst = "%s:call%d" % (short_name, n)
                ctx.check("R03.3", inst, layer_ok and gsel and kind_ok and bias_v in ("true", "false"),
                          "slot-arguments:" + ",".join(pretty(z) for z in a[:3]), c.loc(fn, y),
                          "update(%s) on %s with %s" % (", ".join(pretty(z) for z in a[:3]), values, short(grads, 40)),
                          "Optimizer::update called with slot (%s) for %s / %s" % (", ".join(pretty(z) for z in a[:3]), values, short(grads, 60)))
        ctx.floor("R03.3", 1, "")
    ctx.floor("R03.3", 8 + 2 + 8, "8 state slots, 2 walks, 8 call sites")


def r4(ctx):
    c = ctx.crate
    fn = ctx.fn("optimizer::Optimizer::validate")
    ms = [x for x in walk(fn["body"]) if x.get("k") == "match" and any(e4.arm_variant(a)[0].startswith("optimizer::Optimizer::") for a in x["arms"])]
    if len(ms) != 1:
        raise Unestablished("validate: no match on the optimizer kind", c.loc(fn))
    seen = set()
    for a in ms[0]["arms"]:
        vp, binds = e4.arm_variant(a)
        kind = vp.split("::")[-1]
        seen.add(kind)
        where = c.loc(fn, a["body"])
        bh = binds[0][1] if binds else None
        for x in walk(a["body"]):
            if x.get("k") == "if":
                cnd = strip(x["c"])
                asg = [y for y in walk(x["th"]) if y.get("k") == "assign"]
                if cnd.get("k") == "bin" and cnd["op"] == "Eq" and len(asg) == 1:
                    lhs_, rhs_ = cnd["l"], cnd["r"]
                    if e4.lit_value(lhs_) is not None and e4.lit_value(rhs_) is None:   # `0.0 == field`
                        lhs_, rhs_ = rhs_, lhs_
                    tested = pretty(strip(lhs_))
                    assigned = pretty(strip(asg[0]["l"]))
                    ctx.check("R03.4", "%s:default:%s" % (kind, assigned.split(".")[-1]), tested == assigned and e4.lit_value(rhs_) in ("0.0", "0."),
                              "default-tests-other-field:" + tested, c.loc(fn, x), "if %s == 0.0 { %s = default }" % (tested, assigned),
                              "the zero test is on `%s` but the default is assigned to `%s`" % (tested, assigned))
        got = sorted({strip(y["l"])["f"] for y in walk(a["body"]) if y.get("k") == "assign" and strip(y["l"]).get("k") == "field" and strip(y["l"])["f"] in ("velocity", "momentum", "gradient", "buffer")
                      and not any(y is z for i in walk(a["body"]) if i.get("k") == "if" for z in walk(i))})
        ctx.check("R03.4", "%s:state-allocated" % kind, got == sorted(STATE.get(kind, [])), "state-vectors-assigned:" + ",".join(got), where,
                  "assigns %s" % got, "%s: state vectors assigned %s, the update uses %s" % (kind, got, STATE.get(kind)))
    for k in KINDS:
        if k not in seen:
            ctx.bad("R03.4", k + ":state-allocated", "variant-not-handled-in-validate", c.loc(fn), "")
    # dispatch
    fn = ctx.fn("optimizer::Optimizer::update")
    ms = [x for x in walk(fn["body"]) if x.get("k") == "match"]
    for a in ms[0]["arms"]:
        vp, binds = e4.arm_variant(a)
        kind = vp.split("::")[-1]
        cs = [cal for _, cal in calls(a["body"]) if cal.endswith("::update")]
        ctx.check("R03.4", "dispatch:" + kind, cs == [OPT + kind + "::update"], "dispatches-to:" + ",".join(cs), c.loc(fn, a["body"]), "-> %s::update" % kind)
        # argument order
        for x in walk(a["body"]):
            if x.get("k") == "mcall" and x["callee"].endswith("::update"):
                names = [pretty(strip(z)) for z in x["args"]]
                want = ["values", "gradients"] if kind == "SGD" else (["layer", "filter", "bias", "values", "gradients"] if kind == "RMSprop" else ["layer", "filter", "bias", "stepnr", "values", "gradients"])
                ctx.check("R03.4", "dispatch-args:" + kind, names == want, "argument-order:" + ",".join(names), c.loc(fn, x), "args %s" % names)


def r5(ctx, kind, fn, m, sems, W, G):
    c = ctx.crate
    M = Fr(2) ** 30
    BIG = Fr(2) ** 100
    one_m = 1 - Fr(1, 2 ** 24)
    fields = {
        "learning_rate": AV(Fr(0), Fr(2) ** 10), "decay": AV(Fr(0), Fr(2) ** 10), "momentum": AV(Fr(0), Fr(1)), "dampening": AV(Fr(0), Fr(1)),
        "beta1": AV(Fr(0), one_m), "beta2": AV(Fr(0), one_m), "alpha": AV(Fr(0), one_m), "epsilon": AV(Fr(1, 2 ** 40), Fr(1)),
        "centered": AV(Fr(0), Fr(1), ty="bool"),
    }
    second_moment = {"SGDM": [], "Adam": ["self.velocity"], "AdamW": ["self.velocity"], "RMSprop": ["self.velocity"]}.get(kind, [])
    for rank, (sem, ra, r) in sorted(sems.items()):
        inst0 = "%s:%s" % (kind, rank)
        n_ob = [0]

        def ob(kind_, ok, node, detail, inst0=inst0):
            i = n_ob[0]
            n_ob[0] += 1
            inst = "%s:%s#%d" % (inst0, kind_, i)
            if ok:
                ctx.ok("R03.5", inst, detail, c.loc(fn, node))
            else:
                ctx.bad("R03.5", inst, kind_ + "-not-discharged", c.loc(fn, node),
                        "%s::update (%s arm): %s" % (kind, rank, detail))
        cn = r.cellname(c)
        ev = e2.Eval(c, {}, fields, ob)
        ev.cellkey = cn
        ev.some = {"self.decay": AV(Fr(0), Fr(2) ** 10), "self.momentum": AV(Fr(0), Fr(1))}
        cells = {W: AV(-M, M), G: AV(-M, M)}
        for s in STATE[kind]:
            nm = "self." + s
            cells[nm] = AV(Fr(0), BIG) if nm in second_moment else AV(-BIG, BIG)
        ev.cells = dict(cells)
        for p in fn["params"]:
            for nm, hid in pat_binds(p):
                if nm == "stepnr":
                    ev.env[hid] = AV(Fr(1), Fr(2 ** 31 - 1), ty="i32")
        try:
            e2.eval_fn_lets(ev, fn, m)
            ev.eval(r.body) if r.body.get("k") != "blk" else ev.block(r.body["b"])
        except ValueError as e:
            ctx.unest("R03.5", inst0, "abstract interpreter: %s" % e, c.loc(fn, r.body))
            continue
        for nm, av in sorted(ev.cells.items()):
            ok = not av.nan
            ctx.check("R03.5", "%s:not-nan:%s" % (inst0, nm), ok, "cell-may-be-nan", c.loc(fn, ra["arm"]["body"]), "%s in %r" % (nm, av),
                      "%s::update (%s arm): new value of `%s` may be NaN: %r" % (kind, rank, nm, av))
            if nm in second_moment:
                ctx.check("R03.5", "%s:nonneg:%s" % (inst0, nm), av.lo >= 0, "second-moment-may-go-negative", c.loc(fn, ra["arm"]["body"]),
                          "%s stays >= 0 (inductive)" % nm, "%r" % av)


def run(ctx):
    for kind in KINDS:
        r = ctx.guard("R03.1", kind, r1_r2, ctx, kind)
        if r:
            fn, m, sems, W, G = r
            ctx.guard("R03.3", kind, r3_slots, ctx, kind, fn, m)
            ctx.guard("R03.5", kind, r5, ctx, kind, fn, m, sems, W, G)
    ctx.guard("R03.3", "call-sites", r3_callsites, ctx)
    ctx.guard("R03.4", "validate", r4, ctx)
    ctx.floor("R03.1", 15, "5 optimizers x 3 rank arms")
    ctx.floor("R03.2", 2 + 4 + 2 + 1 + 8, "guard valuations: SGD 2, SGDM 4, Adam 2, AdamW 1, RMSprop 8")
    ctx.floor("R03.4", 14 + 5 + 5 + 5, "14 defaults, 5 state allocations, 5 dispatch arms, 5 argument orders")
    ctx.floor("R03.5", 60, "sqrt/division obligations and cell checks over 15 arms")
