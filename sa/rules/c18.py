"""C18 - random generator range, purity, shuffle safety; Tensor::random shape."""
from fractions import Fraction as Fr

from ..core import Unestablished
from ..hir import walk, strip, pretty, short, calls, pat_binds
from .. import e2, e4
from ..e2 import AV, INF

LEVEL = "proof"
PROFILE_DEPENDENT = True
RULES = {
    "R18.1": "state invariant current in [0, modulus-1] (modulus, multiplier, increment constants): established by "
             "Generator::create for every u64 seed, preserved by generate; no other function writes a Generator field "
             "(MIR writes/&mut borrows); the fields are private to module random",
    "R18.2": "no arithmetic panic in create/generate/shuffle: every integer +,-,*,pow within the type range and every "
             "%,/ divisor non-zero under the invariant (interval analysis); the obligations cover the MIR Assert "
             "terminators of the dev profile one to one",
    "R18.3": "generate(min,max) with min <= max returns a value v with min <= v <= max (symbolic bounds propagated "
             "through IEEE-monotone operations only) and never NaN",
    "R18.4": "shuffle: both indices passed to slice::swap are < values.len() on every iteration",
    "R18.5": "shuffle touches `values` only through len() and swap(): the result is a permutation",
    "R18.6": "generate/shuffle are pure functions of the state and their arguments: no call outside "
             "{integer/float intrinsics, generate, len, swap}, no statics, no clock",
    "R18.7": "Tensor::random: each rank arm returns the requested shape with data dimensions equal to the shape's "
             "components, every element produced by generate(min, max) with the caller's min/max",
}
ASSUMPTIONS = [
    "min <= max, both finite and not NaN (the property's own proviso)",
    "IEEE-754 single precision, round-to-nearest: +,-,*,/ and int->float casts are monotone",
    "std semantics: u64 % m in [0, m-1]; `as usize` of a float saturates and maps NaN to 0; Vec::len/slice::swap as documented",
]
TRUSTED = ["rustc nightly front end (HIR, typeck, MIR)", "driver/src/main.rs", "sa/e2.py abstract interpreter"]

GEN = "random::Generator"
LEN = "std::vec::Vec::<T, A>::len"
SWAP = "core::slice::<impl [T]>::swap"


def _body_block(fn):
    b = fn["body"]
    while b.get("k") == "blk":
        b = b["b"]
    return b


class Obs:
    def __init__(self, ctx, rule, fn, prefix):
        self.ctx, self.rule, self.fn, self.prefix = ctx, rule, fn, prefix
        self.n = {}

    def __call__(self, kind, ok, node, detail):
        i = self.n.get(kind, 0)
        self.n[kind] = i + 1
        inst = "%s:%s#%d" % (self.prefix, kind, i)
        where = self.ctx.crate.loc(self.fn, node)
        if ok:
            self.ctx.ok(self.rule, inst, detail, where)
        else:
            self.ctx.bad(self.rule, inst, kind + "-not-discharged", where, detail)


def create_fields(ctx):
    c = ctx.crate
    fn = ctx.fn(GEN + "::create")
    if len(fn["params"]) != 1:
        raise Unestablished("Generator::create signature", c.loc(fn))
    seed_hid = pat_binds(fn["params"][0])[0][1]
    ob = Obs(ctx, "R18.2", fn, "create")
    ev = e2.Eval(c, {seed_hid: e2.top("u64")}, {}, ob)
    b = _body_block(fn)
    built = {}          # hid of a local holding a Generator literal -> {field: abstract value}

    def field_of_built(n):
        n = strip(n)
        if n is not None and n.get("k") == "field" and e4.local_hid(n["b"]) in built:
            return built[e4.local_hid(n["b"])], n["f"]
        return None
    for s in b["stmts"]:
        s0 = strip(s)
        init = strip(s0.get("init")) if s0.get("k") == "let" else None
        if init is not None and init.get("k") == "struct" and init["path"].endswith(GEN) and s0["pat"].get("k") == "bind":
            # `let mut g = Generator { .. };`  the fields of g are tracked one by one
            built[s0["pat"]["hid"]] = {name: ev.eval(e) for name, e in init["fs"]}
            continue
        if s0.get("k") in ("assign", "assignop") and field_of_built(s0["l"]) is not None:
            fs_, f_ = field_of_built(s0["l"])
            saved = {k_: ev.fields.get(k_) for k_ in fs_}
            ev.fields.update(fs_)
            # reads of g.<field> on the right-hand side see the tracked values (as the fields of `self` would)
            def subst(x):
                if isinstance(x, list):
                    return [subst(v) for v in x]
                if not isinstance(x, dict):
                    return x
                fb = field_of_built(x) if x.get("k") == "field" else None
                if fb is not None:
                    return {"k": "field", "b": {"k": "local", "name": "self", "hid": -1}, "f": fb[1], "t": x.get("t"), "line": x.get("line")}
                return {k_: subst(v) for k_, v in x.items()}
            r = ev.eval(subst(s0["r"]))
            if s0["k"] == "assignop":
                r = ev.arith(s0["op"].replace("Assign", ""), fs_[f_], r, s0)
            fs_[f_] = r
            for k_, v_ in saved.items():
                if v_ is None:
                    ev.fields.pop(k_, None)
                else:
                    ev.fields[k_] = v_
            continue
        ev.stmt(s)
    lit = strip(b["tail"])
    while lit is not None and lit.get("k") == "call" and len(lit["args"]) == 1:  # wrappers like Ok(..)
        lit = strip(lit["args"][0])
    if lit is not None and lit.get("k") == "local" and lit["hid"] in built:
        return fn, built[lit["hid"]]
    if lit is None or lit.get("k") != "struct" or not lit["path"].endswith(GEN):
        raise Unestablished("Generator::create does not end in a Generator literal", c.loc(fn))
    fields = {}
    for name, e in lit["fs"]:
        fields[name] = ev.eval(e)
    return fn, fields


def r1_r2_r3(ctx):
    c = ctx.crate
    cfn, fields = create_fields(ctx)
    for k in ("modulus", "multiplier", "increment", "current"):
        if k not in fields:
            raise Unestablished("Generator has no field %s" % k)
    consts = {}
    for k in ("modulus", "multiplier", "increment"):
        v = fields[k].const()
        ctx.check("R18.1", "const:" + k, v is not None, "field-not-constant", c.loc(cfn), "%s = %s" % (k, v),
                  "create does not give `%s` a constant value: %r" % (k, fields[k]))
        consts[k] = v
    if None in consts.values():
        return
    m = consts["modulus"]
    ctx.samples.append({"modulus": str(m), "multiplier": str(consts["multiplier"]), "increment": str(consts["increment"])})
    inv = AV(Fr(0), m - 1, False, ty="u64")
    cur = fields["current"]
    ctx.check("R18.1", "create-establishes", cur.lo >= 0 and cur.hi <= m - 1, "create-does-not-establish-invariant", c.loc(cfn),
              "create: current in %r within [0, m-1]" % cur,
              "Generator::create stores current in %r; the invariant current <= modulus-1 = %s is not established for every u64 seed, "
              "so multiplier*current can exceed 2^64 in generate (arithmetic overflow panic)" % (cur, m - 1))
    # writers
    n_w = 0

    def hir_writes(fpath, field):
        """does the (normalised) source of fpath assign to / mutably borrow `<x>.field`?"""
        f_ = c.fns.get(fpath)
        if f_ is None or f_.get("body") is None:
            return True
        for y in walk(f_["body"]):
            if y.get("k") == "struct" and "fs" in y and any(isinstance(q, dict) and q.get("k") in ("bind", "ref", "deref") for _, q in y["fs"] if _ == field):
                return True      # the field is still bound through a pattern: what happens through that binding is not visible here
            tgt = None
            if y.get("k") in ("assign", "assignop"):
                tgt = y["l"]
            elif y.get("k") == "ref" and y.get("mut"):
                tgt = y["x"]
            if tgt is not None and any(z.get("k") == "field" and z.get("f") == field for z in walk(tgt)):
                return True
        return False
    for mk, mv in c.mir.items():
        for w in mv["facts"]["writes"] + mv["facts"]["mutborrows"]:
            if w["adt"] == GEN:
                n_w += 1
                # (create may finish the value it is building field by field: those writes are part of the abstract evaluation of create above)
                ok = (mv["parent"] == GEN + "::generate" and w["field"] == "current") or mv["parent"] == GEN + "::create"
                if not ok and w in mv["facts"]["mutborrows"] and mv["parent"] == GEN + "::generate" and not hir_writes(GEN + "::generate", w["field"]):
                    ok = True    # `let Self { modulus, .. } = self` borrows every field mutably; a borrow nothing is written through is a read
                ctx.check("R18.1", "writer:%s.%s" % (mv["parent"], w["field"]), ok, "generator-field-written-elsewhere",
                          "%s:%s" % (mk, w["line"]), "only generate writes current", "%s writes Generator.%s" % (mk, w["field"]))
    for f in c.adts[GEN]["variants"][0]["fields"]:
        ctx.check("R18.1", "private:" + f["name"], f["vis"].startswith("Restricted") and "random" in f["vis"], "generator-field-not-private",
                  GEN, "visibility %s" % f["vis"], "Generator.%s is visible outside module random (%s)" % (f["name"], f["vis"]))
    lits = [(p, x) for p, fn in c.fns.items() for x in walk(fn["body"]) if x.get("k") == "struct" and x["path"].endswith(GEN)]
    for p, x in lits:
        ctx.check("R18.1", "literal:" + p, p == GEN + "::create", "generator-constructed-outside-create", p)
    # generate under the invariant
    gfn = ctx.fn(GEN + "::generate")
    if len(gfn["params"]) != 3:
        raise Unestablished("generate signature", c.loc(gfn))
    hmin = pat_binds(gfn["params"][1])[0][1]
    hmax = pat_binds(gfn["params"][2])[0][1]
    amin = AV(-e2.F32_MAX, e2.F32_MAX, False, {("min", 0)}, {("min", 0), ("max", 0)}, "f32")
    amax = AV(-e2.F32_MAX, e2.F32_MAX, False, {("max", 0), ("min", 0)}, {("max", 0)}, "f32")
    f0 = {"modulus": fields["modulus"], "multiplier": fields["multiplier"], "increment": fields["increment"], "current": inv}
    ob = Obs(ctx, "R18.2", gfn, "generate")
    ev = e2.Eval(c, {hmin: amin, hmax: amax}, f0, ob)
    res = ev.block(_body_block(gfn))
    cur2 = ev.fields["current"]
    ctx.check("R18.1", "generate-preserves", cur2.lo >= 0 and cur2.hi <= m - 1, "generate-breaks-invariant", c.loc(gfn),
              "after generate: current in %r" % cur2, "after generate current in %r, not within [0, %s]" % (cur2, m - 1))
    ctx.check("R18.3", "lower-bound", res.ge_sym("min", 0), "result-not-provably-ge-min", c.loc(gfn),
              "result %r" % res, "cannot derive generate(min,max) >= min; abstract result %r" % res)
    ctx.check("R18.3", "upper-bound", res.le_sym("max", 0), "result-not-provably-le-max", c.loc(gfn),
              "result %r" % res,
              "cannot derive generate(min,max) <= max: ratio*(max-min)+min is rounded three times and may exceed max "
              "(abstract result %r); e.g. ratio = 1, min=-0.3, max=0.9" % res)
    ctx.check("R18.3", "not-nan", not res.nan, "result-may-be-nan", c.loc(gfn), "result %r" % res,
              "generate(min, max) may return NaN (abstract result %r): with state 0 and an interval whose width overflows, 0 * inf = NaN, and NaN is not within [min, max]; "
              "`.max(min).min(max)` maps a NaN to min, `clamp` keeps it" % res)
    # the stream: every call of generate advances the state exactly once, whatever its arguments (E6 summary: one write of self.current on
    # every returning path) - otherwise the k-th value is not a function of the seed and k alone
    from .. import e6
    Eg = e6.Exec(c, gfn)
    gp = [p_ for p_ in Eg.run_fn() if p_.exit is None or p_.exit[0] == "return"]
    adv = [len([e_ for e_ in p_.eff if e_[0] == "set" and e_[1] == ("field", ("local", "self"), "current")]) for p_ in gp]
    ctx.check("R18.1", "advances-once-per-call", bool(gp) and all(a_ == 1 for a_ in adv) and all(not p_.pc for p_ in gp), "state-advance-per-path:%s" % adv, c.loc(gfn),
              "every call steps the generator exactly once, unconditionally",
              "generate() has %d returning path(s) writing `current` %s time(s) (conditions: %s): a call that returns without stepping the state shifts the rest of the "
              "sequence, so the sequence depends on the arguments of earlier calls, not on the seed alone"
              % (len(gp), adv, "; ".join(e6.show(t_, 2)[:40] for p_ in gp for (t_, _) in p_.pc)[:160]))
    # MIR cross-check (dev profile only): every Assert terminator corresponds to an obligation kind we generated
    if "overflow_checks=true" in c.f.get("flags", ""):
        for p, fnn, pref in ((GEN + "::create", cfn, "create"), (GEN + "::generate", gfn, "generate")):
            asserts = [a for mk, mf in c.mir_bodies(p) for a in mf["asserts"]]
            n_ob = sum(1 for o in ctx.obligations if o["rule"] == "R18.2" and o["instance"].startswith(pref + ":"))
            ctx.check("R18.2", "mir-asserts-covered:" + pref, n_ob >= len(asserts), "fewer-obligations-than-mir-asserts", c.loc(fnn),
                      "%d interval obligations cover %d MIR Assert terminators %s" % (n_ob, len(asserts), [a["kind"] for a in asserts]),
                      "%d obligations but %d MIR asserts %s" % (n_ob, len(asserts), [a["kind"] for a in asserts]))
    return consts, inv, f0


def r4_r5(ctx, consts, inv, f0):
    c = ctx.crate
    fn = ctx.fn(GEN + "::shuffle")
    if len(fn["params"]) != 2:
        raise Unestablished("shuffle signature", c.loc(fn))
    vh = pat_binds(fn["params"][1])[0][1]
    sym = "len(values)"
    ob = Obs(ctx, "R18.2", fn, "shuffle")
    swaps = []

    def s_len(ev, n):
        if e4.local_hid(n["recv"]) != vh:
            raise ValueError("len() of something else than `values`")
        return ev.sym_av(sym, "usize")

    def s_swap(ev, n):
        if e4.local_hid(n["recv"]) != vh:
            raise ValueError("swap on something else than `values`")
        args = [ev.eval(a) for a in n["args"]]
        for i, a in enumerate(args):
            ok = a.le_sym(sym, -1) and a.lo >= 0
            swaps.append(ok)
            ctx.check("R18.4", "swap-index-%d" % i, ok, "index-not-provably-lt-len", c.loc(fn, n),
                      "index %s = %r < len" % (pretty(n["args"][i]), a),
                      "cannot derive `%s` < values.len(): abstract value %r (a float in [0, len] truncates to len when the "
                      "generator returns its upper bound)" % (pretty(n["args"][i]), a))
        return e2.top("()")

    def s_gen(ev, n):
        a, b = [ev.eval(x) for x in n["args"]]
        ok = (a.hi <= b.lo) or any(s in b.lbs for s in a.lbs)
        ob("generate-precondition-min-le-max", ok and not a.nan and not b.nan, n, "generate(%r, %r)" % (a, b))
        ev.fields["current"] = inv
        return AV(a.lo, b.hi, False, a.lbs, b.ubs, "f32")

    ev = e2.Eval(c, {}, dict(f0), ob, {LEN: s_len, SWAP: s_swap, GEN + "::generate": s_gen})
    ev.inv_fields = {"current": inv}
    ev.block(_body_block(fn))
    if not swaps:
        ctx.notes.append("shuffle contains no swap call")
    # R18.5 effect scan on `values`
    uses = [x for x in walk(fn["body"]) if x.get("k") == "local" and x["hid"] == vh]
    recv_ok = set()
    for x in walk(fn["body"]):
        if x.get("k") == "mcall" and e4.local_hid(x["recv"]) == vh and x["callee"] in (LEN, SWAP):
            recv_ok.add(strip(x["recv"])["id"])
    bad = [u for u in uses if u["id"] not in recv_ok]
    ctx.check("R18.5", "values-only-len-and-swap", not bad and len(swaps) >= 2, "values-used-otherwise",
              c.loc(fn, bad[0]) if bad else c.loc(fn), "%d uses of `values`, all len()/swap() receivers" % len(uses),
              "`values` is used other than as receiver of len()/swap(): the result need not be a permutation")
    # every iteration: loop over 0..len
    loops = [x for x in walk(fn["body"]) if x.get("k") in ("for", "loop")]
    ctx.check("R18.5", "single-range-loop", len(loops) == 1 and loops[0]["k"] == "for", "unexpected-loop-structure", c.loc(fn))


def r6(ctx):
    c = ctx.crate
    allowed_prefix = ("core::num::", "core::f32::", "std::f32::", "std::cmp::Ord::", "core::cmp::Ord::", "std::cmp::min", "std::cmp::max", "core::cmp::min", "core::cmp::max")
    for p, extra in ((GEN + "::generate", ()), (GEN + "::shuffle", (GEN + "::generate", LEN, SWAP)), (GEN + "::create", ())):
        fn = ctx.fn(p)
        bad = []
        for mk, mf in c.mir_bodies(p):
            for cl in mf["calls"]:
                cal = cl["callee"]
                if cal in extra or cal.startswith(allowed_prefix):
                    continue
                if cal in {x["helper"] for x in c.f.get("_inlined", [])}:
                    continue      # a new private helper: its body was spliced in and its own calls are judged here (sa/inline.py)
                if cal.startswith("core::iter::") or cal.startswith("std::iter::") or "Range" in cal or "IntoIterator" in cal or cal.startswith("core::ops::"):
                    continue  # for-loop desugaring over a Range
                if cal.startswith("core::slice::index") or cal.startswith("std::ops::Deref") or "deref" in cal:
                    continue
                if cal in ("std::mem::replace", "std::mem::swap", "std::mem::take", "core::mem::replace", "core::mem::swap", "core::mem::take") or \
                        cal.endswith(("as std::ops::Index<I>>::index", "as std::ops::IndexMut<I>>::index_mut")):
                    continue  # reads / writes of the places handed in: no state beyond the arguments (what is done to `values` is R18.5's matter)
                if cal.startswith(("core::panicking::", "std::rt::begin_panic", "core::fmt::Arguments", "core::fmt::rt::")):
                    continue  # a panic (assert!/debug_assert!) is a rejection: it reads and writes no state that could make draws differ
                bad.append(cal)
        paths = [x["def"] for x in walk(fn["body"]) if x.get("k") == "path" and not x["def"].startswith(("std::ops::Range",))]
        nonfn = [d for d in paths if not (d.startswith(allowed_prefix) or d in extra or d.startswith("Self:") or d.startswith("core::") or d.startswith("std::"))]
        ctx.check("R18.6", "pure:" + p, not bad and not nonfn, "impure-call-or-global:" + ",".join(sorted(set(bad + nonfn))), c.loc(fn),
                  "calls only intrinsics%s" % (" + " + ", ".join(extra) if extra else ""),
                  "%s calls/reads %s: the sequence is no longer a function of the seed alone" % (p, sorted(set(bad + nonfn))))
    ctx.check("R18.6", "no-statics", not c.f["statics"], "crate-has-statics", "crate", "no static items in the crate", str(c.f["statics"]))


def r7(ctx):
    """R18.7 on the E6 summary of Tensor::random: per rank one result path; it is `Tensor { shape: <the requested shape>, data: Data::<Rank>(N) }`
    where N is a nest over 0..d_k with d_k the shape's own components in order and every element one `generator.generate(min, max)` draw
    from the generator created at the top."""
    from .. import e6
    c = ctx.crate
    fn = ctx.fn("tensor::Tensor::random")
    if len(fn["params"]) != 3:
        raise Unestablished("Tensor::random signature", c.loc(fn))
    shn, mnn, mxn = [pat_binds(p)[0][0] for p in fn["params"]]
    SH = ("p", shn)
    E = e6.Exec(c, fn)
    paths = [p for p in E.run_fn() if p.exit is None or p.exit[0] == "return"]
    ranks = {"tensor::Shape::Single": ("tensor::Data::Single", 1), "tensor::Shape::Double": ("tensor::Data::Double", 2),
             "tensor::Shape::Triple": ("tensor::Data::Triple", 3), "tensor::Shape::Quadruple": ("tensor::Data::Quadruple", 4)}
    where = c.loc(fn)
    for vp, (dctor, rank) in ranks.items():
        inst = vp.split("::")[-1]
        mine = [p for p in paths if e6.variant_of(p).get(SH) == vp]
        if len(mine) != 1:
            ctx.bad("R18.7", inst, "arm-not-a-tensor-literal", where, "%d result paths for %s" % (len(mine), inst))
            continue
        p = mine[0]
        val = p.val if p.exit is None else p.exit[1]
        if not (isinstance(val, tuple) and val and val[0] == "struct" and val[1].endswith("tensor::Tensor")):
            ctx.bad("R18.7", inst, "arm-not-a-tensor-literal", where, e6.show(val, 2)[:120])
            continue
        fs = dict(val[2])
        ctx.check("R18.7", inst + ":shape", fs.get("shape") == SH, "shape-field-not-the-requested-shape", where, "shape: shape")
        d = fs.get("data")
        if not (isinstance(d, tuple) and d and d[0] == "call" and d[1] == dctor and len(d[2]) == 1):
            ctx.bad("R18.7", inst + ":data", "wrong-data-constructor", where, "expected %s(..), found %s" % (dctor, e6.show(d, 2)[:80]))
            continue
        gen_eff = lambda e: e[0] == "mut" and e[1] == GEN + "::generate"
        rn = e6.range_nest(E, d[2][0], gen_eff)
        want = [("payload", SH, vp, i) for i in range(rank)]
        if rn is None or [e6.strip_upd(x) for x in rn[0]] != want:
            ctx.bad("R18.7", inst + ":dims", "data-dimensions-differ-from-shape", where,
                    "the data is built as %s over %s; shape components %s" % (e6.show(d[2][0], 3)[:120], [e6.show(x, 2) for x in (rn[0] if rn else [])], [e6.show(x, 2) for x in want]))
            continue
        ctx.ok("R18.7", inst + ":dims", "data dims = shape components in order", where)
        el = rn[1]
        g = e6.is_call(el, "generate", 3)
        src = g[0] if g else None
        created = None
        if src is not None:
            base = src
            while isinstance(base, tuple) and base and base[0] in ("loopin", "loopout", "upd"):
                if base[0] == "loopin":
                    # value at loop entry: look the name up in the enclosing path's environment history (the generator is created once, at the top)
                    created = base[1]
                    break
                base = base[1] if base[0] == "upd" else base[3]
        crt = e6.find_terms(tuple(p.eff) + tuple(x for x in p.env.values() if isinstance(x, tuple)), lambda t: t[0] == "call" and t[1] == GEN + "::create")
        elem_ok = (g is not None and el[1] == GEN + "::generate" and g[1] == ("p", mnn) and g[2] == ("p", mxn) and created is not None and bool(crt)
                   and len(rn[2]) == 1)
        ctx.check("R18.7", inst + ":element", elem_ok, "element-not-generate(min,max)", where,
                  "element = generator.generate(min, max)", "element expression is %s" % e6.show(el, 3)[:100])
    ctx.floor("R18.7", 12, "4 rank arms x (shape, dims, element)")


RULES["R18.1"] += " | entries-stay-in-place (who-may-permute): over every function of the property's modules, no Vec/slice operation that moves entries to other positions (reverse, swap, rotate, sort .., mem::swap of two entries) outside the table of sites confirmed on the pinned tree (common.PERMUTING_SITES)"


def run(ctx):
    from .common import no_permuting_ops
    ctx.guard("R18.1", "entries-stay-in-place", no_permuting_ops, ctx, "R18.1", "random", {"src/random.rs"}, 3)
    r = ctx.guard("R18.1", "generator", r1_r2_r3, ctx)
    if r:
        ctx.guard("R18.4", "shuffle", r4_r5, ctx, *r)
    ctx.guard("R18.6", "purity", r6, ctx)
    ctx.guard("R18.7", "tensor-random", r7, ctx)
    ctx.floor("R18.2", 4, "mul, add, rem, sub in generate")
    ctx.floor("R18.4", 2, "two swap indices")
