"""C10 - feedback blocks keep their repeated layers weight-tied."""
from ..core import Unestablished
from ..hir import walk, strip, pretty, short, calls, pat_binds
from .. import e1, e4
from ..e1 import Rat
from .common import top_stmts_of, check_acc_dispatch, acc_matches, mentions_local, INPLACE
from .learn import chain_of

LEVEL = "other"
RULES = {
    "R10.1": "creation: Feedback::create extends `layers` with clones of the ORIGINAL slice exactly loops-1 times, and "
             "coupled[l] = { l + i*length | i < loops } for every l < length (a partition of all unrolled positions)",
    "R10.2": "re-coupling covers everything, uniformly: in Feedback::update, after the per-copy optimizer calls, a full traversal of "
             "self.coupled gathers the parameters of every member of a group (weights/bias for dense, kernels for (de)convolution), "
             "combines them with the configured accumulation, and writes the one combined value back to EVERY member for every "
             "parameter-bearing variant that was gathered; the written value does not depend on the member index",
    "R10.3": "the accumulation arms of the coupling use their own primitives (Add->add_inplace, Subtract->sub_inplace, "
             "Multiply->mul_inplace, Mean->add_inplace then div_scalar_inplace(count)); Overwrite is explicitly unimplemented (panics): "
             "outside the supported set",
    "R10.4": "Feedback::parameters sums parameters() of positions 0..coupled.len() only (each shared parameter once), over all variants",
}
RULES["R10.4"] += " | network-count-delegates: network::Layer::parameters delegates per variant to the payload's own parameters() (a block is counted by Feedback::parameters, Maxpool => 0)"
ASSUMPTIONS = ["that the tied value is a sensible optimisation step is not claimed by the property and not decided"]
TRUSTED = ["rustc nightly front end", "driver/src/main.rs", "sa/e1.py", "sa/e4.py"]

FB = "feedback::Feedback::"
PARAM_FIELDS = {"Dense": ["weights", "bias"], "Convolution": ["kernels"], "Deconvolution": ["kernels"]}


def r1(ctx):
    c = ctx.crate
    fn = ctx.fn(FB + "create")
    P = {pat_binds(p)[0][0]: pat_binds(p)[0][1] for p in fn["params"] if pat_binds(p)}
    st = top_stmts_of(fn["body"])
    lets = {}
    for s in st:
        if s.get("k") == "let":
            for nm, h in pat_binds(s["pat"]):
                lets[nm] = (h, s)
    order = {id(s): i for i, s in enumerate(st)}
    ln = lets.get("length")
    ok = ln is not None and pretty(strip(ln[1]["init"])) == "layers.len()"
    ctx.check("R10.1", "length-is-original-count", ok, "length-definition", c.loc(fn), "length = layers.len() before extension")
    # the extension loop
    ext = [s for s in st if s.get("k") == "for" and any(x.get("k") == "mcall" and x["name"] == "extend" and e4.local_hid(x["recv"]) == P.get("layers") for x in walk(s))]
    ok = False
    detail = ""
    if len(ext) == 1:
        lp = ext[0]
        it = strip(lp["iter"])
        e = [x for x in walk(lp["body"]) if x.get("k") == "mcall" and x["name"] == "extend"][0]
        from ..hir import let_table, resolve
        arg = resolve(e["args"][0], let_table(lp["body"]))
        src = arg["recv"] if arg.get("k") == "mcall" and arg["name"] == "clone" else arg
        srch = e4.local_hid(src)
        copy = [v for nm, v in lets.items() if v[0] == srch]
        copy_ok = bool(copy) and pretty(strip(copy[0][1]["init"])) == "layers.clone()" and order[id(copy[0][1])] < order[id(lp)] and (ln is None or order[id(ln[1])] < order[id(lp)])
        rng_ok = it.get("k") == "struct" and it["path"] == "std::ops::Range" and [pretty(strip(b)) for a, b in it["fs"]] == ["1", "loops"]
        # .. and the saved copy is never modified: every repetition starts as an exact clone of the original layers
        from .. import e6 as _e6
        untouched = srch not in _e6.Exec(c, fn)._mutated_locals(fn["body"])
        ok = copy_ok and rng_ok and untouched
        if not untouched:
            detail_extra = " (the saved copy is modified before it is appended)"
        detail = "for _ in %s { layers.extend(%s) }" % (pretty(it), short(pretty(arg), 40)) + ("" if untouched else " after modifying the saved copy")
    ctx.check("R10.1", "extend-with-original-clones", ok, "extension:" + short(detail, 90), c.loc(fn, ext[0]) if ext else c.loc(fn), "for _ in 1..loops { layers.extend(original.clone()) }",
              "the unrolled copies are produced by `%s`; every repetition must be a clone of the original layer list, loops-1 times" % detail)
    # coupled: for l in 0..length: the group {l + i*length | i in 0..loops}, built by an inner loop with push or by map/collect
    cp = lets.get("coupled")
    loops_ = [s for s in st if s.get("k") == "for" and cp and any(x.get("k") == "mcall" and x["name"] == "push" and e4.local_hid(x["recv"]) == cp[0] for x in walk(s))]
    ok = False
    detail = ""
    from .common import range_bounds
    if len(loops_) == 1:
        o = loops_[0]
        ov = pat_binds(o["pat"])[0]
        ro = range_bounds(c, o["iter"], {ln[0]: Rat.atom("length")} if ln else {})
        cand = []
        for x in walk(o["body"]):
            if x.get("k") == "for":
                rb = range_bounds(c, x["iter"])
                pushes = [y for y in walk(x["body"]) if y.get("k") == "mcall" and y["name"] == "push"]
                if rb and len(pushes) == 1:
                    cand.append((pat_binds(x["pat"])[0][1], rb, pushes[0]["args"][0]))
            if x.get("k") == "mcall" and x["name"] == "map" and len(x["args"]) == 1 and strip(x["args"][0]).get("k") == "closure":
                rb = range_bounds(c, x["recv"])
                cl_ = strip(x["args"][0])
                if rb and len(pat_binds(cl_["params"][0])) == 1:
                    cand.append((pat_binds(cl_["params"][0])[0][1], rb, cl_["body"]))
        if len(cand) == 1 and ro is not None:
            ih_, rb, expr = cand[0]
            env_ = {ov[1]: Rat.atom("l"), ih_: Rat.atom("i")}
            if ln:
                env_[ln[0]] = Rat.atom("length")
            v = e1.Norm(c, env_).norm(expr)
            ok = (v == Rat.atom("l") + Rat.atom("i") * Rat.atom("length") and str(ro[0]) == "0" and ro[1] == Rat.atom("length")
                  and str(rb[0]) == "0" and rb[1] == Rat.atom("loops"))
            detail = "for l in %s..%s, i in %s..%s: %s" % (ro[0], ro[1], rb[0], rb[1], v)
    if not ok:
        # same fact on the E6 summary: the `coupled` field of the created block is [[l + i*length for i in 0..loops] for l in 0..length],
        # however the two sequences are built (push loops, map/collect, mixed)
        from .. import e6
        E_ = e6.Exec(c, fn)
        ps_ = [p for p in E_.run_fn() if p.exit is None or p.exit[0] == "return"]
        LEN_ = ("call", "std::vec::Vec::<T, A>::len", (("p", "layers"),))
        ok2 = bool(ps_)
        for p in ps_:
            val = p.val if p.exit is None else p.exit[1]
            cv = dict(val[2]).get("coupled") if isinstance(val, tuple) and val and val[0] == "struct" else None
            o_ = e6.elementwise_sequence(E_, cv) if cv is not None else None
            i_ = e6.elementwise_sequence(E_, o_[1]) if o_ else None
            good = (o_ is not None and i_ is not None and e6.range_of(o_[0]) == (("lit", "0"), LEN_) and e6.range_of(i_[0]) == (("lit", "0"), ("p", "loops"))
                    and i_[1] == e6.mk_bin("Add", e6.mk_bin("Mul", i_[2], LEN_), o_[2]))
            if not good:
                ok2 = False
                detail = "coupled = %s" % (e6.show(cv, 3)[:80] if cv is not None else "?")
        ok = ok2
    ctx.check("R10.1", "coupled-groups", ok, "coupled:" + short(detail, 90), c.loc(fn), "coupled[l] = {l + i*length | i < loops}, l < length",
              "coupling groups are built as `%s`" % detail)
    lit = [x for x in walk(fn["body"]) if x.get("k") == "struct" and x["path"].endswith("feedback::Feedback")]
    fs = dict((a_, pretty(strip(e_))) for a_, e_ in lit[0]["fs"]) if lit else {}
    ctx.check("R10.1", "fields-stored", fs.get("layers") == "layers" and fs.get("coupled") == "coupled", "feedback-literal", c.loc(fn), "layers: layers, coupled: coupled")


def variant_fields_written(c, arm, lh):
    out = set()
    for x in walk(arm["body"]):
        if x.get("k") == "assign":
            l = strip(x["l"])
            if l.get("k") == "field" and e4.local_hid(l["b"]) == lh:
                out.add(l["f"])
            elif l.get("k") == "local":
                # `*b = ..` where b bound from `if let Some(b) = &mut layer.bias`
                for y in walk(arm["body"]):
                    if y.get("k") == "letx" and any(h == l["hid"] for (_, h) in pat_binds(y["pat"])):
                        src = strip(y["init"])
                        while src is not None and src.get("k") == "mcall" and src["name"] in ("as_mut", "as_deref_mut", "iter_mut") and not src["args"]:
                            src = strip(src["recv"])          # `layer.bias.as_mut()` is `&mut layer.bias` seen through the Option
                        if src is not None and src.get("k") == "field" and e4.local_hid(src["b"]) == lh:
                            out.add(src["f"])
    return out


def variant_fields_read(c, arm, lh):
    out = set()
    for x in walk(arm["body"]):
        if x.get("k") == "field" and e4.local_hid(x["b"]) == lh and x["f"] in ("weights", "bias", "kernels"):
            out.add(x["f"])
    return out


def r2(ctx):
    c = ctx.crate
    fn = ctx.fn(FB + "update")
    st = top_stmts_of(fn["body"])
    cl = [s for s in st if s.get("k") == "for" and "self.coupled" in pretty(s["iter"])]
    if len(cl) != 1:
        raise Unestablished("update: expected one loop over self.coupled", c.loc(fn))
    lp = cl[0]
    names, base = chain_of(lp["iter"])
    ctx.check("R10.2", "every-group", names in (["iter"], []), "group-walk:" + ".".join(names), c.loc(fn, lp), "for couple in self.coupled.iter()")
    # on the E6 summary: every way through update() that returns normally runs the walk over self.coupled (no early return, no condition
    # under which a training step leaves the copies untied)
    from .. import e6
    E = e6.Exec(c, fn)
    live = [p for p in E.run_fn() if p.exit is None or p.exit[0] == "return"]

    def couples(p):
        for e in p.eff:
            if e[0] == "loop":
                it = e6.strip_upd(e[2])
                if isinstance(it, tuple) and it and it[0] == "field" and it[2] == "coupled" and (it[1] == ("p", "self") or e6.root_name(it[1]) == "self"):
                    return True
        return False
    skipping = [p for p in live if not couples(p)]
    ctx.check("R10.2", "recoupled-on-every-step", bool(live) and not skipping, "update-path-without-recoupling:" + short("; ".join(("" if b_ else "!") + e6.show(t_, 2) for t_, b_ in (skipping[0].pc if skipping else ())), 80),
              c.loc(fn, lp), "every returning path of update() re-couples the groups",
              "Feedback::update can return without walking self.coupled (when %s): after such a step the unrolled copies of a layer hold different parameters"
              % "; ".join(("" if b_ else "not ") + e6.show(t_, 2) for t_, b_ in (skipping[0].pc if skipping else ()))[:200])
    opt = [i for i, s in enumerate(st) if any(x.get("k") == "mcall" and x["callee"] == "optimizer::Optimizer::update" for x in walk(s))]
    ctx.check("R10.2", "after-optimizer-steps", bool(opt) and max(opt) < st.index(lp), "coupling-before-optimizer", c.loc(fn, lp), "re-coupling follows the per-copy optimizer calls")
    outs = e4.outcomes(c, lp["body"], lambda n: False)
    ctx.check("R10.2", "no-early-exit-from-groups", all(k == e4.FALL for (k, _) in outs), "group-loop-exit:" + ",".join(sorted({str(k[0]) for (k, _) in outs})), c.loc(fn, lp), "every group is processed")
    ch = pat_binds(lp["pat"])[0][1]
    body = top_stmts_of(lp["body"])
    inner = [s for s in body if s.get("k") == "for" and e4.local_hid(chain_of(s["iter"])[1]) == ch]
    if len(inner) != 2:
        raise Unestablished("coupling: expected a gather loop and a write-back loop over the group, found %d" % len(inner), c.loc(fn, lp))
    gather, write = inner
    for nm, l in (("gather", gather), ("write-back", write)):
        ns, _ = chain_of(l["iter"])
        ctx.check("R10.2", nm + ":every-member", ns in (["iter"], []), "%s-walk:%s" % (nm, ".".join(ns)), c.loc(fn, l), "for idx in couple.iter()",
                  "the %s loop walks the group with `%s`: some unrolled copies would not be %s" % (nm, ".".join(ns), "combined" if nm == "gather" else "overwritten with the tied value"))
    gm = [x for x in walk(gather["body"]) if x.get("k") == "match"]
    wm = [x for x in walk(write["body"]) if x.get("k") == "match"]
    if not gm or not wm:
        raise Unestablished("coupling loops do not match on the layer kind", c.loc(fn, lp))
    gi, wi = pat_binds(gather["pat"])[0][1], pat_binds(write["pat"])[0][1]
    def scr_ok(m, ih):
        s_ = strip(m["scrut"])
        return s_.get("k") == "index" and "self.layers" in pretty(s_["b"]) and e4.local_hid(s_["i"]) == ih
    ctx.check("R10.2", "gather:indexes-member", scr_ok(gm[0], gi), "gather-scrutinee", c.loc(fn, gm[0]), "match &self.layers[*idx]")
    ctx.check("R10.2", "write-back:indexes-member", scr_ok(wm[0], wi), "write-back-scrutinee", c.loc(fn, wm[0]), "match &mut self.layers[*i]")
    gathered, written = {}, {}
    for arm in gm[0]["arms"]:
        vp, b = e4.arm_variant(arm)
        if vp.startswith("network::Layer::") and b:
            gathered[vp.split("::")[-1]] = variant_fields_read(c, arm, b[0][1])
    wb_arms = {}
    for arm in wm[0]["arms"]:
        vp, b = e4.arm_variant(arm)
        if vp.startswith("network::Layer::") and b:
            written[vp.split("::")[-1]] = variant_fields_written(c, arm, b[0][1])
            wb_arms[vp.split("::")[-1]] = (arm, b[0][1])
    for kind, fields in PARAM_FIELDS.items():
        g = gathered.get(kind, set())
        w = written.get(kind, set())
        ctx.check("R10.2", "gathered:" + kind, g == set(fields), "gathered-fields:%s:%s" % (kind, ",".join(sorted(g))), c.loc(fn, gather), "%s: %s gathered" % (kind, fields))
        ctx.check("R10.2", "written-back:" + kind, w == set(fields), "written-fields:%s:%s" % (kind, ",".join(sorted(w))), c.loc(fn, write), "%s: %s written back" % (kind, fields),
                  "after the update the %s copies of a group get %s written back, but %s were combined: the unrolled copies drift apart" % (kind, sorted(w) or "nothing", fields))
        if kind in wb_arms:
            arm, lh = wb_arms[kind]
            dep = [x for x in walk(arm["body"]) if x.get("k") == "assign" and mentions_local(x["r"], wi)]
            from ..hir import let_table, cpretty
            TT_ = let_table(fn["body"])
            rhs = [cpretty(strip(x["r"]), TT_) for x in walk(arm["body"]) if x.get("k") == "assign"]
            ok = not dep and all(r.startswith(("weight.", "bias.")) for r in rhs)
            ctx.check("R10.2", "uniform-value:" + kind, ok, "written-value:%s:%s" % (kind, ";".join(rhs)[:60]), c.loc(fn, arm["body"]), "every member receives the same combined value (%s)" % "; ".join(rhs))
    # write-back must come after the accumulation
    ms = acc_matches(lp["body"])
    if len(ms) != 1:
        raise Unestablished("expected one accumulation dispatch in the coupling loop", c.loc(fn, lp))
    idx = {id(s): i for i, s in enumerate(body)}
    mi = [i for i, s in enumerate(body) if any(y is ms[0] for y in walk(s))]
    ctx.check("R10.2", "order", mi and body.index(gather) < mi[0] < body.index(write), "coupling-order", c.loc(fn, lp), "gather, combine, write back")
    # the combined value starts from the first member and folds the rest
    t = pretty(lp["body"])
    ctx.check("R10.2", "starts-from-first-member", "let weight = weights.remove(0)" in t and "biases.remove(0)" in t, "accumulator-start", c.loc(fn, lp), "weight = weights.remove(0)")
    # R10.3
    check_acc_dispatch(ctx, "R10.3", fn, ms[0], "coupling", allow_unimplemented=("Overwrite",), mean_div_ok=lambda b: True)  # divisor checked below (count)
    scr = strip(ms[0]["scrut"])
    ctx.check("R10.3", "dispatch-on-accumulation", scr.get("k") == "field" and scr["f"] == "accumulation", "dispatch-field:" + pretty(scr), c.loc(fn, ms[0]), "match self.accumulation")
    # both weights and biases are combined in every arm; Mean divides by count
    for arm in ms[0]["arms"]:
        vp, _ = e4.arm_variant(arm)
        v = vp.split("::")[-1]
        if v == "Overwrite":
            continue
        recvs = sorted({pretty(strip(x["recv"])) for x in walk(arm["body"]) if x.get("k") == "mcall" and x["callee"] in INPLACE})
        # receivers bound from the optional combined bias (`if let Some(b) = &mut bias` / `bias.as_mut()`) are the bias
        bias_alias = {"bias", "b"}
        for y in walk(arm["body"]):
            if y.get("k") == "letx":
                src_ = strip(y["init"])
                while src_ is not None and src_.get("k") == "mcall" and src_["name"] in ("as_mut", "as_deref_mut") and not src_["args"]:
                    src_ = strip(src_["recv"])
                if src_ is not None and src_.get("k") == "local" and src_["name"] == "bias":
                    bias_alias |= {n_ for (n_, _) in pat_binds(y["pat"])}
        ok = any(r == "weight" for r in recvs) and any(r in bias_alias for r in recvs)
        if v == "Mean":
            divs = [x for x in walk(arm["body"]) if x.get("k") == "mcall" and x["name"] == "div_scalar_inplace"]
            ok = ok and len(divs) == 2 and all(pretty(strip(x["args"][0])) == "count" for x in divs) \
                and sorted(pretty(strip(x["recv"])) in bias_alias for x in divs) == [False, True]
        ctx.check("R10.3", "weights-and-biases:" + v, ok, "combined-objects:%s:%s" % (v, ",".join(recvs)), c.loc(fn, arm["body"]), "weights and biases both combined")
    cnt = [x for x in walk(gather["body"]) if x.get("k") == "assignop" and pretty(strip(x["l"])) == "count"]
    ctx.check("R10.3", "count-per-member", len(cnt) == 1 and e4.lit_value(cnt[0]["r"]) == "1.0", "count-update", c.loc(fn, gather), "count += 1.0 per gathered member")


def r4(ctx):
    """parameter counts, decided on E6 summaries.
    Feedback::parameters: the sum, over positions 0..coupled.len() (one per distinct layer), of the payload's own parameters() (0 for a
    pooling layer).  network::Layer::parameters: per variant the payload's own parameters() (a block is counted by Feedback::parameters)."""
    from .. import e6
    c = ctx.crate
    payload_ty = {v["name"]: v["fields"][0]["ty"] for v in c.adts["network::Layer"]["variants"]}
    # ---- Feedback::parameters
    fn = ctx.fn(FB + "parameters")
    E = e6.Exec(c, fn)
    paths = [p for p in E.run_fn() if p.exit is None or p.exit[0] == "return"]
    ok_rng = ok_idx = ok_sum = len(paths) == 1
    got = "?"
    counts = {}
    if len(paths) == 1:
        val = paths[0].val if paths[0].exit is None else paths[0].exit[1]
        ok_sum = isinstance(val, tuple) and len(val) == 4 and val[0] == "loopout" and val[3] == ("lit", "0")
        if ok_sum:
            name, lid = val[1], val[2]
            S = E.loop_summaries[lid]
            rng = e6.range_of(S["iter"])
            want_end = ("call", "std::vec::Vec::<T, A>::len", (("field", ("p", "self"), "coupled"),))
            ok_rng = rng == (("lit", "0"), want_end)
            got = e6.show(S["iter"], 2)
            el = ("elem", S["iter"], lid)
            scrut = ("idx", ("field", ("p", "self"), "layers"), el)
            for bp in S["paths"]:
                if bp.exit is not None:
                    continue
                vs = e6.variant_of(bp)
                if scrut not in vs:
                    ok_idx = False
                    continue
                kind = vs[scrut].split("::")[-1]
                sets = [f for f in bp.eff if f[0] == "set" and f[1] == ("local", name)]
                if len(sets) != 1 or len([f for f in bp.eff if f[0] != "set"]) > 0:
                    counts[kind] = False
                    continue
                new = sets[0][2]
                pay = ("payload", scrut, vs[scrut], 0)
                want_x = ("lit", "0") if kind == "Maxpool" else ("call", payload_ty[kind] + "::parameters", (pay,))
                good = new == e6.mk_bin("Add", ("loopin", name, lid), want_x)
                counts[kind] = good if kind not in counts else (counts[kind] and good)
    ctx.check("R10.4", "first-repetition-only", ok_rng, "parameter-range:" + short(got, 60), c.loc(fn), "for idx in 0..self.coupled.len()",
              "parameters are summed over positions %s; the first repetition is positions 0..coupled.len() (one per distinct layer)" % got)
    ctx.check("R10.4", "indexes-layers", ok_idx and bool(counts), "parameter-index", c.loc(fn), "self.layers[idx]")
    for kind in PARAM_FIELDS:
        ctx.check("R10.4", "counts:" + kind, counts.get(kind) is True, "parameter-count:" + kind, c.loc(fn), "%s.parameters()" % kind)
    ctx.check("R10.4", "summed", ok_sum and counts.get("Maxpool", True) is not False, "parameter-sum", c.loc(fn), "parameters += .. starting from 0")


def r4b(ctx):
    """the network-level count delegates to each payload's own parameters(): a block is counted by Feedback::parameters (once per shared layer)"""
    from .. import e6
    c = ctx.crate
    fn = ctx.fn("network::Layer::parameters")
    E = e6.Exec(c, fn)
    paths = [p for p in E.run_fn() if p.exit is None or p.exit[0] == "return"]
    SELF = ("p", "self")
    seen = {}
    for p in paths:
        vs = e6.variant_of(p)
        val = p.val if p.exit is None else p.exit[1]
        if SELF not in vs:
            seen.setdefault("?", []).append(e6.show(val, 2))
            continue
        seen.setdefault(vs[SELF].split("::")[-1], []).append(val)
    payload = {"Dense": "dense::Dense", "Convolution": "convolution::Convolution", "Deconvolution": "deconvolution::Deconvolution", "Feedback": "feedback::Feedback"}
    for v in c.adts["network::Layer"]["variants"]:
        kind = v["name"]
        vals = seen.get(kind, [])
        if kind in payload:
            want = ("call", payload[kind] + "::parameters", (("payload", SELF, "network::Layer::" + kind, 0),))
        else:
            want = ("lit", "0")
        ok = bool(vals) and all(x == want for x in vals)
        ctx.check("R10.4", "network-count-delegates:" + kind, ok, "layer-count:" + short(";".join(e6.show(x, 2) for x in vals), 60) if vals else "variant-not-counted", c.loc(fn),
                  "%s => %s" % (kind, "payload.parameters()" if kind in payload else "0"),
                  "Layer::parameters counts a %s layer as `%s`; a feedback block must be counted by Feedback::parameters (each shared parameter once), "
                  "other layers by their own parameters()" % (kind, short(";".join(e6.show(x, 2) for x in vals), 100)))
    users = [p_ for p_, f_ in c.fns.items() if f_.get("body") is not None and any(cal == "network::Layer::parameters" for _, cal in calls(f_["body"]))]
    ctx.check("R10.4", "network-count-users", len(users) >= 1, "no-user-of-Layer::parameters", c.loc(fn), "Layer::parameters is what the network reports (%s)" % ",".join(sorted(users)))


def run(ctx):
    ctx.guard("R10.4", "network-count", r4b, ctx)
    ctx.guard("R10.1", "create", r1, ctx)
    ctx.guard("R10.2", "update", r2, ctx)
    ctx.guard("R10.4", "parameters", r4, ctx)
    ctx.floor("R10.1", 4, "")
    ctx.floor("R10.2", 18, "")
    ctx.floor("R10.3", 5 + 1 + 4 + 1, "")
    ctx.floor("R10.4", 12, "")
