"""C10 - feedback blocks keep their repeated layers weight-tied."""
from ..core import Unestablished
from ..hir import walk, strip, pretty, short, calls, pat_binds
from .. import e1, e4
from ..e1 import Rat
from .common import top_stmts_of, check_acc_dispatch, acc_matches, mentions_local, INPLACE
from .learn import chain_of

LEVEL = "other"
RULES = {
    "R10.1": "creation: Feedback::create extends `layers` with clones of the ORIGINAL slice exactly loops-1 times, and "
             "coupled[l] = { l + i*length | i < loops } for every l < length (a partition of all unrolled positions)",
    "R10.2": "re-coupling covers everything, uniformly: in Feedback::update, after the per-copy optimizer calls, a full traversal of "
             "self.coupled gathers the parameters of every member of a group (weights/bias for dense, kernels for (de)convolution), "
             "combines them with the configured accumulation, and writes the one combined value back to EVERY member for every "
             "parameter-bearing variant that was gathered; the written value does not depend on the member index",
    "R10.3": "the accumulation arms of the coupling use their own primitives (Add->add_inplace, Subtract->sub_inplace, "
             "Multiply->mul_inplace, Mean->add_inplace then div_scalar_inplace(count)); Overwrite is explicitly unimplemented (panics): "
             "outside the supported set",
    "R10.4": "Feedback::parameters sums parameters() of positions 0..coupled.len() only (each shared parameter once), over all variants",
}
RULES["R10.4"] += " | network-count-delegates: network::Layer::parameters delegates per variant to the payload's own parameters() (a block is counted by Feedback::parameters, Maxpool => 0)"
ASSUMPTIONS = ["that the tied value is a sensible optimisation step is not claimed by the property and not decided"]
TRUSTED = ["rustc nightly front end", "driver/src/main.rs", "sa/e1.py", "sa/e4.py"]

FB = "feedback::Feedback::"
PARAM_FIELDS = {"Dense": ["weights", "bias"], "Convolution": ["kernels"], "Deconvolution": ["kernels"]}


def r1(ctx):
    c = ctx.crate
    fn = ctx.fn(FB + "create")
    P = {pat_binds(p)[0][0]: pat_binds(p)[0][1] for p in fn["params"] if pat_binds(p)}
    st = top_stmts_of(fn["body"])
    lets = {}
    for s in st:
        if s.get("k") == "let":
            for nm, h in pat_binds(s["pat"]):
                lets[nm] = (h, s)
    order = {id(s): i for i, s in enumerate(st)}
    ln = lets.get("length")
    ok = ln is not None and pretty(strip(ln[1]["init"])) == "layers.len()"
    ctx.check("R10.1", "length-is-original-count", ok, "length-definition", c.loc(fn), "length = layers.len() before extension")
    # the extension loop
    ext = [s for s in st if s.get("k") == "for" and any(x.get("k") == "mcall" and x["name"] == "extend" and e4.local_hid(x["recv"]) == P.get("layers") for x in walk(s))]
    ok = False
    detail = ""
    if len(ext) == 1:
        lp = ext[0]
        it = strip(lp["iter"])
        e = [x for x in walk(lp["body"]) if x.get("k") == "mcall" and x["name"] == "extend"][0]
        from ..hir import let_table, resolve
        arg = resolve(e["args"][0], let_table(lp["body"]))
        src = arg["recv"] if arg.get("k") == "mcall" and arg["name"] == "clone" else arg
        srch = e4.local_hid(src)
        copy = [v for nm, v in lets.items() if v[0] == srch]
        copy_ok = bool(copy) and pretty(strip(copy[0][1]["init"])) == "layers.clone()" and order[id(copy[0][1])] < order[id(lp)] and (ln is None or order[id(ln[1])] < order[id(lp)])
        rng_ok = it.get("k") == "struct" and it["path"] == "std::ops::Range" and [pretty(strip(b)) for a, b in it["fs"]] == ["1", "loops"]
        # .. and the saved copy is never modified: every repetition starts as an exact clone of the original layers
        from .. import e6 as _e6
        untouched = srch not in _e6.Exec(c, fn)._mutated_locals(fn["body"])
        ok = copy_ok and rng_ok and untouched
        if not untouched:
            detail_extra = " (the saved copy is modified before it is appended)"
        detail = "for _ in %s { layers.extend(%s) }" % (pretty(it), short(pretty(arg), 40)) + ("" if untouched else " after modifying the saved copy")
    # .. and that is all that happens to the layer list: nothing else reorders, drops or replaces entries before it is stored
    lh_ = P.get("layers")
    other_muts = []
    for x in walk(fn["body"]):
        if x.get("k") == "mcall" and e4.local_hid(x["recv"]) == lh_ and (c.tya(x["recv"]) or "").startswith("&mut") and not (ext and any(y is x for y in walk(ext[0]))):
            other_muts.append(x["name"])
        if x.get("k") in ("assign", "assignop"):
            l_ = strip(x["l"])
            while l_ is not None and l_.get("k") in ("index", "field"):
                l_ = strip(l_["b"])
            if l_ is not None and e4.local_hid(l_) == lh_:
                other_muts.append("assignment")
        if x.get("k") == "ref" and x.get("mut") and e4.local_hid(x["x"]) == lh_:
            other_muts.append("&mut layers")
    ctx.check("R10.1", "layers-only-extended", not other_muts, "layer-list-changed-by:" + ",".join(sorted(set(other_muts))), c.loc(fn),
              "the unrolled layer list is the original followed by loops-1 clones of it, in that order",
              "Feedback::create also changes the layer list by %s: position l + i*length must hold the i-th copy of layer l" % sorted(set(other_muts)))
    ctx.check("R10.1", "extend-with-original-clones", ok, "extension:" + short(detail, 90), c.loc(fn, ext[0]) if ext else c.loc(fn), "for _ in 1..loops { layers.extend(original.clone()) }",
              "the unrolled copies are produced by `%s`; every repetition must be a clone of the original layer list, loops-1 times" % detail)
    # coupled: for l in 0..length: the group {l + i*length | i in 0..loops}, built by an inner loop with push or by map/collect
    cp = lets.get("coupled")
    loops_ = [s for s in st if s.get("k") == "for" and cp and any(x.get("k") == "mcall" and x["name"] == "push" and e4.local_hid(x["recv"]) == cp[0] for x in walk(s))]
    ok = False
    detail = ""
    from .common import range_bounds
    if len(loops_) == 1:
        o = loops_[0]
        ov = pat_binds(o["pat"])[0]
        ro = range_bounds(c, o["iter"], {ln[0]: Rat.atom("length")} if ln else {})
        cand = []
        for x in walk(o["body"]):
            if x.get("k") == "for":
                rb = range_bounds(c, x["iter"])
                pushes = [y for y in walk(x["body"]) if y.get("k") == "mcall" and y["name"] == "push"]
                if rb and len(pushes) == 1:
                    cand.append((pat_binds(x["pat"])[0][1], rb, pushes[0]["args"][0]))
            if x.get("k") == "mcall" and x["name"] == "map" and len(x["args"]) == 1 and strip(x["args"][0]).get("k") == "closure":
                rb = range_bounds(c, x["recv"])
                cl_ = strip(x["args"][0])
                if rb and len(pat_binds(cl_["params"][0])) == 1:
                    cand.append((pat_binds(cl_["params"][0])[0][1], rb, cl_["body"]))
        if len(cand) == 1 and ro is not None:
            ih_, rb, expr = cand[0]
            env_ = {ov[1]: Rat.atom("l"), ih_: Rat.atom("i")}
            if ln:
                env_[ln[0]] = Rat.atom("length")
            v = e1.Norm(c, env_).norm(expr)
            ok = (v == Rat.atom("l") + Rat.atom("i") * Rat.atom("length") and str(ro[0]) == "0" and ro[1] == Rat.atom("length")
                  and str(rb[0]) == "0" and rb[1] == Rat.atom("loops"))
            detail = "for l in %s..%s, i in %s..%s: %s" % (ro[0], ro[1], rb[0], rb[1], v)
    if not ok:
        # same fact on the E6 summary: the `coupled` field of the created block is [[l + i*length for i in 0..loops] for l in 0..length],
        # however the two sequences are built (push loops, map/collect, mixed)
        from .. import e6
        E_ = e6.Exec(c, fn)
        ps_ = [p for p in E_.run_fn() if p.exit is None or p.exit[0] == "return"]
        LEN_ = ("call", "std::vec::Vec::<T, A>::len", (("p", "layers"),))
        ok2 = bool(ps_)
        for p in ps_:
            val = p.val if p.exit is None else p.exit[1]
            cv = dict(val[2]).get("coupled") if isinstance(val, tuple) and val and val[0] == "struct" else None
            o_ = e6.elementwise_sequence(E_, cv) if cv is not None else None
            i_ = e6.elementwise_sequence(E_, o_[1]) if o_ else None
            good = (o_ is not None and i_ is not None and e6.range_of(o_[0]) == (("lit", "0"), LEN_) and e6.range_of(i_[0]) == (("lit", "0"), ("p", "loops"))
                    and i_[1] == e6.mk_bin("Add", e6.mk_bin("Mul", i_[2], LEN_), o_[2]))
            if not good and o_ is not None and e6.range_of(o_[0]) == (("lit", "0"), LEN_):
                # the group of l as the stepped range l, l + length, .. below loops * length: the same `loops` positions in the same order (l < length)
                cm_ = e6.is_call(o_[1], "collect", 1)
                sb_ = e6.is_call(cm_[0], "step_by", 2) if cm_ else None
                rg_ = e6.range_of(sb_[0]) if sb_ else None
                good = (rg_ is not None and rg_[0] == o_[2] and e6.poly(rg_[1]) == e6.poly(e6.mk_bin("Mul", ("p", "loops"), LEN_)) and e6.poly(sb_[1]) == e6.poly(LEN_))
            if not good:
                ok2 = False
                detail = "coupled = %s" % (e6.show(cv, 3)[:80] if cv is not None else "?")
        ok = ok2
    ctx.check("R10.1", "coupled-groups", ok, "coupled:" + short(detail, 90), c.loc(fn), "coupled[l] = {l + i*length | i < loops}, l < length",
              "coupling groups are built as `%s`" % detail)
    lit = [x for x in walk(fn["body"]) if x.get("k") == "struct" and x["path"].endswith("feedback::Feedback")]
    fs = dict((a_, pretty(strip(e_))) for a_, e_ in lit[0]["fs"]) if lit else {}
    ctx.check("R10.1", "fields-stored", fs.get("layers") == "layers" and fs.get("coupled") == "coupled", "feedback-literal", c.loc(fn), "layers: layers, coupled: coupled")


def variant_fields_written(c, arm, lh):
    out = set()
    for x in walk(arm["body"]):
        if x.get("k") == "assign":
            l = strip(x["l"])
            if l.get("k") == "field" and e4.local_hid(l["b"]) == lh:
                out.add(l["f"])
            elif l.get("k") == "local":
                # `*b = ..` where b bound from `if let Some(b) = &mut layer.bias`
                for y in walk(arm["body"]):
                    if y.get("k") == "letx" and any(h == l["hid"] for (_, h) in pat_binds(y["pat"])):
                        src = strip(y["init"])
                        while src is not None and src.get("k") == "mcall" and src["name"] in ("as_mut", "as_deref_mut", "iter_mut") and not src["args"]:
                            src = strip(src["recv"])          # `layer.bias.as_mut()` is `&mut layer.bias` seen through the Option
                        if src is not None and src.get("k") == "field" and e4.local_hid(src["b"]) == lh:
                            out.add(src["f"])
    return out


def variant_fields_read(c, arm, lh):
    out = set()
    for x in walk(arm["body"]):
        if x.get("k") == "field" and e4.local_hid(x["b"]) == lh and x["f"] in ("weights", "bias", "kernels"):
            out.add(x["f"])
    return out


def r2(ctx):
    c = ctx.crate
    fn = ctx.fn(FB + "update")
    st = top_stmts_of(fn["body"])
    cl = [s for s in st if s.get("k") == "for" and "self.coupled" in pretty(s["iter"])]
    if len(cl) != 1:
        raise Unestablished("update: expected one loop over self.coupled", c.loc(fn))
    lp = cl[0]
    names, base = chain_of(lp["iter"])
    ctx.check("R10.2", "every-group", names in (["iter"], []), "group-walk:" + ".".join(names), c.loc(fn, lp), "for couple in self.coupled.iter()")
    # on the E6 summary: every way through update() that returns normally runs the walk over self.coupled (no early return, no condition
    # under which a training step leaves the copies untied)
    from .. import e6
    E = e6.Exec(c, fn)
    live = [p for p in E.run_fn() if p.exit is None or p.exit[0] == "return"]

    def couples(p):
        for e in p.eff:
            if e[0] == "loop":
                it = e6.strip_upd(e[2])
                if isinstance(it, tuple) and it and it[0] == "field" and it[2] == "coupled" and (it[1] == ("p", "self") or e6.root_name(it[1]) == "self"):
                    return True
        return False
    skipping = [p for p in live if not couples(p)]
    ctx.check("R10.2", "recoupled-on-every-step", bool(live) and not skipping, "update-path-without-recoupling:" + short("; ".join(("" if b_ else "!") + e6.show(t_, 2) for t_, b_ in (skipping[0].pc if skipping else ())), 80),
              c.loc(fn, lp), "every returning path of update() re-couples the groups",
              "Feedback::update can return without walking self.coupled (when %s): after such a step the unrolled copies of a layer hold different parameters"
              % "; ".join(("" if b_ else "not ") + e6.show(t_, 2) for t_, b_ in (skipping[0].pc if skipping else ()))[:200])
    coupling_e6(ctx, fn, E, live, c.loc(fn, lp))


def coupling_e6(ctx, fn, E, live, where):
    """R10.2 / R10.3 on the E6 summary of Feedback::update.  After the per-copy optimizer steps, for every group of self.coupled:
    gather - every member (indexing self.layers by the group's entries) contributes its weights (dense: and its bias if it has one,
    (de)convolution: its kernels, nested) and is counted once; the combined value starts from the first gathered entry and folds the remaining
    ones with the primitive of self.accumulation (Mean: add, then divide by the count), for the weights and - when there are any - the
    biases; write back - every member receives that same combined value in the fields that were gathered."""
    from .. import e6
    c = ctx.crate
    P = live[0]

    def selfish(t):
        return e6.unself(t)
    SELF = ("p", "self")
    LAYERS = ("field", SELF, "layers")
    ACCF = ("field", SELF, "accumulation")

    def paths_of(e):
        return [e6.Path({}, pc=x[0], eff=x[1], exit=x[2], val=x[3]) for x in e[3]]

    def has_opt(e):
        return bool(e6.find_terms(e[3], lambda t: t[0] == "mut" and len(t) > 1 and t[1] == "optimizer::Optimizer::update")) or "optimizer::Optimizer::update" in repr(e[3])
    top_loops = [(k, e) for k, e in enumerate(P.eff) if e[0] == "loop"]
    cpl = [(k, e) for (k, e) in top_loops if selfish(e[2]) == ("field", SELF, "coupled")]
    opt = [k for (k, e) in top_loops if has_opt(e)]
    ctx.check("R10.2", "after-optimizer-steps", len(cpl) == 1 and bool(opt) and max(opt) < cpl[0][0], "coupling-before-optimizer", where, "re-coupling follows the per-copy optimizer calls")
    if len(cpl) != 1:
        raise Unestablished("update: expected one loop over self.coupled", where)
    CL = cpl[0][1]
    COUPLE = ("elem", CL[2], CL[1])
    ys = paths_of(CL)
    exits = sorted({str(y.exit[0]) for y in ys if y.exit is not None and y.exit[0] != "panic"})
    ctx.check("R10.2", "no-early-exit-from-groups", not exits, "group-loop-exit:" + ",".join(exits), where, "every group is processed")
    PRIM = {"Add": "add_inplace", "Subtract": "sub_inplace", "Multiply": "mul_inplace", "Mean": "add_inplace"}
    res = {}

    def note(key, ok, detail=""):
        res.setdefault(key, []).append((bool(ok), detail))
    seen_v = {}
    for y in ys:
        if y.exit is not None:
            continue
        V = None
        for (t, pol) in y.pc:
            if pol and isinstance(t, tuple) and t[0] == "is" and selfish(t[1]) == ACCF:
                V = t[2].split("::")[-1]
        if V is None:
            note("dispatch", False, "a group is combined without consulting self.accumulation")
            continue
        note("dispatch", True)
        effs = list(y.eff)
        member_loops = [(k, e) for k, e in enumerate(effs) if e[0] == "loop" and selfish(e[2]) == selfish(COUPLE)]
        partial = [(k, e) for k, e in enumerate(effs) if e[0] == "loop" and e6.contains(selfish(e[2]), selfish(COUPLE)) and selfish(e[2]) != selfish(COUPLE)]
        if len(member_loops) != 2:
            note("gather-walk", False, "%d loops over the whole group (%d over a part of it)" % (len(member_loops), len(partial)))
            note("write-walk", False, "%d loops over the whole group (%d over a part of it)" % (len(member_loops), len(partial)))
            continue
        (kg, G), (kw, W) = member_loops
        note("gather-walk", True)
        note("write-walk", True)
        # ---- gather
        gel = ("elem", G[2], G[1])
        WL = BL = CNT = None
        gathered = {}
        cnt_ok = True
        idx_ok = True
        for z in paths_of(G):
            if z.exit is not None and z.exit[0] == "panic":
                continue
            vs = {selfish(k_): v_ for k_, v_ in e6.variant_of(z).items()}
            member = ("idx", LAYERS, selfish(gel))
            member_d = ("idx", LAYERS, ("un", "Deref", selfish(gel)))
            kind = (vs.get(member) or vs.get(member_d) or "").split("::")[-1]
            mterm = member if member in vs else member_d
            pushes = [e for e in z.eff if e[0] == "push"]
            sets = [e for e in z.eff if e[0] == "set"]
            if kind in PARAM_FIELDS:
                pay = ("payload", mterm, "network::Layer::" + kind, 0)
                got = set()
                for e in pushes:
                    v_ = selfish(e[2])
                    if v_ == ("field", pay, "weights"):
                        got.add("weights")
                        WL = e[1][1]
                    elif v_ == ("payload", ("field", pay, "bias"), "Option::Some", 0):
                        got.add("bias")
                        BL = e[1][1]
                    elif v_ == ("call", "tensor::Tensor::nested", (("field", pay, "kernels"),)):
                        got.add("kernels")
                        WL = e[1][1]
                    else:
                        got.add("?" + e6.show(v_, 2)[:30])
                hasb = vs.get(("field", pay, "bias"))
                key = kind if not (kind == "Dense" and hasb != "Option::Some") else "Dense-nobias"
                gathered.setdefault(key, set()).update(got)
                incs = [e for e in sets if isinstance(e[2], tuple) and e[2][0] == "bin" and e[2][1] == "Add" and ("lit", "1.0") in (e[2][2], e[2][3])
                        and any(isinstance(o_, tuple) and o_[0] == "loopin" and o_[1] == e[1][1] for o_ in (e[2][2], e[2][3]))]
                cnt_ok = cnt_ok and len(incs) == 1 and len(sets) == 1
                if incs:
                    CNT = incs[0][1][1]
            else:
                tested = any(isinstance(t, tuple) and t[0] == "is" and selfish(t[1]) in (member, member_d) for (t, pol) in z.pc)
                if not tested:
                    idx_ok = False
                cnt_ok = cnt_ok and not sets and not pushes
        note("gather-index", idx_ok and bool(gathered), "the gather loop does not dispatch on self.layers[<group entry>]")
        for kind, fields in PARAM_FIELDS.items():
            g = set(gathered.get(kind, set()))
            if kind == "Dense":
                ok = g == {"weights", "bias"} and gathered.get("Dense-nobias", set()) == {"weights"}
            else:
                ok = g == set(fields)
            note("gathered:" + kind, ok, "%s: gathered %s" % (kind, sorted(g)))
        note("count", cnt_ok and CNT is not None, "the member count is not raised by exactly 1.0 per gathered member")
        # ---- start from the first member, fold the rest
        mid = effs[kg + 1:kw]
        rms = [e for e in mid if e[0] == "mut" and e[1].endswith("::remove") and e[3] == (("lit", "0"),)]
        rm_names = sorted(e[2][1] for e in rms if e[2][0] == "local")
        empty_b = None
        for (t, pol) in y.pc:
            ie = e6.is_call(t, "is_empty", 1)
            if ie and e6.root_name(ie[0]) == BL:
                empty_b = pol
        want_rm = sorted([WL] + ([BL] if (empty_b is False and BL) else []))
        note("first", rm_names == want_rm, "combined value starts from %s (expected the first entry of %s)" % (rm_names, want_rm))
        folds = [e for e in mid if e[0] == "loop"]
        muts = [e for e in mid if e[0] == "mut" and e not in rms]
        okv = True
        objs = set()
        accs = {}
        for e in folds:
            src = e6.root_name(e[2])
            fp = paths_of(e)
            el = ("elem", e[2], e[1])
            if len(fp) != 1 or fp[0].pc or fp[0].exit is not None or len(fp[0].eff) != 1:
                okv = False
                continue
            f0 = fp[0].eff[0]
            if not (f0[0] == "mut" and f0[1] == "tensor::Tensor::" + PRIM.get(V, "?") and f0[3] == (el,) and src in (WL, BL)
                    and e6.find_terms(e[2], lambda u_: u_[0] == "upd" and "::remove@" in u_[2])):
                okv = False
                continue
            objs.add("weights" if src == WL else "biases")
            if f0[2][0] == "local":
                accs["weights" if src == WL else "biases"] = f0[2][1]
        divs = [e for e in muts if e[1] == "tensor::Tensor::div_scalar_inplace"]
        other = [e for e in muts if e not in divs]
        if V == "Mean":
            okd = len(divs) == len(folds) and all(len(e[3]) == 1 and isinstance(e[3][0], tuple) and e[3][0][0] == "loopout" and e[3][0][1] == CNT and e[3][0][3] in (("lit", "0.0"), ("lit", "0."))
                                                 for e in divs)
            okv = okv and okd
        else:
            okv = okv and not divs
        okv = okv and not other
        want_objs = {"weights"} | ({"biases"} if empty_b is False else set())
        seen_v.setdefault(V, []).append((okv and objs == want_objs, "%s: folds over %s with %s%s" % (V, sorted(objs), PRIM.get(V), " then /count" if V == "Mean" else "")))
        note("both:" + V, objs == want_objs, "%s combines %s (gathered: %s)" % (V, sorted(objs), sorted(want_objs)))
        # ---- write back
        wel = ("elem", W[2], W[1])
        written = {}
        uniform = {}
        widx_ok = True
        for z in paths_of(W):
            if z.exit is not None and z.exit[0] == "panic":
                continue
            vs = {e6.strip_upd(selfish(k_)): v_ for k_, v_ in e6.variant_of(z).items()}
            member = ("idx", LAYERS, selfish(wel))
            member_d = ("idx", LAYERS, ("un", "Deref", selfish(wel)))
            kind = (vs.get(member) or vs.get(member_d) or "").split("::")[-1]
            sets = [e for e in z.eff if e[0] == "set"]
            if kind not in PARAM_FIELDS:
                tested = any(isinstance(t, tuple) and t[0] == "is" and e6.strip_upd(selfish(t[1])) in (member, member_d) for (t, pol) in z.pc)
                if not tested:
                    widx_ok = False
                if sets:
                    written.setdefault(kind or "?", set()).add("?")
                continue
            hasb = None
            for k_, v_ in vs.items():
                if isinstance(k_, tuple) and k_[0] == "field" and k_[2] == "bias":
                    hasb = v_
            got = set()
            same = True
            for e in sets:
                pl, v_ = e[1], e[2]
                if e6.contains(v_, wel):
                    same = False
                if isinstance(pl, tuple) and pl[0] == "field" and pl[2] in ("weights", "kernels"):
                    inner = e6.is_call(v_, "unnested", 1)
                    src_v = inner[0] if (inner and pl[2] == "kernels") else v_
                    if e6.root_name(src_v) is not None and e6.root_name(src_v) == accs.get("weights") and (pl[2] == "weights" or inner):
                        got.add(pl[2])
                    else:
                        got.add("?" + pl[2])
                elif hasb == "Option::Some" and empty_b is not False:
                    got.add("bias")       # (a member with a bias while no bias was gathered: not a reachable combination; judged on the other paths)
                elif hasb == "Option::Some" and e6.root_name(v_) is not None and e6.root_name(v_) == accs.get("biases"):
                    got.add("bias")       # the combined bias (the accumulator the bias folds ran on), not a gathered original
                else:
                    got.add("?" + e6.show(pl, 2)[:20])
            key = kind if not (kind == "Dense" and hasb != "Option::Some") else "Dense-nobias"
            written.setdefault(key, set()).update(got)
            uniform[kind] = uniform.get(kind, True) and same
        note("write-index", widx_ok and bool(written), "the write-back loop does not dispatch on self.layers[<group entry>]")
        for kind, fields in PARAM_FIELDS.items():
            w_ = set(written.get(kind, set()))
            if kind == "Dense":
                ok = w_ == {"weights", "bias"} and written.get("Dense-nobias", set()) == {"weights"}
            else:
                ok = w_ == set(fields)
            note("written:" + kind, ok, "%s: written back %s" % (kind, sorted(w_)))
            note("uniform:" + kind, uniform.get(kind, False), "%s: the written value depends on the member" % kind)
        note("order", kg < min([k for k, e in enumerate(effs) if e in rms] or [10 ** 6]) and all(kg < k < kw for k, e in enumerate(effs) if e in folds or e in muts), "gather, combine, write back")

    def verdict(key):
        r_ = res.get(key, [])
        return bool(r_) and all(x[0] for x in r_), next((x[1] for x in r_ if not x[0]), "")
    for rule, key, inst, tag, what in (
            ("R10.2", "gather-walk", "gather:every-member", "gather-walk", "for idx in couple.iter()"),
            ("R10.2", "write-walk", "write-back:every-member", "write-back-walk", "for idx in couple.iter()"),
            ("R10.2", "gather-index", "gather:indexes-member", "gather-scrutinee", "match &self.layers[*idx]"),
            ("R10.2", "write-index", "write-back:indexes-member", "write-back-scrutinee", "match &mut self.layers[*i]"),
            ("R10.2", "order", "order", "coupling-order", "gather, combine, write back"),
            ("R10.2", "first", "starts-from-first-member", "accumulator-start", "weight = weights.remove(0)"),
            ("R10.3", "dispatch", "dispatch-on-accumulation", "dispatch-field", "match self.accumulation"),
            ("R10.3", "count", "count-per-member", "count-update", "count += 1.0 per gathered member")):
        ok, why = verdict(key)
        ctx.check(rule, inst, ok, tag + ":" + short(why, 70), where, what, "Feedback::update: %s" % why)
    for kind in PARAM_FIELDS:
        for key, inst, tag in (("gathered:" + kind, "gathered:" + kind, "gathered-fields:" + kind), ("written:" + kind, "written-back:" + kind, "written-fields:" + kind),
                               ("uniform:" + kind, "uniform-value:" + kind, "written-value:" + kind)):
            ok, why = verdict(key)
            ctx.check("R10.2", inst, ok, tag + ":" + short(why, 60), where, "%s: its parameter fields are gathered, combined and written back to every member" % kind,
                      "after the update %s: the unrolled copies drift apart" % why)
    acc = c.adts.get("feedback::Accumulation")
    for v_ in [x_["name"] for x_ in acc["variants"]]:
        r_ = seen_v.get(v_)
        if v_ == "Overwrite":
            pan = any(y.exit is not None and y.exit[0] == "panic" and any(pol and isinstance(t, tuple) and t[0] == "is" and t[2].endswith("::Overwrite") for (t, pol) in y.pc) for y in ys)
            ctx.check("R10.3", "coupling:Overwrite", pan and not r_, "accumulation-variant-panics" if not pan else "overwrite", where, "Overwrite is explicitly unimplemented (panics): outside the supported set")
            continue
        if not r_:
            ctx.bad("R10.3", "coupling:" + v_, "accumulation-variant-not-handled", where, "no way through the coupling step handles %s" % v_)
            continue
        bad = [d for (ok, d) in r_ if not ok]
        ctx.check("R10.3", "coupling:" + v_, not bad, "wrong-primitive:" + short("; ".join(bad), 70), where, "%s folds the gathered values with its own primitive" % v_, "; ".join(bad))
        ok, why = verdict("both:" + v_)
        ctx.check("R10.3", "weights-and-biases:" + v_, ok, "combined-objects:%s:%s" % (v_, short(why, 50)), where, "weights and biases both combined")


def r4(ctx):
    """parameter counts, decided on E6 summaries.
    Feedback::parameters: the sum, over positions 0..coupled.len() (one per distinct layer), of the payload's own parameters() (0 for a
    pooling layer).  network::Layer::parameters: per variant the payload's own parameters() (a block is counted by Feedback::parameters)."""
    from .. import e6
    c = ctx.crate
    payload_ty = {v["name"]: v["fields"][0]["ty"] for v in c.adts["network::Layer"]["variants"]}
    # ---- Feedback::parameters
    fn = ctx.fn(FB + "parameters")
    E = e6.Exec(c, fn)
    paths = [p for p in E.run_fn() if p.exit is None or p.exit[0] == "return"]
    ok_rng = ok_idx = ok_sum = len(paths) == 1
    got = "?"
    counts = {}
    if len(paths) == 1:
        val = paths[0].val if paths[0].exit is None else paths[0].exit[1]
        ok_sum = isinstance(val, tuple) and len(val) == 4 and val[0] == "loopout" and val[3] == ("lit", "0")
        if ok_sum:
            name, lid = val[1], val[2]
            S = E.loop_summaries[lid]
            rng = e6.range_of(S["iter"])
            want_end = ("call", "std::vec::Vec::<T, A>::len", (("field", ("p", "self"), "coupled"),))
            ok_rng = rng == (("lit", "0"), want_end)
            got = e6.show(S["iter"], 2)
            el = ("elem", S["iter"], lid)
            scrut = ("idx", ("field", ("p", "self"), "layers"), el)
            for bp in S["paths"]:
                if bp.exit is not None:
                    continue
                vs = e6.variant_of(bp)
                if scrut not in vs:
                    ok_idx = False
                    continue
                kind = vs[scrut].split("::")[-1]
                sets = [f for f in bp.eff if f[0] == "set" and f[1] == ("local", name)]
                if len(sets) != 1 or len([f for f in bp.eff if f[0] != "set"]) > 0:
                    counts[kind] = False
                    continue
                new = sets[0][2]
                pay = ("payload", scrut, vs[scrut], 0)
                want_x = ("lit", "0") if kind == "Maxpool" else ("call", payload_ty[kind] + "::parameters", (pay,))
                good = new == e6.mk_bin("Add", ("loopin", name, lid), want_x)
                counts[kind] = good if kind not in counts else (counts[kind] and good)
    ctx.check("R10.4", "first-repetition-only", ok_rng, "parameter-range:" + short(got, 60), c.loc(fn), "for idx in 0..self.coupled.len()",
              "parameters are summed over positions %s; the first repetition is positions 0..coupled.len() (one per distinct layer)" % got)
    ctx.check("R10.4", "indexes-layers", ok_idx and bool(counts), "parameter-index", c.loc(fn), "self.layers[idx]")
    for kind in PARAM_FIELDS:
        ctx.check("R10.4", "counts:" + kind, counts.get(kind) is True, "parameter-count:" + kind, c.loc(fn), "%s.parameters()" % kind)
    ctx.check("R10.4", "summed", ok_sum and counts.get("Maxpool", True) is not False, "parameter-sum", c.loc(fn), "parameters += .. starting from 0")


def r4b(ctx):
    """the network-level count delegates to each payload's own parameters(): a block is counted by Feedback::parameters (once per shared layer)"""
    from .. import e6
    c = ctx.crate
    fn = ctx.fn("network::Layer::parameters")
    E = e6.Exec(c, fn)
    paths = [p for p in E.run_fn() if p.exit is None or p.exit[0] == "return"]
    SELF = ("p", "self")
    seen = {}
    for p in paths:
        vs = e6.variant_of(p)
        val = p.val if p.exit is None else p.exit[1]
        if SELF not in vs:
            seen.setdefault("?", []).append(e6.show(val, 2))
            continue
        seen.setdefault(vs[SELF].split("::")[-1], []).append(val)
    payload = {"Dense": "dense::Dense", "Convolution": "convolution::Convolution", "Deconvolution": "deconvolution::Deconvolution", "Feedback": "feedback::Feedback"}
    for v in c.adts["network::Layer"]["variants"]:
        kind = v["name"]
        vals = seen.get(kind, [])
        if kind in payload:
            want = ("call", payload[kind] + "::parameters", (("payload", SELF, "network::Layer::" + kind, 0),))
        else:
            want = ("lit", "0")
        ok = bool(vals) and all(x == want for x in vals)
        ctx.check("R10.4", "network-count-delegates:" + kind, ok, "layer-count:" + short(";".join(e6.show(x, 2) for x in vals), 60) if vals else "variant-not-counted", c.loc(fn),
                  "%s => %s" % (kind, "payload.parameters()" if kind in payload else "0"),
                  "Layer::parameters counts a %s layer as `%s`; a feedback block must be counted by Feedback::parameters (each shared parameter once), "
                  "other layers by their own parameters()" % (kind, short(";".join(e6.show(x, 2) for x in vals), 100)))
    users = [p_ for p_, f_ in c.fns.items() if f_.get("body") is not None and any(cal == "network::Layer::parameters" for _, cal in calls(f_["body"]))]
    ctx.check("R10.4", "network-count-users", len(users) >= 1, "no-user-of-Layer::parameters", c.loc(fn), "Layer::parameters is what the network reports (%s)" % ",".join(sorted(users)))


def _poly(t):
    from .. import e6
    return e6.poly(t)


def r4c(ctx):
    """every layer kind reports exactly the number of parameter elements it holds: dense = inputs*outputs (+ outputs iff it has a bias),
    (de)convolution = number of kernels x elements of one kernel (channels x height x width of the stored tensor)"""
    from .. import e6
    c = ctx.crate
    SELF = ("p", "self")
    fn = ctx.fn("dense::Dense::parameters")
    E = e6.Exec(c, fn)
    live = [p for p in E.run_fn() if p.exit is None or p.exit[0] == "return"]
    I = repr(("payload", ("field", SELF, "inputs"), "tensor::Shape::Single", 0))
    O = repr(("payload", ("field", SELF, "outputs"), "tensor::Shape::Single", 0))
    seen = set()
    ok = bool(live)
    why = ""
    for p in live:
        val = p.val if p.exit is None else p.exit[1]
        hasb = None
        for (t, pol) in p.pc:
            if e6.is_call(t, "is_some", 1) and e6.is_call(t, "is_some", 1)[0] == ("field", SELF, "bias"):
                hasb = pol
            if e6.is_call(t, "is_none", 1) and e6.is_call(t, "is_none", 1)[0] == ("field", SELF, "bias"):
                hasb = not pol
            if isinstance(t, tuple) and t[0] == "is" and t[1] == ("field", SELF, "bias"):
                hasb = pol if t[2] == "Option::Some" else (not pol)
        want = {tuple(sorted((I, O))): 1}
        if hasb:
            want[(O,)] = 1
        if hasb is None:
            ok, why = False, "a result does not depend on whether the layer has a bias"
            continue
        seen.add(hasb)
        if _poly(val) != want:
            ok, why = False, "with%s bias the count is %s" % ("" if hasb else "out", e6.show(val, 3)[:100])
    ctx.check("R10.4", "layer-count:Dense", ok and seen == {True, False}, "dense-parameter-count:" + short(why, 70), c.loc(fn), "inputs * outputs + (outputs if bias)",
              "Dense::parameters: %s; a dense layer holds inputs*outputs weights and one bias per output" % why)
    for adt in ("convolution::Convolution", "deconvolution::Deconvolution"):
        fn = ctx.fn(adt + "::parameters")
        E = e6.Exec(c, fn)
        live = [p for p in E.run_fn() if p.exit is None or p.exit[0] == "return"]
        K = ("field", SELF, "kernels")
        D0 = ("field", ("idx", K, ("lit", "0")), "data")
        P = ("payload", D0, "tensor::Data::Triple", 0)
        want = {tuple(sorted([repr(("len", K)), repr(("len", P)), repr(("len", ("idx", P, ("lit", "0")))), repr(("len", ("idx", ("idx", P, ("lit", "0")), ("lit", "0"))))])): 1}
        ok, why, n = bool(live), "", 0
        for p in live:
            val = p.val if p.exit is None else p.exit[1]
            tri = [pol for (t, pol) in p.pc if isinstance(t, tuple) and t[0] == "is" and t[1] == D0 and t[2] == "tensor::Data::Triple"]
            if tri and tri[0]:
                n += 1
                if _poly(val) != want:
                    ok, why = False, "the count is %s" % e6.show(val, 3)[:120]
        ctx.check("R10.4", "layer-count:" + adt.split("::")[-1], ok and n >= 1, "kernel-parameter-count:" + short(why, 70), c.loc(fn),
                  "kernels.len() * channels * height * width of a kernel", "%s::parameters: %s" % (adt, why))


RULES["R10.4"] += " | layer-count: Dense::parameters = inputs*outputs (+ outputs iff bias), (De)Convolution::parameters = kernels.len() * channels * height * width of a kernel (polynomial identity on the E6 summary)"

# `&mut self` methods of Vec / slices that hand out the entries (to be updated in place) without changing which entry sits where
_ENTRY_ACCESS = ("iter_mut", "par_iter_mut", "get_mut", "last_mut", "first_mut", "index_mut", "as_mut_slice", "as_mut", "chunks_mut", "deref_mut")


RULES["R10.1"] += " | layer-positions-fixed: over every function of the crate, Feedback.layers is never reordered, dropped from, replaced or handed out as a whole by &mut after construction (entries are updated in place only), so position i keeps holding the i-th layer of the unrolled block"


def layer_list_stable(ctx, rule, owner):
    """Who-may-restructure rule for the `layers` field of `owner` (network::Network / feedback::Feedback): once a layer has been appended its
    position is fixed.  Over every function of the crate: a `&mut self` Vec/slice method on a place `<x>.layers` (x of type owner) is either an
    entry accessor (iter_mut, get_mut ..) or `push`; the field (or one of its entries) is never assigned to, and never handed out as `&mut` to a call."""
    c = ctx.crate
    short_owner = owner.rsplit("::", 1)[-1]

    def is_layers(n):
        n = strip(n)
        if n is None or n.get("k") != "field" or n.get("f") != "layers":
            return False
        t = (c.ty(strip(n["b"])) or "").replace("&mut ", "").replace("&", "").strip()
        return t == owner
    sites, bad = 0, []
    for path, fn in sorted(c.fns.items()):
        for x in walk(fn["body"]):
            k = x.get("k")
            if k == "mcall" and is_layers(x["recv"]):
                sites += 1
                if (c.tya(x["recv"]) or "").startswith("&mut") and x["name"] not in _ENTRY_ACCESS and x["name"] != "push" and x["name"] not in ("is_empty", "len", "iter", "first", "last", "get", "clone"):
                    bad.append((path, x["name"], c.loc(fn, x)))
            elif k in ("assign", "assignop"):
                l_ = strip(x["l"])
                whole = is_layers(l_)
                entry = l_ is not None and l_.get("k") == "index" and is_layers(l_["b"])
                if whole or entry:
                    sites += 1
                    bad.append((path, "assignment", c.loc(fn, x)))
            elif k in ("call", "mcall"):
                pass
            if k in ("call", "mcall"):
                for a in x.get("args") or []:
                    a0 = a
                    while a0 is not None and a0.get("k") == "blk" and not a0["b"]["stmts"] and a0["b"]["tail"] is not None:
                        a0 = a0["b"]["tail"]
                    if a0 is not None and a0.get("k") == "ref" and a0.get("mut") and is_layers(a0["x"]):
                        sites += 1
                        bad.append((path, "&mut-argument-of-" + str(x.get("callee", "?")).rsplit("::", 1)[-1], c.loc(fn, x)))
    ctx.check(rule, short_owner + ":layer-positions-fixed", not bad and sites > 0,
              "layer-list-restructured:" + ",".join(sorted({"%s:%s" % (b[0].rsplit("::", 1)[-1], b[1]) for b in bad})) if bad else "layer-list-sites:%d" % sites,
              bad[0][2] if bad else "src", "%d uses of %s.layers: entries are appended (push) and updated in place, never reordered, dropped or replaced" % (sites, short_owner),
              "%s.layers is restructured by %s: the layer at a position is no longer the one the shapes, connections and optimizer slots were set up for"
              % (short_owner, ["%s in %s" % (b[1], b[0]) for b in bad][:3]))


def run(ctx):
    ctx.guard("R10.1", "layer-positions", layer_list_stable, ctx, "R10.1", "feedback::Feedback")
    ctx.guard("R10.4", "layer-counts", r4c, ctx)
    ctx.guard("R10.4", "network-count", r4b, ctx)
    ctx.guard("R10.1", "create", r1, ctx)
    ctx.guard("R10.2", "update", r2, ctx)
    ctx.guard("R10.4", "parameters", r4, ctx)
    ctx.floor("R10.1", 5, "")
    ctx.floor("R10.2", 18, "")
    ctx.floor("R10.3", 5 + 1 + 4 + 1, "")
    ctx.floor("R10.4", 12, "")
