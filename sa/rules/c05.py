"""C05 - results are independent of thread count and scheduling."""
from ..core import Unestablished
from ..hir import walk, strip, pretty, short, calls, pat_binds, children
from .. import e4
from .common import mentions_local

LEVEL = "other"
RULES = {
    "R05.1": "rayon use whitelist: every resolved callee in `rayon::` across the crate is an order-preserving indexed combinator "
             "(par_chunks, into_par_iter, zip, map, flat_map, collect); no reduce/sum/fold/for_each/find_any/par_bridge - a float "
             "reduction in completion order is exactly the failure the property names; parallel results are collected into Vec",
    "R05.2": "no shared mutable state: no ADT field with interior mutability (Cell, RefCell, Mutex, RwLock, Atomic*, UnsafeCell, "
             "Once*), no static item, no unsafe block/fn/impl in the crate; forward/backward/predict take &self",
    "R05.3": "no nondeterminism source (clock, environment, OS randomness) is reachable in the resolved call graph from "
             "learn/validate/predict/predict_batch/forward/backward/update; Tensor::dropout seeds its generator with a literal",
    "R05.4": "hash-order independence: every iteration over a std HashMap outside Display impls is order-insensitive: the body "
             "only inserts into another map / touches the iterated element, or is an order-insensitive query (any/all/count), or "
             "whatever it appends to is sorted before use (float accumulation order must not depend on RandomState)",
    "R05.5": "every sum/fold over per-sample results is a sequential std iterator or a plain `for` over the ordered Vec",
}
ASSUMPTIONS = ["rayon's documented ordering contract: indexed parallel iterators (par_chunks, zip, map, flat_map over slices) collected "
               "into a Vec preserve input order regardless of scheduling",
               "std::collections::HashMap iteration order depends on a per-map RandomState"]
TRUSTED = ["rustc nightly front end (resolved callees)", "driver/src/main.rs", "sa/e4.py"]

RAYON_OK = {"par_chunks", "into_par_iter", "zip", "map", "flat_map", "collect", "par_iter"}
ENTRY = ["network::Network::learn", "network::Network::validate", "network::Network::predict", "network::Network::predict_batch",
         "network::Network::forward", "network::Network::_forward", "network::Network::backward", "network::Network::update"]
NONDET = ("std::time::", "std::env::", "std::thread::current", "std::process::id", "getrandom", "rand::", "std::fs::", "std::net::")
INTERIOR = ("Cell<", "RefCell<", "Mutex<", "RwLock<", "Atomic", "UnsafeCell<", "OnceCell<", "OnceLock<", "LazyLock<", "LazyCell<")


def r1(ctx):
    c = ctx.crate
    sites = {}
    for mk, mv in c.mir.items():
        for cl in mv["facts"]["calls"]:
            if cl["callee"].startswith("rayon::") or "rayon::" in cl["callee"]:
                name = cl["callee"].rsplit("::", 1)[-1]
                sites.setdefault((mv["parent"], name), []).append(cl)
    for (parent, name), cls in sorted(sites.items()):
        fn = c.fn(parent)
        where = "%s:%s" % (fn["file"], cls[0]["line"]) if fn else parent
        ctx.analysed_fns.add(parent)
        ctx.check("R05.1", "%s:%s" % (parent, name), name in RAYON_OK, "rayon-combinator-not-order-preserving", where,
                  "%d call(s) of %s" % (len(cls), cls[0]["callee"]),
                  "%s uses %s: its result (or effect order) depends on how work is split among threads" % (parent, cls[0]["callee"]))
    # parallel collect targets must be Vec
    for p, fn in c.fns.items():
        for x in walk(fn["body"]):
            if x.get("k") == "mcall" and x["callee"].startswith("rayon::") and x["name"] == "collect":
                ty = c.ty(x) or ""
                ctx.check("R05.1", "%s:collect-type" % p, ty.startswith("std::vec::Vec<"), "parallel-collect-into:" + short(ty, 50), c.loc(fn, x),
                          "parallel collect into %s" % short(ty, 60))
    ctx.floor("R05.1", 12 + 3, "12 (function, combinator) pairs + 3 collect targets")


def r2(ctx):
    c = ctx.crate
    n = 0
    for path, a in sorted(c.adts.items()):
        for v in a["variants"]:
            for f in v["fields"]:
                n += 1
                if any(t in f["ty"] for t in INTERIOR):
                    ctx.bad("R05.2", "field:%s.%s" % (path, f["name"]), "interior-mutability", path, "%s: %s" % (f["name"], f["ty"]))
    ctx.ok("R05.2", "adt-fields", "%d fields of %d ADTs scanned, none interior-mutable" % (n, len(c.adts)), "crate")
    ctx.check("R05.2", "statics", not c.f["statics"], "static-item", "crate", "no static items", str(c.f["statics"]))
    ub = [(p, l) for p, fn in c.fns.items() for l in fn.get("unsafe_blocks", [])]
    uf = [p for p, fn in c.fns.items() if fn.get("unsafe_fn")]
    ui = [i for i in c.f["impls"] if "Unsafe" in i["trait_safety"] and not i["expn"]]
    ctx.check("R05.2", "unsafe", not ub and not uf and not ui, "unsafe-code", "crate", "no unsafe blocks, fns or impls", "%s %s %s" % (ub, uf, ui))
    for p in ENTRY[2:7]:
        fn = ctx.fn(p)
        ctx.check("R05.2", "self-kind:" + p, fn["inputs"][0] == "&network::Network", "takes-mutable-self", c.loc(fn), "&self")
    for p in ("dense::Dense::forward", "dense::Dense::backward", "convolution::Convolution::forward", "convolution::Convolution::backward",
              "deconvolution::Deconvolution::forward", "deconvolution::Deconvolution::backward", "maxpool::Maxpool::forward",
              "maxpool::Maxpool::backward", "feedback::Feedback::forward", "feedback::Feedback::backward"):
        fn = ctx.fn(p)
        ctx.check("R05.2", "self-kind:" + p, fn["inputs"][0].startswith("&") and not fn["inputs"][0].startswith("&mut"), "takes-mutable-self", c.loc(fn), "&self")


def reachable(c, roots):
    graph = {}
    for mk, mv in c.mir.items():
        graph.setdefault(mv["parent"], set()).update(cl["callee"] for cl in mv["facts"]["calls"])
    seen, stack = set(), list(roots)
    while stack:
        f = stack.pop()
        if f in seen:
            continue
        seen.add(f)
        for g in graph.get(f, ()):
            if g not in seen:
                stack.append(g)
    return seen, graph


def r3(ctx):
    c = ctx.crate
    for p in ENTRY:
        ctx.fn(p)
    seen, graph = reachable(c, ENTRY)
    local = sorted(f for f in seen if f in c.fns)
    bad = sorted(f for f in seen if f.startswith(NONDET))
    ctx.check("R05.3", "reachable-nondeterminism", not bad, "nondeterminism-source-reachable:" + ",".join(bad), "call graph",
              "%d functions reachable from the training/evaluation entry points (%d in the crate); none is a clock/environment/OS-random source"
              % (len(seen), len(local)), "reachable from learn/validate/predict: %s" % bad)
    # the clock is only used for weight initialisation
    clock_users = sorted(f for f, gs in graph.items() if any(g.startswith("std::time::") for g in gs))
    ctx.check("R05.3", "clock-users", all(u == "tensor::Tensor::random" for u in clock_users), "clock-used-by:" + ",".join(clock_users), "call graph",
              "clock read only in %s" % clock_users)
    fn = ctx.fn("tensor::Tensor::dropout")
    seeds = [x for x in walk(fn["body"]) if x.get("k") == "call" and x["callee"] == "random::Generator::create"]
    ok = len(seeds) == 1 and e4.lit_value(seeds[0]["args"][0]) is not None
    ctx.check("R05.3", "dropout-seed-literal", ok, "dropout-seed-not-literal", c.loc(fn), "dropout mask generator seeded with a literal",
              "Tensor::dropout seeds its generator with %s" % [short(pretty(s), 60) for s in seeds])
    ctx.check("R05.3", "random-not-reachable", "tensor::Tensor::random" not in seen, "random-init-reachable-from-training", "call graph",
              "clock-seeded Tensor::random is not reachable from training/evaluation")


HM_ITER = ("iter", "iter_mut", "keys", "values", "values_mut", "into_iter", "drain", "into_keys", "into_values")
ORDER_FREE_CONSUMERS = {"any", "all", "count", "len", "is_empty", "contains"}


def hm_iterations(c, fn):
    """-> list of (node, kind, elem_pat, body, consumer_chain) for iterations over a HashMap in fn"""
    out = []
    for x in walk(fn["body"]):
        if x.get("k") == "for":
            it = strip(x["iter"])
            ty = c.tya(x["iter"]) or c.ty(x["iter"]) or ""
            is_hm = "std::collections::hash_map::" in ty or ("HashMap<" in ty and it.get("k") != "mcall")
            if it.get("k") == "mcall" and it["callee"].startswith("std::collections::HashMap::") and it["name"] in HM_ITER:
                is_hm = True
            if is_hm:
                out.append((x, "for", x["pat"], x["body"], it))
        if x.get("k") == "mcall" and x["name"] not in HM_ITER:
            # adaptor chain whose source is a HashMap iterator
            r = strip(x["recv"])
            chain = [x["name"]]
            while r.get("k") == "mcall" and not (r["callee"].startswith("std::collections::HashMap::") and r["name"] in HM_ITER):
                chain.append(r["name"])
                r = strip(r["recv"])
            if r.get("k") == "mcall" and r["callee"].startswith("std::collections::HashMap::") and r["name"] in HM_ITER:
                out.append((x, "chain", None, x, list(reversed(chain))))
    # keep only outermost chains (a chain node contained in a longer chain is dropped)
    res = []
    for item in out:
        if item[1] == "chain":
            if any(o is not item and o[1] == "chain" and any(y is item[0] for y in walk(strip(o[0]["recv"]))) for o in out):
                continue
            if any(o[1] == "for" and any(y is item[0] for y in walk(o[4])) for o in out):
                continue
        res.append(item)
    return res


def r4(ctx):
    c = ctx.crate
    n = 0
    for p, fn in sorted(c.fns.items()):
        if p.endswith("as std::fmt::Display>::fmt") or p.startswith("plot::"):
            continue
        for (node, kind, pat, body, extra) in hm_iterations(c, fn):
            n += 1
            inst = "%s#%d" % (p, sum(1 for o in ctx.obligations if o["rule"] == "R05.4" and o["instance"].startswith(p + "#")))
            where = c.loc(fn, node)
            if kind == "chain":
                chain = extra
                ok = chain[-1] in ORDER_FREE_CONSUMERS and all(m in ("map", "filter", "copied", "cloned") or m == chain[-1] for m in chain)
                sorted_after = chain[-1] == "collect" and _sorted_before_use(c, fn, node)
                # collected into a keyed / ordered-by-key container: the visiting order leaves no trace in the result
                rty = (c.ty(node) or "")
                if chain[-1] == "collect" and rty.startswith(("std::collections::HashMap<", "std::collections::HashSet<", "std::collections::BTreeMap<", "std::collections::BTreeSet<")) \
                        and all(m in ("map", "filter", "copied", "cloned", "collect") for m in chain):
                    sorted_after = True
                ctx.check("R05.4", inst, ok or sorted_after, "hash-order-dependent-chain:" + ".".join(chain), where,
                          "HashMap iterator consumed by order-insensitive `%s`" % ".".join(chain),
                          "%s: the result of `%s` over a HashMap depends on its iteration order" % (p, ".".join(chain)))
                continue
            # for-loop: classify the effects of the body
            elem = {h for (_, h) in pat_binds(pat)}
            pushes, inserts, other = [], [], []
            for y in walk(body):
                if y.get("k") == "mcall" and (c.tya(y["recv"]) or "").startswith("&mut"):
                    base = _base_local(y["recv"])
                    if base is not None and base["hid"] in elem:
                        continue  # mutates the iterated element only
                    if y["callee"].startswith("std::collections::HashMap::") and y["name"] == "insert":
                        inserts.append(y)
                    elif y["callee"].startswith("std::collections::HashMap::") and y["name"] in ("get_mut", "entry"):
                        continue  # handle through the outer call (push on the result)
                    elif y["name"] in ("push", "extend", "append", "push_str"):
                        pushes.append((y, base))
                    else:
                        other.append(y)
                if y.get("k") in ("assign", "assignop"):
                    base = _base_local(y["l"])
                    if base is not None and base["hid"] in elem:
                        continue
                    if base is not None and _declared_inside(body, base["hid"]):
                        continue
                    other.append(y)
            if other:
                ctx.bad("R05.4", inst, "hash-order-dependent-effect:" + short(pretty(other[0]), 60), c.loc(fn, other[0]),
                        "%s: loop over a HashMap performs `%s`, whose result can depend on iteration order" % (p, short(pretty(other[0]), 100)))
            elif pushes:
                # a push through a binding obtained from a map (`Some(v) = m.get_mut(k)`, `m.entry(k).or_insert_with(..)`) targets that map
                def owner(b):
                    if b is None:
                        return None
                    for z in walk(body):
                        scr = None
                        if z.get("k") == "match" and any(h == b["hid"] for a_ in z["arms"] for (_, h) in pat_binds(a_["pat"])):
                            scr = z["scrut"]
                        if z.get("k") == "letx" and any(h == b["hid"] for (_, h) in pat_binds(z["pat"])):
                            scr = z["init"]
                        if scr is not None:
                            base2 = _base_local(scr)
                            if base2 is not None and "HashMap" in (c.ty(base2) or ""):
                                return base2
                    return b
                pushes = [(y_, owner(b_)) for (y_, b_) in pushes]
                targets = {b["hid"] for (_, b) in pushes if b is not None}
                ok = all(b is not None for (_, b) in pushes) and all(_normalised_after(c, fn, node, h) for h in targets)
                ctx.check("R05.4", inst, ok, "appends-in-hash-order-without-sorting:" + ",".join(sorted({b["name"] for (_, b) in pushes if b is not None})),
                          c.loc(fn, pushes[0][0]), "appended vectors are sorted before use",
                          "%s builds vector(s) by pushing in HashMap iteration order (`%s`) and uses them without sorting; downstream "
                          "float accumulation then happens in an order that differs between identically built networks"
                          % (p, short(pretty(pushes[0][0]), 80)))
            else:
                ctx.ok("R05.4", inst, "body only inserts into another map (%d insert(s)) or touches the iterated element" % len(inserts), where)
    ctx.floor("R05.4", 3, "Network::backward, Network::connect, Feedback::backward")


def _base_local(n):
    n = strip(n)
    while n is not None and n.get("k") in ("mcall", "index", "field", "un", "ref", "call"):
        k = n["k"]
        if k == "mcall":
            n = strip(n["recv"])
        elif k == "index":
            n = strip(n["b"])
        elif k == "field":
            n = strip(n["b"])
        elif k in ("un", "ref"):
            n = strip(n["x"])
        else:
            return None
    return n if n is not None and n.get("k") == "local" else None


def _declared_inside(body, hid):
    return any(s.get("k") == "let" and hid in [h for (_, h) in pat_binds(s["pat"])] for s in walk(body))


def _stmts_after(fn, node):
    """statements following `node` in its enclosing block"""
    for x in walk(fn["body"]):
        if x.get("k") == "block":
            for i, s in enumerate(x["stmts"]):
                if s is node or (s.get("k") == "let" and s["init"] is not None and any(y is node for y in walk(s["init"]))):
                    rest = x["stmts"][i + 1:]
                    return rest + ([x["tail"]] if x["tail"] is not None else [])
    return []


def _normalised_after(c, fn, loop, hid):
    """the first later statement mentioning local `hid` sorts it (or sorts every value of it)"""
    for s in _stmts_after(fn, loop):
        if not mentions_local(s, hid):
            continue
        sorts = [y for y in walk(s) if y.get("k") == "mcall" and y["name"].startswith("sort")]
        if not sorts:
            return False
        # either hid.sort() or a loop over hid.values_mut()/iter_mut() sorting the element
        if s.get("k") == "for" and mentions_local(s["iter"], hid):
            el = {h for (_, h) in pat_binds(s["pat"])}
            return all((_base_local(y["recv"]) or {}).get("hid") in el for y in sorts)
        return any((_base_local(y["recv"]) or {}).get("hid") == hid for y in sorts)
    return False


def _sorted_before_use(c, fn, node):
    for s in walk(fn["body"]):
        if s.get("k") == "let" and s["init"] is not None and any(y is node for y in walk(s["init"])):
            b = pat_binds(s["pat"])
            if len(b) == 1:
                return _normalised_after(c, fn, s, b[0][1])
    return False


def r5(ctx):
    c = ctx.crate
    for p in ("network::Network::learn", "network::Network::validate"):
        fn = ctx.fn(p)
        red = [x for x in walk(fn["body"]) if x.get("k") == "mcall" and x["name"] in ("sum", "fold", "reduce", "product")]
        for i, x in enumerate(red):
            ctx.check("R05.5", "%s:%s#%d" % (p, x["name"], i), x["callee"].startswith("std::iter::"), "parallel-reduction:" + x["callee"], c.loc(fn, x),
                      "sequential %s" % x["callee"])
    fn = ctx.fn("network::Network::learn")
    loops = [x for x in walk(fn["body"]) if x.get("k") == "for" and pretty(strip(x["iter"])) == "results"]
    ctx.check("R05.5", "learn:gradient-accumulation-loop", len(loops) == 1, "results-not-consumed-by-sequential-for", c.loc(fn),
              "per-sample results combined by a sequential `for` over the ordered Vec")
    ctx.floor("R05.5", 4, "3 sums + the accumulation loop")


def run(ctx):
    ctx.guard("R05.1", "rayon", r1, ctx)
    ctx.guard("R05.2", "shared-state", r2, ctx)
    ctx.guard("R05.3", "nondeterminism", r3, ctx)
    ctx.guard("R05.4", "hash-order", r4, ctx)
    ctx.guard("R05.5", "sequential-combination", r5, ctx)
