"""C11 - a feedback block computes the repeated, optionally skip-combined, layer sequence."""
from ..core import Unestablished
from ..hir import walk, strip, pretty, short, calls, pat_binds
from .. import e1, e4
from ..e1 import Rat
from .common import top_stmts_of, check_acc_dispatch, acc_matches, mentions_local, INPLACE, T
from .learn import chain_of

LEVEL = "other"
RULES = {
    "R11.1": "accumulation dispatch: at both combination sites of Feedback::forward (input of position i, and the block output) each "
             "Accumulation arm uses only its own primitive (Add->add_inplace, Subtract->sub_inplace, Multiply->mul_inplace, "
             "Mean->mean_inplace, Overwrite->assignment of the LAST listed source), all five variants present, and the two hand-written "
             "copies agree arm by arm; the primitives themselves satisfy the element-wise rule of C15 (R15.1 re-checked here)",
    "R11.2": "wiring: Feedback::create registers {i*length: [0]} for i in 1..loops iff inskips and {loops*length: [i*length | i in 1..loops]} "
             "iff outskips; forward applies entry i to the input of position i and entry layers.len() to the final output, reading "
             "activated[idx] for every listed idx; `activated` holds the block input followed by each position's output and is only "
             "ever pushed to (never overwritten), so listed sources are the recorded outputs",
    "R11.3": "chaining and flatten: position i consumes the last activated tensor; every variant asserts the shape and calls forward on "
             "that tensor, recording (pre, post, max); the output is flattened iff self.flatten; the block reports its first "
             "pre-activation and its final output",
}
RULES["R11.3"] += " | decided on the E6 effect summary of Feedback::forward: per layer variant every live path records F.0 / F.1 / None|Some(F.2) of <payload>::forward(payload, x), asserts x.shape against payload.inputs first, and on paths that combine nothing into x, x is activated.last() at loop entry; the final output is popped and pushed back flattened iff self.flatten; the block reports (unactivated[0], activated[last], ..)"
RULES["R11.1"] += " | per-source / joint-mean: Add, Subtract, Multiply apply their primitive inside the walk over the listed sources; Mean applies mean_inplace once, outside that walk, to the list it fills; a Mean written as add + division must divide by the number of tensors combined"
ASSUMPTIONS = ["the computed values are not decided; each rule is a necessary condition of a mechanism the property names"]
TRUSTED = ["rustc nightly front end", "driver/src/main.rs", "sa/e1.py", "sa/e4.py", "sa/extract.py (for the primitives)"]

FB = "feedback::Feedback::"


def primitives(ctx, rule):
    """the accumulation primitives obey their element-wise definition (C15's R15.1, re-run under this property)"""
    from . import c15
    sub = type(ctx)(ctx.prop, ctx.facts)
    for op, nested in (("add_inplace", ("Nested", "NestedOptional")), ("sub_inplace", ()), ("mul_inplace", ()), ("mean_inplace", ())):
        sub.guard("R15.1", op, c15.elementwise, sub, op, nested)
    sub.guard("R15.2", "shape-equality", c15.shape_equality, sub, "R15.2")     # shape refusals rest on Shape == Shape
    bad = [o for o in sub.obligations if o["status"] != "ok"]
    for o in bad:
        ctx.bad(rule, "primitive:" + o["instance"], o["key"].split("/", 3)[-1], o["where"], o["detail"])
    ctx.check(rule, "primitives", not bad and len(sub.obligations) >= 16, "accumulation-primitive-broken", "src/tensor.rs",
              "%d rank arms of add/sub/mul/mean_inplace compute their element-wise definition" % len(sub.obligations))


def r1(ctx):
    c = ctx.crate
    fn = ctx.fn(FB + "forward")
    ms = acc_matches(fn["body"])
    if len(ms) != 2:
        raise Unestablished("Feedback::forward: expected two accumulation dispatches, found %d" % len(ms), c.loc(fn))
    texts = []
    for k, (m, tgt) in enumerate(zip(ms, ("x", "last"))):
        inst = "forward#%d" % k

        def ow(body, tgt=tgt):
            from ..hir import cpretty as _cp, let_table as _lt2
            asg = [x for x in walk(body) if x.get("k") == "assign"]
            rhs = _cp(asg[0]["r"], _lt2(body)) if len(asg) == 1 else ""
            return len(asg) == 1 and pretty(strip(asg[0]["l"])) == tgt and ".last().unwrap()" in rhs and "activated[" in rhs
        check_acc_dispatch(ctx, "R11.1", fn, m, inst, overwrite_ok=ow)
        scr = strip(m["scrut"])
        ctx.check("R11.1", inst + ":dispatch-on-accumulation", scr.get("k") == "field" and scr["f"] == "accumulation", "dispatch-field:" + pretty(scr), c.loc(fn, m), "match self.accumulation")
        arms = {}
        for a in m["arms"]:
            vp, _ = e4.arm_variant(a)
            arms[vp.split("::")[-1]] = _arm_summary(c, a["body"], tgt)
            # how often the primitive runs: Add/Subtract/Multiply once per listed source (inside the walk over the sources),
            # Mean once for ALL sources together (a pairwise running mean is a different value for three or more tensors)
            vname = vp.split("::")[-1]
            if vname in ("Add", "Subtract", "Multiply", "Mean"):
                prim_calls = [x for x in walk(a["body"]) if x.get("k") == "mcall" and x["callee"] in INPLACE]
                src_loops = [x for x in walk(a["body"]) if x.get("k") == "for" or (x.get("k") == "mcall" and x["name"] == "for_each")]
                in_loop = [any(y is x for lp_ in src_loops for y in walk(lp_)) for x in prim_calls]
                if vname == "Mean":
                    okn = bool(prim_calls) and not any(in_loop)
                    if okn:
                        # its operand list is filled by the walk over the sources
                        arg = strip(prim_calls[0]["args"][0])
                        ah = e4.local_hid(arg)
                        pushes = [y for lp_ in src_loops for y in walk(lp_) if y.get("k") == "mcall" and y["name"] == "push" and e4.local_hid(y["recv"]) == ah]
                        from ..hir import resolve as _res, let_table as _lt
                        arg_r = _res(arg, _lt(a["body"]))        # `let others = sources.iter().map(..).collect(); x.mean_inplace(&others)`
                        if ah is not None and ah in _lt(a["body"]):
                            arg_r = strip(_lt(a["body"])[ah])
                        collects = arg_r is not None and arg_r.get("k") == "mcall" and arg_r["name"] == "collect" and any(y.get("k") == "mcall" and y["name"] == "map" for y in walk(arg_r))
                        okn = (ah is not None and len(pushes) == 1) or collects
                    ctx.check("R11.1", "%s:Mean:joint-mean" % inst, okn, "mean-not-taken-jointly-over-all-sources", c.loc(fn, a["body"]),
                              "one mean_inplace over the list of all sources",
                              "the Mean arm is `%s`: the mean must be taken once over the target and all listed sources; folding pairwise weights later sources more" % short(pretty(a["body"]), 200))
                else:
                    ctx.check("R11.1", "%s:%s:per-source" % (inst, vname), bool(prim_calls) and all(in_loop), "primitive-not-applied-per-source", c.loc(fn, a["body"]),
                              "the primitive is applied once per listed source")
            # receivers of the primitives must be the combination target
            for x in walk(a["body"]):
                if x.get("k") == "mcall" and x["callee"] in INPLACE:
                    ctx.check("R11.1", "%s:%s:target" % (inst, vp.split("::")[-1]), pretty(strip(x["recv"])) == tgt, "accumulates-into:" + pretty(strip(x["recv"])), c.loc(fn, x), "combines into `%s`" % tgt)
        texts.append(arms)
    for v in texts[0]:
        if v == "_":
            continue
        ctx.check("R11.1", "siblings:" + v, texts[0].get(v) == texts[1].get(v), "two-copies-differ:" + v, c.loc(fn, ms[1]),
                  "in-loop and output copies of the %s arm agree" % v,
                  "the %s arm differs between the two hand-written copies: `%s` vs `%s`" % (v, short(texts[0].get(v, ""), 120), short(texts[1].get(v, ""), 120)))
    return fn, ms


def _create_skip_map(c, cf):
    """The internal skip table built by Feedback::create, decided on its E6 effect summary for each of the four (inskips, outskips)
    settings: the inserts into `connect` are exactly  i*length -> [0] for i in 1..loops  iff inskips, and
    loops*length -> [i*length for i in 1..loops] (in order) iff outskips.  Independent of whether one loop or two build it."""
    from .. import e6
    E = e6.Exec(c, cf)
    fpaths = [p for p in E.run_fn() if p.exit is None or p.exit[0] == "return"]
    IN, OUT = ("p", "inskips"), ("p", "outskips")
    LEN = ("call", "std::vec::Vec::<T, A>::len", (("p", "layers"),))
    LOOPS = ("p", "loops")

    def truth(t, asg):
        if t == IN:
            return asg[0]
        if t == OUT:
            return asg[1]
        if isinstance(t, tuple) and t:
            if t[0] == "un" and t[1] == "Not":
                v = truth(t[2], asg)
                return None if v is None else (not v)
            if t[0] == "bin" and t[1] in ("And", "Or"):
                l, r = truth(t[2], asg), truth(t[3], asg)
                if l is None or r is None:
                    return None
                return (l and r) if t[1] == "And" else (l or r)
        return None

    def consistent(pc, asg):
        for (t, pol) in pc:
            v = truth(t, asg)
            if v is not None and v != pol:
                return False
        return True

    def length_of(t):
        """normalise `length` (a let-bound len(layers)) to LEN"""
        return t

    def inserts(effs, asg, dom, out):
        for e in effs:
            if e[0] == "mut" and e[1].rsplit("::", 1)[-1] == "insert" and e[2] == ("local", "connect") and len(e[3]) == 2:
                out.append((dom, e[3][0], e[3][1]))
            elif e[0] == "loop":
                S = E.loop_summaries[e[1]]
                for bp in S["paths"]:
                    if bp.exit is None and consistent(bp.pc, asg):
                        inserts(bp.eff, asg, (e[1], S.get("iter")), out)
        return out

    def seq_value(v, asg):
        """[f(i) for i in D] built by a push loop (possibly conditional on the flags) or by map/collect -> (D, f(elem), elem)"""
        es = e6.elementwise_sequence(E, v)
        if es is not None:
            return es
        if isinstance(v, tuple) and len(v) == 4 and v[0] == "loopout":
            S = E.loop_summaries.get(v[2])
            if S is None or S.get("kind") != "for" or not (e6.is_call(v[3], "new", 0) is not None or e6.is_call(v[3], "with_capacity", 1) is not None):
                return None
            kept = [bp for bp in S["paths"] if consistent(bp.pc, asg)]
            vals = set()
            for bp in kept:
                if bp.exit is not None:
                    return None
                ps = [f[2] for f in bp.eff if f[0] == "push" and f[1] == ("local", v[1])]
                if len(ps) != 1:
                    return None
                vals.add(ps[0])
            if len(vals) == 1:
                return S["iter"], list(vals)[0], ("elem", S["iter"], v[2])
        return None
    ok_in = ok_out = bool(fpaths)
    got = []
    for asg in ((True, True), (True, False), (False, True), (False, False)):
        for p in fpaths:
            if not consistent(p.pc, asg):
                continue
            ins = inserts(p.eff, asg, None, [])
            in_like = [x for x in ins if x[0] is not None]
            out_like = [x for x in ins if x[0] is None]
            # input skips
            good_in = False
            if asg[0]:
                if len(in_like) == 1:
                    (lid, it), key, val = in_like[0]
                    el = ("elem", it, lid)
                    good_in = e6.range_of(it) == (("lit", "1"), LOOPS) and key == e6.mk_bin("Mul", el, LEN) and val == ("vec", (("lit", "0"),))
            else:
                good_in = not in_like
            # output skips
            good_out = False
            if asg[1]:
                if len(out_like) == 1:
                    _, key, val = out_like[0]
                    sv = seq_value(val, asg)
                    good_out = key == e6.mk_bin("Mul", LOOPS, LEN) and sv is not None and e6.range_of(sv[0]) == (("lit", "1"), LOOPS) and sv[1] == e6.mk_bin("Mul", sv[2], LEN)
            else:
                good_out = not out_like
            if not good_in or not good_out:
                got.append("inskips=%s,outskips=%s: %s" % (asg[0], asg[1], "; ".join("%s%s -> %s" % ("for %s: " % e6.show(x[0][1], 2) if x[0] else "", e6.show(x[1], 2), e6.show(x[2], 2)[:50]) for x in ins) or "no insert"))
            ok_in = ok_in and good_in
            ok_out = ok_out and good_out
    return ok_in, ok_out, got[:3]


def _arm_summary(c, body, tgt):
    """what an accumulation arm does, independent of spelling: primitives applied to the target, and how the sources are taken"""
    prims = sorted({x["callee"].split("::")[-1] for x in walk(body) if x.get("k") == "mcall" and x["callee"] in INPLACE and pretty(strip(x["recv"])) == tgt})
    each = any(x.get("k") == "for" for x in walk(body))
    last = any(x.get("k") == "mcall" and x["name"] == "last" for x in walk(body))
    first = any(x.get("k") == "mcall" and x["name"] in ("first", "nth", "get") and "activated" not in pretty(x) for x in walk(body) if x.get("k") == "mcall" and x["name"] in ("first", "nth"))
    assigns = sorted(pretty(strip(x["l"])) == tgt for x in walk(body) if x.get("k") == "assign")
    srcs = len([x for x in walk(body) if x.get("k") == "index" and pretty(strip(x["b"])) == "activated"])
    return (tuple(prims), each, last, first, tuple(assigns), srcs)


def _pretty_renamed(node, name):
    """pretty() with every local called `name` printed as T (compares the two hand-written copies modulo the target's name)"""
    import copy
    n = copy.deepcopy(node)
    for x in walk(n):
        if x.get("k") == "local" and x["name"] == name:
            x["name"] = "T"
    return pretty(n)


def r2(ctx, fn, ms):
    c = ctx.crate
    cf = ctx.fn(FB + "create")
    P = {pat_binds(p)[0][0]: pat_binds(p)[0][1] for p in cf["params"] if pat_binds(p)}
    ok_in, ok_out, got = _create_skip_map(c, cf)
    ctx.check("R11.2", "create:input-skips", ok_in, "input-skip-wiring:" + short(";".join(got), 120), c.loc(cf), "{i*length: [0]} for i in 1..loops iff inskips")
    ctx.check("R11.2", "create:output-skips", ok_out, "output-skip-wiring:" + short(";".join(got), 120), c.loc(cf), "{loops*length: [i*length for i in 1..loops]} iff outskips")
    # forward: keys
    # the walk over the positions: the outermost loop holding the in-loop accumulation, over self.layers enumerated or over 0..self.layers.len()
    from ..hir import let_table as _lt2, cpretty as _cp2
    TT0 = _lt2(fn["body"])
    lp = [x for x in top_stmts_of(fn["body"]) if x.get("k") == "for" and any(y is ms[0] for y in walk(x))
          and (pretty(strip(x["iter"])) == "self.layers.iter().enumerate()"
               or (strip(x["iter"]).get("k") == "struct" and strip(x["iter"])["path"] == "std::ops::Range"
                   and [_cp2(b_, TT0) for a_, b_ in strip(x["iter"])["fs"]] == ["0", "self.layers.len()"]))]
    if len(lp) != 1:
        raise Unestablished("Feedback::forward: no walk over the positions of self.layers holding the accumulation", c.loc(fn))
    lp = lp[0]
    ih = pat_binds(lp["pat"])[0][1]
    from .common import map_guard, is_lookup
    first_if = [s for s in top_stmts_of(lp["body"]) if s.get("k") == "if" and any(y is ms[0] for y in walk(s))]
    mg = map_guard(first_if[0], "connect") if len(first_if) == 1 else None
    ok = mg is not None and e4.local_hid(mg["key"]) == ih
    ctx.check("R11.2", "forward:position-key", ok, "in-loop-key", c.loc(fn, lp), "entry i applies to the input of position i")
    n_look = 0
    if mg is not None:
        for a_ in ms[0]["arms"]:
            if e4.arm_variant(a_)[0] == "_":
                continue
            n_look += any(is_lookup(y, "connect", ih, mg["bound"]) for y in walk(a_["body"]))
    ctx.check("R11.2", "forward:position-lookups", n_look == 5, "in-loop-lookups:%d" % n_look, c.loc(fn, ms[0]), "every arm takes its sources from self.connect[i]")
    st = top_stmts_of(fn["body"])
    fin = [s for s in st if s.get("k") == "if" and any(y is ms[1] for y in walk(s))]
    mg2 = map_guard(fin[0], "connect") if len(fin) == 1 else None
    from ..hir import let_table, cpretty
    TT = let_table(fn["body"])
    ok = mg2 is not None and cpretty(mg2["key"], TT) == "self.layers.len()"
    ctx.check("R11.2", "forward:output-key", ok, "output-key:" + (short(pretty(fin[0]["c"]), 60) if fin else "?"), c.loc(fn), "entry layers.len() applies to the block output")
    if mg2 is not None:
        n2 = 0
        for a_ in ms[1]["arms"]:
            if e4.arm_variant(a_)[0] == "_":
                continue
            hit = False
            for y in walk(a_["body"]):
                yy = strip(y)
                if yy.get("k") == "local" and yy["hid"] in mg2["bound"]:
                    hit = True
                if yy.get("k") == "mcall" and yy["name"] == "get" and "self.connect" in pretty(yy["recv"]) and cpretty(yy["args"][0], TT) == "self.layers.len()":
                    hit = True
            n2 += hit
        ctx.check("R11.2", "forward:output-lookups", n2 == 5, "output-lookups:%d" % n2, c.loc(fn, ms[1]), "every arm takes its sources from self.connect[layers.len()]")
    # sources are activated[*idx]
    for k, m in enumerate(ms):
        srcs = [x for x in walk(m) if x.get("k") == "index" and pretty(strip(x["b"])) == "activated"]
        ok = len(srcs) == 5 and all(strip(x["i"]).get("k") in ("local", "mcall", "un") for x in srcs)
        ctx.check("R11.2", "forward#%d:sources-are-activated" % k, ok, "sources:%d" % len(srcs), c.loc(fn, m), "sources read from activated[idx]")
    # `activated` is push/pop only
    ah = None
    for s in st:
        if s.get("k") == "let" and s["pat"].get("k") == "bind" and s["pat"]["name"] == "activated":
            ah = s["pat"]["hid"]
    muts = sorted({x["name"] for x in walk(fn["body"]) if x.get("k") == "mcall" and e4.local_hid(x["recv"]) == ah and (c.tya(x["recv"]) or "").startswith("&mut")})
    writes = [x for x in walk(fn["body"]) if x.get("k") in ("assign", "assignop") and mentions_local(x["l"], ah)]
    ctx.check("R11.2", "activated-is-append-only", set(muts) <= {"push", "pop"} and not writes, "activated-modified:" + ",".join(muts + [short(pretty(w), 40) for w in writes]), c.loc(fn, writes[0]) if writes else c.loc(fn),
              "activated: push/pop only", "`activated` is modified by %s; the recorded outputs that later skips read must not be overwritten with combined inputs" % (muts + [short(pretty(w), 60) for w in writes]))
    from ..hir import let_table, cpretty
    TT_ = let_table(fn["body"])
    pushes = [cpretty(strip(x["args"][0]), TT_) for x in walk(fn["body"]) if x.get("k") == "mcall" and x["name"] == "push" and e4.local_hid(x["recv"]) == ah]
    ctx.check("R11.2", "activated-holds-outputs", pushes[:2] == ["input.clone()", "post"] and set(pushes[2:]) <= {"last.flatten()", "last"}, "activated-pushes:" + ",".join(pushes), c.loc(fn), "input, then every post")
    return lp


def _enclosing_ifs(root, target):
    from .c13 import enclosing_conditions
    conds = enclosing_conditions(root, target) or []
    return [pretty(strip(i["c"])) for (i, br) in conds if br == "th"]


def r3(ctx, fn, lp):
    """chaining inside a block, decided on the E6 effect summary of Feedback::forward (independent of spelling)"""
    c = ctx.crate
    from .. import e6 as e5
    E = e5.Exec(c, fn)
    fpaths = [p for p in E.run_fn() if p.exit is None or p.exit[0] == "return"]
    if not fpaths:
        raise Unestablished("Feedback::forward: no non-panicking path", c.loc(fn))
    # the position walk: the `for` loop whose body applies the layers' forward
    walk_ids = [lid for lid, s_ in E.loop_summaries.items() if s_.get("kind") == "for"
                and any(e5.find_terms(tuple(p.eff), lambda t: t[0] == "call" and t[1].endswith("::forward")) for p in s_["paths"])]
    walk_ids = [l for l in walk_ids if not any(l2 != l and _loop_inside(E, l, l2) for l2 in walk_ids)]
    if len(walk_ids) != 1:
        raise Unestablished("Feedback::forward: expected one walk over the positions, found %d" % len(walk_ids), c.loc(fn))
    lid = walk_ids[0]
    S = E.loop_summaries[lid]
    it = S["iter"]
    lnode = S["node"]
    sw_ = e5.seq_walk(it, lid, ("field", ("p", "self"), "layers"))
    layer_t = e5.walk_element(S["paths"], sw_["fwd"]) if sw_ and sw_["fwd"] and sw_["pos"]["fwd"] is not None else None
    ctx.check("R11.3", "walks-positions-in-order", layer_t is not None, "position-walk:" + short(e5.show(it, 2), 60), c.loc(fn, lnode), "for (i, layer) in self.layers.iter().enumerate()")
    if layer_t is None:
        return
    elem = ("elem", it, lid)
    # roles from the returned tuple: (first pre, final output, maxpools, unactivated, activated)
    ret = fpaths[0].val if fpaths[0].exit is None else fpaths[0].exit[1]
    comps = ret[1] if isinstance(ret, tuple) and ret and ret[0] == "tup" else ()
    names = [e5.root_name(_base_of(x)) for x in comps]
    okr = len(comps) >= 5 and names[3] is not None and names[4] is not None and names[0] == names[3]
    first = comps[0] if comps else None
    okr = okr and isinstance(first, tuple) and first[0] == "idx" and first[2] == ("lit", "0")
    final_is_last_push = False
    if okr and names[1] != names[4]:
        # `activated.push(v); .. activated.last().unwrap()` evaluates to v itself: the final output is the value pushed last on every path
        final_is_last_push = all((p_.val if p_.exit is None else p_.exit[1])[1][1] == (e5.pushes_to(p_, names[4]) or [None])[-1] for p_ in fpaths)
        okr = final_is_last_push
    if okr and not final_is_last_push:
        fin = comps[1]
        a_last = e5.is_call(fin, "unwrap", 1)
        okr = (isinstance(fin, tuple) and fin[0] == "idx" and isinstance(fin[2], tuple) and fin[2][0] == "bin" and fin[2][1] == "Sub"
               and e5.is_call(fin[2][2], "len", 1) is not None and e5.is_call(fin[2][2], "len", 1)[0] == fin[1] and fin[2][3] == ("lit", "1")) \
            or (a_last is not None and e5.is_call(a_last[0], "last", 1) is not None)
    # the records are returned as they were filled: no reordering / dropping of entries between the walk and the return (the max-pool and
    # tensor records are indexed by position in Feedback::backward); taking the last activated entry off to fold the block-level skip connection into it (`pop`, then `push`)
    # is the only list operation the records may carry, and only on the activated record
    tam = []
    for p_ in fpaths:
        v_ = p_.val if p_.exit is None else p_.exit[1]
        cs_ = v_[1] if isinstance(v_, tuple) and v_ and v_[0] == "tup" else ()
        for k_, comp_ in enumerate(cs_):
            # `activated.pop()` ... `activated.push(last)` is how the pinned code folds the block-level skip connection into the last entry
            tam += [(k_, nm_) for nm_ in e5.list_tampering(comp_) if not (nm_ == "pop" and k_ in (1, 4))]
    ctx.check("R11.3", "records-returned-as-filled", not tam, "records-changed-before-return:" + ",".join(sorted({"%d:%s" % x_ for x_ in tam})), c.loc(fn),
              "the five results are the records as the walk filled them",
              "Feedback::forward applies %s to a record before returning it: position i no longer belongs to layer i" % sorted({x_[1] for x_ in tam}))
    ctx.check("R11.3", "reports-first-pre-and-final-output", bool(okr), "block-result:" + short(",".join(e5.show(x, 2) for x in comps), 80), c.loc(fn),
              "(unactivated[0], activated[last], .., unactivated, activated)")
    if not okr:
        return
    un_n, act_n = names[3], names[4]
    max_n = e5.root_name(e5.is_call(comps[2], "nestedoptional", 1)[0]) if e5.is_call(comps[2], "nestedoptional", 1) else None
    body = S["paths"]
    X0 = None
    for v in c.adts["network::Layer"]["variants"]:
        kind = v["name"]
        vp = "network::Layer::" + kind
        mine = [p for p in body if e5.variant_of(p).get(layer_t) == vp]
        live = [p for p in mine if p.exit is None]
        where = c.loc(fn, lnode)
        if kind == "Feedback":
            continue
        payload_ty = v["fields"][0]["ty"]
        pay = ("payload", layer_t, vp, 0)
        ok = bool(live)
        why = ""
        for p in live:
            fwd = e5.find_terms(tuple(p.eff), lambda t: t[0] == "call" and t[1] == payload_ty + "::forward")
            F = fwd[0] if fwd else None
            if F is None or any(f != F for f in fwd) or len(F[2]) != 2 or F[2][0] != pay:
                ok, why = False, "the layer's forward is not applied (once) to the position's input"
                break
            xin = F[2][1]
            want_max = ("var", "Option::None", ()) if kind != "Maxpool" else ("var", "Option::Some", (e5.mk_proj(F, 2),))
            if e5.pushes_to(p, un_n) != [e5.mk_proj(F, 0)] or e5.pushes_to(p, act_n) != [e5.mk_proj(F, 1)] or (max_n and e5.pushes_to(p, max_n) != [want_max]):
                ok, why = False, "records %s / %s / %s" % ([e5.show(t_, 2) for t_ in e5.pushes_to(p, un_n)], [e5.show(t_, 2) for t_ in e5.pushes_to(p, act_n)],
                                                          [e5.show(t_, 2) for t_ in e5.pushes_to(p, max_n)] if max_n else "-")
                break
            # the shape of the input is asserted against the layer's declared input shape before it is applied
            shp = [(t, pol) for (t, pol) in p.pc if isinstance(t, tuple) and t[0] == "bin" and t[1] in ("Eq", "Ne")
                   and ("field", pay, "inputs") in (t[2], t[3]) and ("field", xin, "shape") in (t[2], t[3])]
            if not any((t[1] == "Ne" and not pol) or (t[1] == "Eq" and pol) for (t, pol) in shp):
                ok, why = False, "no shape assertion between the input and %s.inputs" % kind
                break
            # without an internal skip into this position the input is the previous position's output
            plain = not any(e[0] in ("mut", "loop", "set", "mutcall") for e in p.eff)   # nothing is combined into the input on this path
            if plain:
                a1 = e5.is_call(xin, "unwrap", 1)
                a2 = e5.is_call(a1[0], "last", 1) if a1 else None
                if not (a2 and a2[0] == ("loopin", act_n, lid)):
                    ok, why = False, "the input of the position is `%s`, not the last activation recorded so far" % e5.show(xin, 2)
                    break
                X0 = xin
        ctx.check("R11.3", "position:" + kind, ok, "position-arm:" + kind, where, "assert shape; (pre, post[, max]) = layer.forward(x); recorded in order",
                  "%s position (%d live path(s)): %s" % (kind, len(live), why))
    ctx.check("R11.3", "consumes-last-activated", X0 is not None, "position-input", c.loc(fn, lnode), "x = activated.last().unwrap().clone()")
    # the final output is flattened iff the flag is set
    okf = True
    seen_pol = set()
    for p in fpaths:
        fl = [pol for (t, pol) in p.pc if t == ("field", ("p", "self"), "flatten")]
        outs = e5.pushes_to(p, act_n)
        if not fl or not outs:
            okf = False
            break
        seen_pol.add(fl[0])
        fa = e5.is_call(outs[-1], "flatten", 1)
        if (fl[0] and fa is None) or (not fl[0] and fa is not None):
            okf = False
    pops = all(any(e[0] == "mut" and e[1].endswith("::pop") and e[2] == ("local", act_n) for e in p.eff) for p in fpaths)
    ctx.check("R11.3", "flatten-iff-flag", okf and seen_pol == {True, False} and pops, "flatten-handling", c.loc(fn), "the last output is popped and pushed back flattened iff self.flatten")
    # Network::feedback builds the block from the descriptions in order, chaining shapes
    nf = ctx.fn("network::Network::feedback")
    t = pretty(nf["body"])
    ok = "for layer in layers.iter()" in t and "feedback::Feedback::create(_layers, loops, inskips, outskips, accumulation)" in t
    ctx.check("R11.3", "construction", ok, "block-construction", c.loc(nf), "Feedback::create(_layers, loops, inskips, outskips, accumulation)")


def _base_of(t):
    """the collection a returned component is taken from: x[i] / x.last().unwrap() / f(x) -> x"""
    while isinstance(t, tuple) and t:
        if t[0] == "idx":
            t = t[1]
        elif t[0] == "call" and t[2]:
            t = t[2][0]
        elif t[0] == "var" and t[2]:
            t = t[2][0]
        else:
            break
    return t


def _loop_inside(E, inner, outer):
    """is loop `inner` nested in the body of loop `outer`?"""
    from ..hir import walk as _w
    on = E.loop_summaries[outer]["node"]
    inn = E.loop_summaries[inner]["node"]
    return any(x is inn for x in _w(on.get("body")))


def shared_weights(ctx):
    """`with shared weights`: the repetitions are clones of the block's layer list and the coupled groups are {l + i*length | i in 0..loops} for every
    l in 0..length - the groups the re-coupling step ties (C10's R10.1 facts re-run under this property)"""
    from . import c10
    sub = type(ctx)(ctx.prop, ctx.facts)
    sub.guard("R10.1", "create", c10.r1, sub)
    sub.guard("R10.2", "update", c10.r2, sub)      # .. and stay shared: every group is re-coupled after every step
    bad = [o for o in sub.obligations if o["status"] != "ok"]
    for o in bad:
        ctx.bad("R11.2", "shared-weights:" + o["instance"], o["key"].split("/", 3)[-1], o["where"], o["detail"])
    ctx.check("R11.2", "shared-weights", not bad and len(sub.obligations) >= 3, "repetitions-not-tied", "src/feedback.rs", "%d facts about Feedback::create" % len(sub.obligations))


RULES["R11.2"] += " | shared-weights: the coupled groups / cloned repetitions of Feedback::create (R10.1 re-run here)"

RULES["R11.3"] += " | entries-stay-in-place (who-may-permute): over every function of the property's modules, no Vec/slice operation that moves entries to other positions (reverse, swap, rotate, sort .., mem::swap of two entries) outside the table of sites confirmed on the pinned tree (common.PERMUTING_SITES)"


def run(ctx):
    from .common import no_permuting_ops
    ctx.guard("R11.3", "entries-stay-in-place", no_permuting_ops, ctx, "R11.3", "feedback", {"src/feedback.rs"}, 8)
    ctx.guard("R11.2", "shared-weights", shared_weights, ctx)
    r = ctx.guard("R11.1", "dispatch", r1, ctx)
    ctx.guard("R11.1", "primitives", primitives, ctx, "R11.1")
    if r:
        lp = ctx.guard("R11.2", "wiring", r2, ctx, *r)
        if lp:
            ctx.guard("R11.3", "chaining", r3, ctx, r[0], lp)
    ctx.floor("R11.1", 10 + 2 + 5 + 1, "")
    ctx.floor("R11.2", 10, "")
    ctx.floor("R11.3", 10, "")
