"""C11 - a feedback block computes the repeated, optionally skip-combined, layer sequence."""
from ..core import Unestablished
from ..hir import walk, strip, pretty, short, calls, pat_binds
from .. import e1, e4
from ..e1 import Rat
from .common import top_stmts_of, check_acc_dispatch, acc_matches, mentions_local, INPLACE, T
from .learn import chain_of

LEVEL = "other"
RULES = {
    "R11.1": "accumulation dispatch: at both combination sites of Feedback::forward (input of position i, and the block output) each "
             "Accumulation arm uses only its own primitive (Add->add_inplace, Subtract->sub_inplace, Multiply->mul_inplace, "
             "Mean->mean_inplace, Overwrite->assignment of the LAST listed source), all five variants present, and the two hand-written "
             "copies agree arm by arm; the primitives themselves satisfy the element-wise rule of C15 (R15.1 re-checked here)",
    "R11.2": "wiring: Feedback::create registers {i*length: [0]} for i in 1..loops iff inskips and {loops*length: [i*length | i in 1..loops]} "
             "iff outskips; forward applies entry i to the input of position i and entry layers.len() to the final output, reading "
             "activated[idx] for every listed idx; `activated` holds the block input followed by each position's output and is only "
             "ever pushed to (never overwritten), so listed sources are the recorded outputs",
    "R11.3": "chaining and flatten: position i consumes the last activated tensor; every variant asserts the shape and calls forward on "
             "that tensor, recording (pre, post, max); the output is flattened iff self.flatten; the block reports its first "
             "pre-activation and its final output",
}
ASSUMPTIONS = ["the computed values are not decided; each rule is a necessary condition of a mechanism the property names"]
TRUSTED = ["rustc nightly front end", "driver/src/main.rs", "sa/e1.py", "sa/e4.py", "sa/extract.py (for the primitives)"]

FB = "feedback::Feedback::"


def primitives(ctx, rule):
    """the accumulation primitives obey their element-wise definition (C15's R15.1, re-run under this property)"""
    from . import c15
    sub = type(ctx)(ctx.prop, ctx.facts)
    for op, nested in (("add_inplace", ("Nested", "NestedOptional")), ("sub_inplace", ()), ("mul_inplace", ()), ("mean_inplace", ())):
        sub.guard("R15.1", op, c15.elementwise, sub, op, nested)
    bad = [o for o in sub.obligations if o["status"] != "ok"]
    for o in bad:
        ctx.bad(rule, "primitive:" + o["instance"], o["key"].split("/", 3)[-1], o["where"], o["detail"])
    ctx.check(rule, "primitives", not bad and len(sub.obligations) >= 16, "accumulation-primitive-broken", "src/tensor.rs",
              "%d rank arms of add/sub/mul/mean_inplace compute their element-wise definition" % len(sub.obligations))


def r1(ctx):
    c = ctx.crate
    fn = ctx.fn(FB + "forward")
    ms = acc_matches(fn["body"])
    if len(ms) != 2:
        raise Unestablished("Feedback::forward: expected two accumulation dispatches, found %d" % len(ms), c.loc(fn))
    texts = []
    for k, (m, tgt) in enumerate(zip(ms, ("x", "last"))):
        inst = "forward#%d" % k

        def ow(body, tgt=tgt):
            asg = [x for x in walk(body) if x.get("k") == "assign"]
            return len(asg) == 1 and pretty(strip(asg[0]["l"])) == tgt and ".last().unwrap()" in pretty(asg[0]["r"]) and "activated[" in pretty(asg[0]["r"])
        check_acc_dispatch(ctx, "R11.1", fn, m, inst, overwrite_ok=ow)
        scr = strip(m["scrut"])
        ctx.check("R11.1", inst + ":dispatch-on-accumulation", scr.get("k") == "field" and scr["f"] == "accumulation", "dispatch-field:" + pretty(scr), c.loc(fn, m), "match self.accumulation")
        arms = {}
        for a in m["arms"]:
            vp, _ = e4.arm_variant(a)
            arms[vp.split("::")[-1]] = _arm_summary(c, a["body"], tgt)
            # how often the primitive runs: Add/Subtract/Multiply once per listed source (inside the walk over the sources),
            # Mean once for ALL sources together (a pairwise running mean is a different value for three or more tensors)
            vname = vp.split("::")[-1]
            if vname in ("Add", "Subtract", "Multiply", "Mean"):
                prim_calls = [x for x in walk(a["body"]) if x.get("k") == "mcall" and x["callee"] in INPLACE]
                src_loops = [x for x in walk(a["body"]) if x.get("k") == "for" or (x.get("k") == "mcall" and x["name"] == "for_each")]
                in_loop = [any(y is x for lp_ in src_loops for y in walk(lp_)) for x in prim_calls]
                if vname == "Mean":
                    okn = bool(prim_calls) and not any(in_loop)
                    if okn:
                        # its operand list is filled by the walk over the sources
                        arg = strip(prim_calls[0]["args"][0])
                        ah = e4.local_hid(arg)
                        pushes = [y for lp_ in src_loops for y in walk(lp_) if y.get("k") == "mcall" and y["name"] == "push" and e4.local_hid(y["recv"]) == ah]
                        collects = ah is None and any(y.get("k") == "mcall" and y["name"] in ("map", "collect") for y in walk(arg))
                        okn = (ah is not None and len(pushes) == 1) or collects
                    ctx.check("R11.1", "%s:Mean:joint-mean" % inst, okn, "mean-not-taken-jointly-over-all-sources", c.loc(fn, a["body"]),
                              "one mean_inplace over the list of all sources",
                              "the Mean arm is `%s`: the mean must be taken once over the target and all listed sources; folding pairwise weights later sources more" % short(pretty(a["body"]), 200))
                else:
                    ctx.check("R11.1", "%s:%s:per-source" % (inst, vname), bool(prim_calls) and all(in_loop), "primitive-not-applied-per-source", c.loc(fn, a["body"]),
                              "the primitive is applied once per listed source")
            # receivers of the primitives must be the combination target
            for x in walk(a["body"]):
                if x.get("k") == "mcall" and x["callee"] in INPLACE:
                    ctx.check("R11.1", "%s:%s:target" % (inst, vp.split("::")[-1]), pretty(strip(x["recv"])) == tgt, "accumulates-into:" + pretty(strip(x["recv"])), c.loc(fn, x), "combines into `%s`" % tgt)
        texts.append(arms)
    for v in texts[0]:
        if v == "_":
            continue
        ctx.check("R11.1", "siblings:" + v, texts[0].get(v) == texts[1].get(v), "two-copies-differ:" + v, c.loc(fn, ms[1]),
                  "in-loop and output copies of the %s arm agree" % v,
                  "the %s arm differs between the two hand-written copies: `%s` vs `%s`" % (v, short(texts[0].get(v, ""), 120), short(texts[1].get(v, ""), 120)))
    return fn, ms


def _arm_summary(c, body, tgt):
    """what an accumulation arm does, independent of spelling: primitives applied to the target, and how the sources are taken"""
    prims = sorted({x["callee"].split("::")[-1] for x in walk(body) if x.get("k") == "mcall" and x["callee"] in INPLACE and pretty(strip(x["recv"])) == tgt})
    each = any(x.get("k") == "for" for x in walk(body))
    last = any(x.get("k") == "mcall" and x["name"] == "last" for x in walk(body))
    first = any(x.get("k") == "mcall" and x["name"] in ("first", "nth", "get") and "activated" not in pretty(x) for x in walk(body) if x.get("k") == "mcall" and x["name"] in ("first", "nth"))
    assigns = sorted(pretty(strip(x["l"])) == tgt for x in walk(body) if x.get("k") == "assign")
    srcs = len([x for x in walk(body) if x.get("k") == "index" and pretty(strip(x["b"])) == "activated"])
    return (tuple(prims), each, last, first, tuple(assigns), srcs)


def _pretty_renamed(node, name):
    """pretty() with every local called `name` printed as T (compares the two hand-written copies modulo the target's name)"""
    import copy
    n = copy.deepcopy(node)
    for x in walk(n):
        if x.get("k") == "local" and x["name"] == name:
            x["name"] = "T"
    return pretty(n)


def r2(ctx, fn, ms):
    c = ctx.crate
    cf = ctx.fn(FB + "create")
    P = {pat_binds(p)[0][0]: pat_binds(p)[0][1] for p in cf["params"] if pat_binds(p)}
    ins = [x for x in walk(cf["body"]) if x.get("k") == "mcall" and x["name"] == "insert" and pretty(strip(x["recv"])) == "connect"]
    env = {}
    for s in walk(cf["body"]):
        if s.get("k") == "let" and s["pat"].get("k") == "bind" and s["pat"]["name"] == "length":
            env[s["pat"]["hid"]] = Rat.atom("length")
    fors = [x for x in walk(cf["body"]) if x.get("k") == "for" and any(y in ins for y in walk(x["body"]))]
    ok_in = ok_out = False
    got = []
    if len(fors) == 1 and len(ins) == 2:
        lp = fors[0]
        it = strip(lp["iter"])
        iv = pat_binds(lp["pat"])[0][1]
        env[iv] = Rat.atom("i")
        rng = [pretty(strip(b)) for a, b in it["fs"]] if it.get("k") == "struct" else []
        N = e1.Norm(c, env)
        for x in ins:
            key = N.norm(x["args"][0])
            val = pretty(strip(x["args"][1]))
            conds = _enclosing_ifs(cf["body"], x)
            got.append("%s -> %s under %s" % (key, short(val, 40), conds))
            if any(y is x for y in walk(lp["body"])):
                ok_in = key == Rat.atom("i") * Rat.atom("length") and "[0]" in val and conds[-1:] == ["inskips"] and rng == ["1", "loops"]
            else:
                ok_out = key == Rat.atom("loops") * Rat.atom("length") and val == "outputs" and conds[-1:] == ["outskips"]
        pushes = [x for x in walk(lp["body"]) if x.get("k") == "mcall" and x["name"] == "push" and pretty(strip(x["recv"])) == "outputs"]
        ok_out = ok_out and len(pushes) == 1 and N.norm(pushes[0]["args"][0]) == Rat.atom("i") * Rat.atom("length") and _enclosing_ifs(cf["body"], pushes[0])[-1:] == ["outskips"]
    ctx.check("R11.2", "create:input-skips", ok_in, "input-skip-wiring:" + ";".join(got)[:120], c.loc(cf), "{i*length: [0]} for i in 1..loops iff inskips")
    ctx.check("R11.2", "create:output-skips", ok_out, "output-skip-wiring:" + ";".join(got)[:120], c.loc(cf), "{loops*length: [i*length..]} iff outskips")
    # forward: keys
    lp = [x for x in walk(fn["body"]) if x.get("k") == "for" and "self.layers.iter().enumerate()" == pretty(strip(x["iter"]))]
    if len(lp) != 1:
        raise Unestablished("Feedback::forward: no enumerate loop over self.layers", c.loc(fn))
    lp = lp[0]
    ih = pat_binds(lp["pat"])[0][1]
    from .common import map_guard, is_lookup
    first_if = [s for s in top_stmts_of(lp["body"]) if s.get("k") == "if" and any(y is ms[0] for y in walk(s))]
    mg = map_guard(first_if[0], "connect") if len(first_if) == 1 else None
    ok = mg is not None and e4.local_hid(mg["key"]) == ih
    ctx.check("R11.2", "forward:position-key", ok, "in-loop-key", c.loc(fn, lp), "entry i applies to the input of position i")
    n_look = 0
    if mg is not None:
        for a_ in ms[0]["arms"]:
            if e4.arm_variant(a_)[0] == "_":
                continue
            n_look += any(is_lookup(y, "connect", ih, mg["bound"]) for y in walk(a_["body"]))
    ctx.check("R11.2", "forward:position-lookups", n_look == 5, "in-loop-lookups:%d" % n_look, c.loc(fn, ms[0]), "every arm takes its sources from self.connect[i]")
    st = top_stmts_of(fn["body"])
    fin = [s for s in st if s.get("k") == "if" and any(y is ms[1] for y in walk(s))]
    mg2 = map_guard(fin[0], "connect") if len(fin) == 1 else None
    from ..hir import let_table, cpretty
    TT = let_table(fn["body"])
    ok = mg2 is not None and cpretty(mg2["key"], TT) == "self.layers.len()"
    ctx.check("R11.2", "forward:output-key", ok, "output-key:" + (short(pretty(fin[0]["c"]), 60) if fin else "?"), c.loc(fn), "entry layers.len() applies to the block output")
    if mg2 is not None:
        n2 = 0
        for a_ in ms[1]["arms"]:
            if e4.arm_variant(a_)[0] == "_":
                continue
            hit = False
            for y in walk(a_["body"]):
                yy = strip(y)
                if yy.get("k") == "local" and yy["hid"] in mg2["bound"]:
                    hit = True
                if yy.get("k") == "mcall" and yy["name"] == "get" and "self.connect" in pretty(yy["recv"]) and cpretty(yy["args"][0], TT) == "self.layers.len()":
                    hit = True
            n2 += hit
        ctx.check("R11.2", "forward:output-lookups", n2 == 5, "output-lookups:%d" % n2, c.loc(fn, ms[1]), "every arm takes its sources from self.connect[layers.len()]")
    # sources are activated[*idx]
    for k, m in enumerate(ms):
        srcs = [x for x in walk(m) if x.get("k") == "index" and pretty(strip(x["b"])) == "activated"]
        ok = len(srcs) == 5 and all(strip(x["i"]).get("k") in ("local", "mcall", "un") for x in srcs)
        ctx.check("R11.2", "forward#%d:sources-are-activated" % k, ok, "sources:%d" % len(srcs), c.loc(fn, m), "sources read from activated[idx]")
    # `activated` is push/pop only
    ah = None
    for s in st:
        if s.get("k") == "let" and s["pat"].get("k") == "bind" and s["pat"]["name"] == "activated":
            ah = s["pat"]["hid"]
    muts = sorted({x["name"] for x in walk(fn["body"]) if x.get("k") == "mcall" and e4.local_hid(x["recv"]) == ah and (c.tya(x["recv"]) or "").startswith("&mut")})
    writes = [x for x in walk(fn["body"]) if x.get("k") in ("assign", "assignop") and mentions_local(x["l"], ah)]
    ctx.check("R11.2", "activated-is-append-only", set(muts) <= {"push", "pop"} and not writes, "activated-modified:" + ",".join(muts + [short(pretty(w), 40) for w in writes]), c.loc(fn, writes[0]) if writes else c.loc(fn),
              "activated: push/pop only", "`activated` is modified by %s; the recorded outputs that later skips read must not be overwritten with combined inputs" % (muts + [short(pretty(w), 60) for w in writes]))
    pushes = [pretty(strip(x["args"][0])) for x in walk(fn["body"]) if x.get("k") == "mcall" and x["name"] == "push" and e4.local_hid(x["recv"]) == ah]
    ctx.check("R11.2", "activated-holds-outputs", pushes[:2] == ["input.clone()", "post"] and set(pushes[2:]) <= {"last.flatten()", "last"}, "activated-pushes:" + ",".join(pushes), c.loc(fn), "input, then every post")
    return lp


def _enclosing_ifs(root, target):
    from .c13 import enclosing_conditions
    conds = enclosing_conditions(root, target) or []
    return [pretty(strip(i["c"])) for (i, br) in conds if br == "th"]


def r3(ctx, fn, lp):
    c = ctx.crate
    st = top_stmts_of(lp["body"])
    x0 = st[0]
    ok = x0.get("k") == "let" and pretty(strip(x0["init"])) == "activated.last().unwrap().clone()"
    ctx.check("R11.3", "consumes-last-activated", ok, "position-input:" + short(pretty(x0), 60), c.loc(fn, lp), "x = activated.last().unwrap().clone()")
    xh = x0["pat"]["hid"] if ok else None
    lh = pat_binds(lp["pat"])[1][1]
    m = [s for s in walk(lp["body"]) if s.get("k") == "match" and e4.local_hid(s["scrut"]) == lh]
    if len(m) != 1:
        raise Unestablished("no match on the layer", c.loc(fn, lp))
    for arm in m[0]["arms"]:
        vp, b = e4.arm_variant(arm)
        kind = vp.split("::")[-1]
        if kind == "Feedback" or not b:
            continue
        fw = [y for y in walk(arm["body"]) if y.get("k") == "mcall" and y["name"] == "forward"]
        asrt = [y for y in walk(arm["body"]) if y.get("mac") == "assert_eq_shape" and y.get("k") == "if"]
        ok = (len(fw) == 1 and e4.local_hid(fw[0]["args"][0]) == xh and e4.local_hid(fw[0]["recv"]) == b[0][1] and len(asrt) == 1
              and sorted([pretty(strip(strip(asrt[0]["c"])["l"])), pretty(strip(strip(asrt[0]["c"])["r"]))]) == sorted(["%s.inputs" % b[0][0], "x.shape"]))
        ctx.check("R11.3", "position:" + kind, ok, "position-arm:" + kind, c.loc(fn, arm["body"]), "assert shape; layer.forward(&x)")
    t = pretty(lp["body"])
    ctx.check("R11.3", "records", "unactivated.push(pre)" in t and "activated.push(post)" in t and "maxpools.push(max)" in t, "recording", c.loc(fn, lp), "push pre, post, max")
    full = pretty(fn["body"])
    ok = "if self.flatten { activated.push(last.flatten()) } else { activated.push(last) }" in full and "let last = activated.pop().unwrap()" in full
    ctx.check("R11.3", "flatten-iff-flag", ok, "flatten-handling", c.loc(fn), "output flattened iff self.flatten")
    tail = strip(top_stmts_of(fn["body"])[-1])
    got = [pretty(strip(z)) for z in tail["xs"]] if tail.get("k") == "tup" else []
    ok = got[:2] == ["unactivated[0].clone()", "activated[(activated.len() - 1)].clone()"]
    ctx.check("R11.3", "reports-first-pre-and-final-output", ok, "block-result:" + ",".join(got)[:80], c.loc(fn), "(unactivated[0], activated[last], ..)")
    # Network::feedback builds the block from the descriptions in order, chaining shapes
    nf = ctx.fn("network::Network::feedback")
    t = pretty(nf["body"])
    ok = "for layer in layers.iter()" in t and "feedback::Feedback::create(_layers, loops, inskips, outskips, accumulation)" in t
    ctx.check("R11.3", "construction", ok, "block-construction", c.loc(nf), "Feedback::create(_layers, loops, inskips, outskips, accumulation)")


def run(ctx):
    r = ctx.guard("R11.1", "dispatch", r1, ctx)
    ctx.guard("R11.1", "primitives", primitives, ctx, "R11.1")
    if r:
        lp = ctx.guard("R11.2", "wiring", r2, ctx, *r)
        if lp:
            ctx.guard("R11.3", "chaining", r3, ctx, r[0], lp)
    ctx.floor("R11.1", 10 + 2 + 5 + 1, "")
    ctx.floor("R11.2", 10, "")
    ctx.floor("R11.3", 9, "")
