"""C16 - skip connections."""
from ..core import Unestablished
from ..hir import walk, strip, pretty, short, calls, children, pat_binds
from .. import e4
from .common import *

LEVEL = "other"
RULES = {
    "R16.1": "Network::connect: the key tested by the duplicate guard (contains_key -> panic) is the key inserted into the "
             "target->source map, and a source already registered is rejected (the backward pass inverts the map, which "
             "is only lossless when sources are pairwise distinct)",
    "R16.2": "Network::forward: when the tensor handed to the layer was modified after being read from `activated` "
             "(skip accumulation), it is written back to `activated` before use, because Network::backward reads "
             "activated[idx] as that layer's input",
    "R16.3": "skip block of Network::forward: guard key = loop index = lookup key; source tensor is activated[connect[i]], "
             "reshaped to the target's shape when shapes differ; each Accumulation arm uses its own primitive "
             "(Add->add_inplace, Subtract->sub_inplace, Multiply->mul_inplace, Mean->mean_inplace, Overwrite->assignment)",
    "R16.4": "Network::backward: the map is inverted as {source: target}; for a source layer the input gradient of the "
             "target (gradients[len - target]) is added, reshaped to the source's gradient shape",
    "R16.5": "Network::connect compares the element counts of the two layers' inputs, indexing layers[infrom] and "
             "layers[into] respectively, and rejects unequal counts",
}
RULES["R16.6"] = "tensors crossing a connection are re-shaped by Tensor::reshape / flatten: count assertion first, row-major rebuild (R14.1/R14.2 re-run under this property)"
RULES["R16.3"] += " | a Mean arm written as add + division must divide by the number of tensors combined"
RULES["R16.1"] += " | guards are taken from the path conditions of the insert (panicking guard clauses, else-if chains, enclosing branches; negations and disjunctions split into atoms)"
ASSUMPTIONS = ["connections are registered through Network::connect (the map is a pub field; direct mutation is outside the property)",
               "values are not decided: only which tensors are combined, with which primitive, under which key"]
TRUSTED = ["rustc nightly front end", "driver/src/main.rs", "sa/e4.py"]



def hm(callee, name):
    return callee.startswith("std::collections::HashMap::") and callee.endswith("::" + name)


def _self_field(n, field):
    n = strip(n)
    return (n is not None and n.get("k") == "field" and n["f"] == field and strip(n["b"]).get("k") == "local"
            and strip(n["b"])["name"] == "self")


def key_agreement(ctx, rule, fnpath, field, inst, need_source_guard):
    c = ctx.crate
    fn = ctx.fn(fnpath)
    inserts = [x for x in walk(fn["body"]) if x.get("k") == "mcall" and hm(x["callee"], "insert") and _self_field(x["recv"], field)]
    if len(inserts) != 1:
        raise Unestablished("%s: expected exactly one insert into self.%s, found %d" % (fnpath, field, len(inserts)), c.loc(fn))
    ins = inserts[0]
    khid = e4.local_hid(ins["args"][0])
    if khid is None:
        raise Unestablished("inserted key is not a plain local: " + pretty(ins["args"][0]), c.loc(fn, ins))
    # conditions known false when the insert is reached (panicking guard clauses before it, enclosing branches)
    pcs = e4.path_conditions(c, fn["body"], ins) or []
    pcs = [it for it in pcs if it["kind"] == "if" or it.get("panics")]
    guards = [a for (a, pol, _) in e4.atoms_of(pcs) if not pol]
    checked = []
    for g in guards:
        for x in walk(g):
            if x.get("k") == "mcall" and (hm(x["callee"], "contains_key") or hm(x["callee"], "get")) and _self_field(x["recv"], field):
                checked.append(e4.local_hid(x["args"][0]))
    kname = strip(ins["args"][0])["name"]
    names = {p["hid"]: p["name"] for p in fn["params"] if p.get("k") == "bind"}
    ctx.check(rule, inst + ":duplicate-guard-key", khid in checked,
              "guard-key-differs-from-inserted-key:" + ",".join(sorted(names.get(h, "?") for h in checked)) , c.loc(fn, ins),
              "contains_key(&%s) guards insert(%s, ..)" % (kname, kname),
              "self.%s.insert(%s, ..) is guarded by contains_key on %s: an existing entry for `%s` is silently replaced, "
              "and unrelated connections are rejected" % (field, kname, [names.get(h, "?") for h in checked] or "nothing", kname))
    if need_source_guard:
        vhid = e4.local_hid(ins["args"][1])
        found = False
        for g in guards:
            if not mentions_field(g, field):
                continue
            for x in walk(g):
                if x.get("k") == "bin" and x["op"] == "Eq" and (e4.local_hid(x["l"]) == vhid or e4.local_hid(x["r"]) == vhid):
                    found = True
                if x.get("k") == "mcall" and x["name"] == "contains" and x["args"] and e4.local_hid(x["args"][0]) == vhid:
                    found = True
        # alternatively the backward pass keeps a multimap
        bfn = c.fn("network::Network::backward")
        multimap = False
        if bfn is not None:
            for x in walk(bfn["body"]):
                if x.get("k") == "let" and x["init"] is not None and "HashMap" in (c.ty(x["init"]) or "") and "Vec<" in (c.ty(x["init"]) or ""):
                    multimap = True
        ctx.check(rule, inst + ":duplicate-source", found or multimap, "duplicate-source-accepted", c.loc(fn, ins),
                  "a source registered twice is rejected (or the backward map is a multimap)",
                  "two connections from the same source are accepted, but Network::backward inverts the map into "
                  "{source: target}, keeping only one of them: the source's input gradient misses a term")


def r2(ctx):
    c = ctx.crate
    fn = ctx.fn("network::Network::forward")
    bfn = ctx.fn("network::Network::backward")
    # backward reads activated[idx] as the layer input
    reads = [x for x in walk(bfn["body"]) if x.get("k") == "index" and strip(x["b"]).get("k") == "local" and strip(x["b"])["name"] == "activated"]
    if not reads:
        raise Unestablished("Network::backward does not read `activated[..]`; the stored-input rule does not apply as written", c.loc(bfn))
    # the layer loop and the _forward(&x, i, i+1) call
    loops = [x for x in walk(fn["body"], into_closures=False) if x.get("k") == "for" and any(cal == "network::Network::_forward" for _, cal in calls(x["body"]))]
    if not loops:
        raise Unestablished("no layer loop calling _forward in Network::forward", c.loc(fn))
    lp = loops[0]
    stmts = top_stmts_of(lp["body"])
    fcall = None
    for i, s in enumerate(stmts):
        for x in walk(s):
            if x.get("k") == "mcall" and x["callee"] == "network::Network::_forward":
                fcall = (i, x)
                break
        if fcall:
            break
    xi, call = fcall
    xh = e4.local_hid(call["args"][0])
    if xh is None:
        raise Unestablished("first argument of _forward is not a local", c.loc(fn, call))
    ah = None
    for s in top_stmts_of(fn["body"]):
        if s.get("k") == "let":
            for nm, h in pat_binds(s["pat"]):
                if nm == "activated":
                    ah = h
    if ah is None:
        raise Unestablished("no local `activated` in forward", c.loc(fn))

    def mutates_x(n):
        if n.get("k") == "mcall" and e4.local_hid(n["recv"]) == xh and c.tya(n["recv"]).startswith("&mut"):
            return True
        if n.get("k") in ("assign", "assignop") and e4.local_hid(n["l"]) == xh:
            return True
        return False

    def writeback(n):
        if n.get("k") != "assign":
            return False
        return mentions_local(n["l"], ah) and mentions_local(n["r"], xh)

    n_sites = 0
    for s in stmts[:xi]:
        muts = [x for x in walk(s) if mutates_x(x)]
        if not muts:
            continue
        n_sites += 1
        # on every path through this statement that mutated x, a write-back must follow the mutation
        class P:
            pass
        outs = e4.outcomes(c, s, writeback)
        mut_outs = e4.outcomes(c, s, mutates_x)
        # paths that mutate but never write back
        wb_nodes = [x for x in walk(s) if writeback(x)]
        ok = bool(wb_nodes)
        if ok:
            # the write-back must be a later statement in the same block as (or after) the mutations:
            # check order by pre-order position
            order = {id(x): i for i, x in enumerate(walk(s))}
            last_mut = max(order[id(m)] for m in muts)
            first_wb = min(order[id(w)] for w in wb_nodes)
            # and it must be hit on every path that falls through the block holding the mutations
            blk = _innermost_block_containing_all(s, muts)
            o = e4.outcomes(c, blk, writeback)
            ok = first_wb > last_mut - 10 ** 9 and all(cnt >= 1 for (k, cnt) in o if k == e4.FALL) and order[id(wb_nodes[-1])] > last_mut
        ctx.check("R16.2", "skip-input-written-back", ok, "modified-input-not-stored", c.loc(fn, muts[0]),
                  "%d mutation(s) of the layer input, written back to `activated` afterwards" % len(muts),
                  "`%s` is modified after being cloned from `activated` (%s) and then passed to _forward, but `activated` keeps the "
                  "unmodified tensor; Network::backward uses activated[idx] as this layer's input, so the weight gradient of the "
                  "target layer ignores the skipped-in part" % (strip(call["args"][0])["name"], short(pretty(muts[0]), 60)))
    if n_sites == 0:
        ctx.ok("R16.2", "skip-input-written-back", "the layer input is not modified between load and use", c.loc(fn, call))


def _innermost_block_containing_all(root, nodes):
    best = root
    ids = {id(n) for n in nodes}
    for x in walk(root):
        if x.get("k") in ("blk", "block"):
            inside = {id(y) for y in walk(x)}
            if ids <= inside:
                best = x
    return best


def r3(ctx):
    """forward skip connections, decided on the E6 summary of Network::forward.  For every way through one layer visit i:
       - whether a skip is combined is decided by the presence of an entry for i in self.connect (and by nothing else);
       - without one, the layer receives the last recorded activation unchanged;
       - with one, the source is activated[connect[i]], used as is when its shape equals the input's and reshaped to the input's shape
         otherwise (or always reshaped), combined by exactly the primitive of self.skipaccumulation (Overwrite: the source replaces the
         input; Mean: mean_inplace over [source]), the combined tensor is what _forward receives AND what is stored back as the
         layer's recorded input."""
    from .. import e6
    c = ctx.crate
    fn = ctx.fn("network::Network::forward")
    E = e6.Exec(c, fn)
    live = [p for p in E.run_fn() if p.exit is None or p.exit[0] == "return"]
    if len(live) != 1:
        raise Unestablished("Network::forward: expected one non-panicking path, found %d" % len(live), c.loc(fn))
    walks = [e for e in live[0].eff if e[0] == "loop" and E.loop_summaries[e[1]].get("kind") == "for"
             and e6.find_terms(tuple(q.eff for q in E.loop_summaries[e[1]]["paths"]), lambda t: t[0] == "call" and t[1] == "network::Network::_forward")]
    if len(walks) != 1:
        raise Unestablished("expected one layer loop calling _forward in Network::forward, found %d" % len(walks), c.loc(fn))
    lid = walks[0][1]
    L = E.loop_summaries[lid]
    where = c.loc(fn, L["node"])
    I = ("elem", L["iter"], lid)
    CON = ("field", ("p", "self"), "connect")
    ACCF = ("field", ("p", "self"), "skipaccumulation")
    val = live[0].val if live[0].exit is None else live[0].exit[1]
    act_n = e6.root_name(val[1][1]) if isinstance(val, tuple) and val and val[0] == "tup" and len(val[1]) == 4 else "activated"
    ACT = ("loopin", act_n, lid)
    X0 = ("call", "std::option::Option::<T>::unwrap", (("call", "core::slice::<impl [T]>::last", (ACT,)),))
    X0alts = {X0, ("idx", ACT, e6.mk_bin("Sub", ("call", "std::vec::Vec::<T, A>::len", (ACT,)), ("lit", "1")))}
    PRIM = {"Add": "tensor::Tensor::add_inplace", "Subtract": "tensor::Tensor::sub_inplace", "Multiply": "tensor::Tensor::mul_inplace", "Mean": "tensor::Tensor::mean_inplace"}
    res = {}

    def note(key, ok, detail=""):
        res.setdefault(key, []).append((ok, detail))
    seen_v = {}
    n_skip = n_plain = 0
    for q in L["paths"]:
        if q.exit is not None and q.exit[0] == "panic":
            continue
        fw = e6.find_terms(tuple(q.eff), lambda t: t[0] == "call" and t[1] == "network::Network::_forward" and len(t[2]) == 4 and e6.lin(t[2][2]) == e6.lin(I))
        if not fw:
            note("guard", False, "a layer visit does not run the layer")
            continue
        XARG = fw[0][2][1]
        has = None
        key_ok = True
        SRCI = None
        for (t, pol) in q.pc:
            ck = e6.is_call(t, "contains_key", 2)
            if ck and ck[0] == CON:
                has = pol
                key_ok = key_ok and e6.lin(ck[1]) == e6.lin(I)
                SRCI = ("idx", CON, I)
            if isinstance(t, tuple) and t[0] == "is" and t[2] in ("Option::Some", "Option::None"):
                g = e6.is_call(t[1], "get", 2)
                if g and g[0] == CON:
                    has = pol if t[2] == "Option::Some" else (not pol)
                    key_ok = key_ok and e6.lin(g[1]) == e6.lin(I)
                    SRCI = ("payload", t[1], "Option::Some", 0)
        uses_connect = e6.contains(tuple(q.eff), CON)
        if has is None:
            if uses_connect:
                note("guard", False, "a visit reads self.connect without testing for an entry")
            has = False
        note("guard", key_ok, "the entry looked up is not the one of the layer index")
        wb = [e for e in q.eff if e[0] == "set" and e6.contains(e[1], ("local", act_n))]
        if not has:
            n_plain += 1
            note("plain", XARG in X0alts and not wb, "without a skip the layer receives %s" % e6.show(XARG, 3)[:100])
            continue
        n_skip += 1
        A = ("idx", ACT, SRCI)
        note("source", e6.contains(XARG, A) or e6.contains(XARG, ("idx", ACT, ("un", "Deref", SRCI))), "skip source: %s" % e6.show(XARG, 3)[:120])
        A_ = A if e6.contains(XARG, A) else ("idx", ACT, ("un", "Deref", SRCI))
        RS = ("call", "tensor::Tensor::reshape", (A_, ("field", X0, "shape")))
        same = None
        for (t, pol) in q.pc:
            if isinstance(t, tuple) and t[0] == "bin" and t[1] == "Eq" and {t[2], t[3]} == {("field", X0, "shape"), ("field", A_, "shape")}:
                same = pol
        if same is True:
            SKs = [A_, RS]
        elif same is False:
            SKs = [RS]
        else:
            SKs = [RS]
        V = None
        for (t, pol) in q.pc:
            if pol and isinstance(t, tuple) and t[0] == "is" and t[1] == ACCF:
                V = t[2].split("::")[-1]
        if V is None:
            note("dispatch", False, "a skip is combined without consulting self.skipaccumulation")
            continue
        seen_v.setdefault(V, []).append(same)
        good = False
        for SK in SKs:
            if V in ("Add", "Subtract", "Multiply"):
                want = ("upd", X0, PRIM[V] + "@" + e6.show(("local", "x")), (SK,))
                good = good or (isinstance(XARG, tuple) and XARG[0] == "upd" and XARG[1] in X0alts and XARG[2].startswith(PRIM[V] + "@") and XARG[3] == (SK,))
            elif V == "Mean":
                good = good or (isinstance(XARG, tuple) and XARG[0] == "upd" and XARG[1] in X0alts and XARG[2].startswith(PRIM[V] + "@") and XARG[3] == (("vec", (SK,)),))
            elif V == "Overwrite":
                good = good or XARG == SK
        prim_used = sorted({e[1].rsplit("::", 1)[-1] for e in q.eff if e[0] == "mut" and e[1] in PRIM.values()})
        note("arm:" + V, good, "%s: the layer receives %s (reshape decided: %s)" % (V, e6.show(XARG, 3)[:140], same))
        note("reshape", same is not None or good, "the source is neither compared by shape nor reshaped")
        note("writeback", len(wb) >= 1 and all(e[2] == XARG for e in wb), "stored back: %s" % [e6.show(e[2], 2)[:60] for e in wb])
    def verdict(key):
        r_ = res.get(key, [])
        return bool(r_) and all(x[0] for x in r_), next((x[1] for x in r_ if not x[0]), "")
    ok, why = verdict("guard")
    ctx.check("R16.3", "guard-key-is-layer-index", ok and n_skip > 0 and n_plain > 0, "guard-key-not-layer-index:" + short(why, 60), where,
              "the skip block is entered iff self.connect has an entry for the layer index i", why)
    ok, why = verdict("plain")
    ctx.check("R16.3", "no-skip-no-change", ok, "input-changed-without-skip:" + short(why, 60), where, "without an entry the layer input is the last activation", why)
    ok, why = verdict("source")
    ctx.check("R16.3", "source-is-activated[connect[i]]", ok, "source-tensor-not-activated[connect[i]]", where, "source = activated[self.connect[&i]]", why)
    ok, why = verdict("reshape")
    both = any(True in v for v in seen_v.values()) and any(False in v for v in seen_v.values()) or all(None in v for v in seen_v.values())
    ctx.check("R16.3", "reshape-when-shapes-differ", ok and bool(seen_v) and both, "no-reshape-on-shape-mismatch", where, "if _x.shape != x.shape { reshape }", why)
    acc = c.adts.get("feedback::Accumulation")
    for v in [v_["name"] for v_ in acc["variants"]]:
        ok, why = verdict("arm:" + v)
        if v not in seen_v:
            ctx.bad("R16.3", "skip-dispatch:" + v, "accumulation-variant-not-handled", where, "no way through the skip block handles %s" % v)
        else:
            ctx.check("R16.3", "skip-dispatch:" + v, ok, "wrong-primitive-or-operand:" + short(why, 80), where, "%s combines input and source with its own primitive" % v,
                      "skip accumulation %s" % why)
    ok, why = verdict("dispatch")
    ctx.check("R16.3", "dispatch-on-skipaccumulation", ("dispatch" not in res or ok) and bool(seen_v), "dispatch-on-wrong-setting:" + short(why, 60), where, "match self.skipaccumulation")
    ok, why = verdict("writeback")
    ctx.check("R16.2", "skip-input-written-back:every-path", ok, "modified-input-not-stored:" + short(why, 60), where,
              "the combined tensor replaces the layer's recorded input", "Network::forward: %s; Network::backward uses activated[idx] as this layer's input" % why)


def r4(ctx):
    c = ctx.crate
    fn = ctx.fn("network::Network::backward")
    # inversion loop: for (key, value) in self.connect.iter() { connect.insert(value, key) }
    inv = None
    for x in walk(fn["body"], into_closures=False):
        if x.get("k") == "for" and mentions_field(x["iter"], "connect"):
            inv = x
    if inv is None:
        # `self.connect.iter().map(|(to, from)| (from, to)).collect()` into a map
        okm = False
        node_ = None
        for x in walk(fn["body"], into_closures=False):
            if x.get("k") == "mcall" and x["name"] == "collect" and mentions_field(x, "connect") and (c.ty(x) or "").startswith("std::collections::HashMap<"):
                mp = strip(x["recv"])
                if mp.get("k") == "mcall" and mp["name"] == "map" and len(mp["args"]) == 1 and strip(mp["recv"]).get("k") == "mcall" and strip(mp["recv"])["name"] == "iter":
                    cl = strip(mp["args"][0])
                    pb = pat_binds(cl["params"][0]) if cl.get("k") == "closure" and len(cl["params"]) == 1 else []
                    bd = strip(cl["body"]) if cl.get("k") == "closure" else None
                    if len(pb) == 2 and bd is not None and bd.get("k") == "tup" and [e4.local_hid(z) for z in bd["xs"]] == [pb[1][1], pb[0][1]]:
                        okm, node_ = True, x
        if node_ is None:
            raise Unestablished("no inversion of self.connect in backward (neither an insert loop nor iter().map(swap).collect())", c.loc(fn))
        ctx.check("R16.4", "map-inverted", okm, "map-not-inverted", c.loc(fn, node_), "{to: from} -> {from: to}")
    else:
        binds = pat_binds(inv["pat"])
        ins = [y for y in walk(inv["body"]) if y.get("k") == "mcall" and hm(y["callee"], "insert")]
        ok = len(binds) == 2 and len(ins) == 1 and [e4.local_hid(a) for a in ins[0]["args"]] == [binds[1][1], binds[0][1]]
        ctx.check("R16.4", "map-inverted", ok, "map-not-inverted", c.loc(fn, inv), "{to: from} -> {from: to}",
                  "expected insert(value, key) over self.connect.iter(): " + short(pretty(inv), 160))
    # use site: `if connect.contains_key(&idx) {..connect[&idx]..}` or `if let Some(to) = connect.get(&idx) {..}` on the inverted (local) map
    adds = []
    for x in walk(fn["body"]):
        if x.get("k") != "if":
            continue
        cn = strip(x["c"])
        if cn.get("k") == "letx":
            init = strip(cn["init"])
            if init.get("k") == "mcall" and hm(init["callee"], "get") and strip(init["recv"]).get("k") == "local":
                adds.append((x, init["args"][0], {h for (_, h) in pat_binds(cn["pat"])}))
        elif cn.get("k") == "mcall" and hm(cn["callee"], "contains_key") and strip(cn["recv"]).get("k") == "local":
            adds.append((x, cn["args"][0], set()))
    if len(adds) != 1:
        raise Unestablished("expected one lookup of the current layer in the inverted skip map in backward", c.loc(fn))
    a, keyn, bound = adds[0]
    idxh = e4.local_hid(keyn)
    # gradients[self.layers.len() - *connect[&idx]]
    g2 = [y for y in walk(a["th"]) if y.get("k") == "index" and strip(y["b"]).get("k") == "local" and strip(y["b"])["name"] == "gradients"]
    okg = False
    for y in g2:
        i = strip(y["i"])
        if i.get("k") == "bin" and i["op"] == "Sub":
            from ..hir import let_table, cpretty
            TT = let_table(fn["body"])
            l, r = strip(i["l"]), strip(i["r"])
            l_ok = cpretty(l, TT) == "self.layers.len()"
            r_ok = (r.get("k") == "index" and e4.local_hid(r["i"]) == idxh) or (r.get("k") == "local" and r["hid"] in bound)
            okg = okg or (l_ok and r_ok)
    ctx.check("R16.4", "target-gradient-index", okg, "wrong-gradient-index", c.loc(fn, a),
              "gradients[layers.len() - connect[idx]] = input gradient of the target",
              "skip gradient taken from %s" % [short(pretty(y), 80) for y in g2])
    used = {cal for (_, cal) in calls(a["th"]) if cal in INPLACE}
    ctx.check("R16.4", "gradient-added", used == {T + "add_inplace"}, "gradient-not-added:" + ",".join(sorted(u.split("::")[-1] for u in used)),
              c.loc(fn, a), "gradient.add_inplace(..)")
    ctx.check("R16.4", "gradient-reshaped", any(cal == T + "reshape" for _, cal in calls(a["th"])), "gradient-not-reshaped", c.loc(fn, a),
              "reshaped to the source gradient's shape")
    # the add must precede pushing the gradient
    where = c.loc(fn, a)
    holder = None
    for x in walk(fn["body"]):
        if x.get("k") == "block" and any(s is a for s in x["stmts"]):
            holder = x
    if holder is not None:
        ia = [i for i, s in enumerate(holder["stmts"]) if s is a][0]
        pushes = [i for i, s in enumerate(holder["stmts"]) if any(y.get("k") == "mcall" and y["name"] == "push" and e4.local_hid(y["recv"]) is not None
                  and strip(y["recv"])["name"] == "gradients" for y in walk(s))]
        ctx.check("R16.4", "added-before-push", bool(pushes) and min(pushes) > ia, "gradient-pushed-before-skip-add", where, "skip gradient added before gradients.push")


def r5_e6(ctx):
    """R16.5 on the E6 summary of Network::connect: on every way through that accepts the connection, the path facts contain an equality whose
    two sides are the element counts of `layers[infrom]`'s and `layers[into]`'s own `inputs` shapes (Single(n) -> n, Triple(c, h, w) -> c*h*w) for the
    variants that path is about; a path without such a test, or comparing anything else, fails.  -> (ok, detail, number of accepting paths)"""
    from .. import e6
    c = ctx.crate
    fn = ctx.fn("network::Network::connect")
    E = e6.Exec(c, fn)
    live = [p for p in E.run_fn() if p.exit is None or p.exit[0] == "return"]
    SELF = ("p", "self")
    LAYERS = ("field", SELF, "layers")
    n = 0
    for p in live:
        want = []
        for idx in ("infrom", "into"):
            L = ("idx", LAYERS, ("p", idx))
            var = [t[2] for (t, pol) in p.pc if pol and isinstance(t, tuple) and t[0] == "is" and t[1] == L]
            if len(var) != 1:
                return False, "an accepting path does not dispatch on layers[%s]" % idx, n
            INP = ("field", ("payload", L, var[0], 0), "inputs")
            shp = [t[2] for (t, pol) in p.pc if pol and isinstance(t, tuple) and t[0] == "is" and t[1] == INP]
            if len(shp) != 1:
                return False, "an accepting path does not look at layers[%s]'s `inputs` shape" % idx, n
            k = {"tensor::Shape::Single": 1, "tensor::Shape::Triple": 3}.get(shp[0])
            if k is None:
                return False, "an accepting path takes a size from a %s shape" % shp[0].split("::")[-1], n
            q = {tuple(sorted(repr(("payload", INP, shp[0], i)) for i in range(k))): 1}
            want.append(q)
        eqs = []
        for (t, pol) in p.pc:
            while isinstance(t, tuple) and t and t[0] == "un" and t[1] == "Not":
                t, pol = t[2], not pol
            if isinstance(t, tuple) and t and t[0] == "bin" and ((t[1] == "Eq" and pol) or (t[1] == "Ne" and not pol)):
                eqs.append((e6.poly(t[2]), e6.poly(t[3])))
        if not any((a == want[0] and b == want[1]) or (a == want[1] and b == want[0]) for a, b in eqs):
            return False, "an accepting path does not require the two element counts to be equal (%s)" % "; ".join(e6.show(t, 2) for (t, _) in p.pc[-2:])[:160], n
        n += 1
    return n >= 8, "%d accepting paths" % n, n


def r5(ctx):
    sub = type(ctx)(ctx.prop, ctx.facts)
    sub.guard("R16.5", "connect-sizes", r5_shape, sub)
    bad = [o for o in sub.obligations if o["status"] != "ok"]
    if bad:
        try:
            ok, detail, n = r5_e6(ctx)
        except Exception:  # noqa
            ok = False
        if ok:
            c = ctx.crate
            where = c.loc(ctx.fn("network::Network::connect"))
            for inst in ("both-layers-inspected", "reads-inputs:from", "reads-inputs:to", "counts-compared"):
                ctx.ok("R16.5", inst, "established on the effect summary of connect: %s each compare the element counts of layers[infrom].inputs and layers[into].inputs" % detail, where)
            return
    ctx.obligations.extend(sub.obligations)


def r5_shape(ctx):
    c = ctx.crate
    fn = ctx.fn("network::Network::connect")
    params = {p["name"]: p["hid"] for p in fn["params"] if p.get("k") == "bind"}
    lets = [s for s in top_stmts_of(fn["body"]) if s.get("k") == "let" and s["init"] is not None and strip(s["init"]).get("k") == "match"]
    sides = {}
    for s in lets:
        m = strip(s["init"])
        scr = strip(m["scrut"])
        if scr.get("k") == "index" and _self_field(scr["b"], "layers"):
            sides[pat_binds(s["pat"])[0][0]] = (e4.local_hid(scr["i"]), m, pat_binds(s["pat"])[0][1])
    idx_used = sorted(h for (h, _, _) in sides.values())
    ctx.check("R16.5", "both-layers-inspected", len(sides) == 2 and idx_used == sorted([params.get("infrom"), params.get("into")]),
              "sizes-not-taken-from-both-layers", c.loc(fn), "sizes from layers[infrom] and layers[into]",
              "element counts are taken from %s" % idx_used)
    # every arm reads `.inputs`
    for nm, (h, m, lh) in sides.items():
        arms_ok = True
        for a in m["arms"]:
            outs = e4.outcomes(c, a["body"], lambda n: False)
            if not outs:
                continue
            if not mentions_field(a["body"], "inputs"):
                arms_ok = False
        ctx.check("R16.5", "reads-inputs:" + nm, arms_ok, "size-not-from-inputs", c.loc(fn, m), "every arm measures `.inputs`")
    # assert_eq!(from, to)
    eqs = [x for x in walk(fn["body"]) if x.get("mac") in ("assert_eq", "assert_eq_shape") and x.get("k") == "match"]
    hs = {lh for (_, _, lh) in sides.values()}
    found = any(all(mentions_local(x, h) for h in hs) for x in eqs) if len(hs) == 2 else False
    ctx.check("R16.5", "counts-compared", found, "element-counts-not-compared", c.loc(fn), "assert_eq!(from, to)")


def reshape_helpers(ctx, rule):
    """values cross a skip / loop connection through Tensor::reshape / flatten: both keep the row-major element sequence (C14's R14.1/R14.2 re-run)"""
    from . import c14
    sub = type(ctx)(ctx.prop, ctx.facts)
    sub.guard("R14.1", "reshape", c14.r1_r2_reshape, sub)
    sub.guard("R14.2", "flatten", c14.r2_flatten, sub)
    bad = [o for o in sub.obligations if o["status"] != "ok"]
    for o in bad:
        ctx.bad(rule, "reshape:" + o["instance"], o["key"].split("/", 3)[-1], o["where"], o["detail"])
    ctx.check(rule, "reshape-is-row-major", not bad and len(sub.obligations) >= 9, "reshape-broken", "src/tensor.rs",
              "%d facts: reshape asserts the element count and rebuilds in row-major order; flatten / get_flat / get_triple are row-major" % len(sub.obligations))


RULES["R16.5"] += " | E6 fall-back: on every accepting path of connect the path facts contain an equality between the element counts of layers[infrom].inputs and layers[into].inputs (Single(n) -> n, Triple(c,h,w) -> c*h*w)"

def skip_gradient_scale(ctx):
    """`the skip gradient reaches the source unscaled`: the only scale a layer's backward applies is 1/loops, and `loops` is written by
    Network::loopback alone - a skip connection never changes it (C01's R01.9 facts re-run under this property)"""
    from . import c01
    sub = type(ctx)(ctx.prop, ctx.facts)
    sub.guard("R01.9", "scale-factors", c01.r9, sub)
    bad = [o for o in sub.obligations if o["status"] != "ok"]
    for o in bad:
        ctx.bad("R16.4", "scale:" + o["instance"], o["key"].split("/", 3)[-1], o["where"], o["detail"])
    ctx.check("R16.4", "gradient-scale", not bad and len(sub.obligations) >= 7, "skip-gradient-scaled", "src/network.rs", "%d facts: `loops` is written only by loopback" % len(sub.obligations))


def connect_always_stores(ctx):
    """`never silently discards`: every way through Network::connect that returns normally has stored the connection `into -> infrom` in
    self.connect exactly once (a request is either rejected with a panic or honoured)"""
    from .. import e6
    c = ctx.crate
    fn = ctx.fn("network::Network::connect")
    E = e6.Exec(c, fn)
    live = [p for p in E.run_fn() if p.exit is None or p.exit[0] == "return"]
    ok = bool(live)
    why = ""
    for p in live:
        ins = [e for e in p.eff if e[0] == "mut" and e[1].endswith("::insert") and isinstance(e[2], tuple) and e[2][0] == "field" and e[2][2] == "connect"]
        good = len(ins) == 1 and len(ins[0][3]) == 2 and ins[0][3][0] == ("p", "into") and ins[0][3][1] == ("p", "infrom")
        if not good:
            ok = False
            why = "a returning path stores %d connection(s) [%s]" % (len(ins), "; ".join(e6.show(t, 2) for (t, pol) in p.pc if pol)[:100])
    ctx.check("R16.1", "connect:every-accepted-request-stored", ok and len(live) >= 8, "connection-silently-dropped:" + __import__("re").sub(r"#\w+", "", short(why, 70)), c.loc(fn),
              "every returning path inserts (into -> infrom) once (%d paths)" % len(live),
              "Network::connect: %s; a skip connection that is requested must be applied or rejected, never ignored" % why)


def run(ctx):
    ctx.guard("R16.1", "connect-stores", connect_always_stores, ctx)
    ctx.guard("R16.4", "gradient-scale", skip_gradient_scale, ctx)
    from .common import accumulation_setter
    ctx.guard("R16.3", "accumulation-setter", accumulation_setter, ctx, "R16.3")
    ctx.guard("R16.6", "reshape", reshape_helpers, ctx, "R16.6")
    ctx.guard("R16.1", "connect", key_agreement, ctx, "R16.1", "network::Network::connect", "connect", "connect", True)
    ctx.guard("R16.2", "forward", r2, ctx)
    ctx.guard("R16.3", "forward-skip", r3, ctx)
    ctx.guard("R16.4", "backward", r4, ctx)
    ctx.guard("R16.5", "connect-sizes", r5, ctx)
    from .c11 import primitives
    ctx.guard("R16.3", "primitives", primitives, ctx, "R16.3")
    ctx.floor("R16.3", 10, "3 wiring facts + 5 accumulation arms + dispatch field")
