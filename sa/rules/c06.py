"""C06 - objective functions: documented loss and gradient, clamp, derivative, finiteness."""
from fractions import Fraction as Fr

from ..core import Unestablished
from ..hir import walk, strip, pretty, short, calls, pat_binds
from .. import e1, e2, e4, arms
from ..e1 import Rat, fn_atom, r_abs, r_sqrt, ite, cmp_atom, rewrite, diff
from ..e2 import AV, INF
from ..extract import Unrecognised

LEVEL = "other"
RULES = {
    "R06.1": "loss = documented formula: the reduction runs over the zipped flattened (target, prediction) pairs (every pair once, "
             "in order) and the summand / outer expression equal the documented ones in canonical rational form (sum treated as linear)",
    "R06.2": "gradient: the Single and Triple arms traverse aligned elements of (target, prediction) and reduce to the same "
             "per-element expression, which equals the documented gradient; the result is built with Tensor::single/triple from "
             "those elements, so it has the prediction's shape",
    "R06.3": "for AE, MSE, BCE, KL the per-element gradient equals the symbolic derivative of the loss summand with respect to the "
             "(clamped) prediction (derivative table; |x|' = sgn x with 0 at 0, decided case-wise)",
    "R06.4": "every return path goes through `match self.clamp`; the Some((min,max)) arm returns gradient.clamp(min, max) with the "
             "arguments in that order and the same loss; the None arm returns (loss, gradient) unchanged",
    "R06.7": "the configured clamp reaches the objective unchanged: objective::Function::create stores its `clamp` parameter as is in every "
             "variant (no filtering/rebinding) and nothing writes the field afterwards",
    "R06.5": "finite loss on the closed domain (interval analysis): target, prediction in [0,1] for CE/BCE/KL (any finite moderate "
             "reals otherwise): every ln argument > 0, every denominator non-zero, no 0*inf; the loss cannot be NaN",
    "R06.6": "argument order: objective::Function::loss forwards (prediction, target) to every variant; the two call sites in "
             "network.rs pass the network output first and the target (second component of the zipped data) second",
}
ASSUMPTIONS = ["equalities are over the reals (canonical rational normal form); rounding of the sums is not decided",
               "derivatives of BCE/KL are taken with respect to the clamped prediction inside the clamp interval",
               "non-empty tensors (len >= 1)"]
TRUSTED = ["rustc nightly front end", "driver/src/main.rs", "sa/extract.py", "sa/e1.py (normal form, differentiation)", "sa/e2.py"]

OBJ = "objective::"
KINDS = ["AE", "MAE", "MSE", "RMSE", "CrossEntropy", "BinaryCrossEntropy", "KLDivergence"]
a, p, N = Rat.atom("a"), Rat.atom("p"), Rat.atom("N")
EPS = Rat.const(Fr(1, 1000000))
PT = fn_atom("clamp", p, EPS, 1 - EPS)
ELEMS = {"a", "p"}


def SUM(x):
    return lin_sum(x)


def lin_sum(E):
    """SUM over pairs, treated as a linear operator: factors free of a/p are pulled out."""
    E = e1._r(E)
    if any(e1._all_atoms(Rat.atom(t)) & ELEMS for m in E.d for (t, _) in m):
        return fn_atom("SUM", E)
    tot = Rat.const(0)
    for m, c in E.n.items():
        free = Rat.const(c)
        dep = Rat.const(1)
        for (t, e) in m:
            if e1._all_atoms(Rat.atom(t)) & ELEMS:
                dep = dep * (Rat.atom(t) ** e)
            else:
                free = free * (Rat.atom(t) ** e)
        tot = tot + free * (N if dep == Rat.const(1) else fn_atom("SUM", dep))
    return tot / Rat(E.d)


def sgn_form(u):
    return ite(cmp_atom("Eq", u, 0), 0, ite(cmp_atom("Gt", u, 0), 1, -1))


def spec_loss(kind):
    d = a - p
    if kind == "AE":
        return [SUM(r_abs(d))]
    if kind == "MAE":
        return [SUM(r_abs(d)) / N]
    if kind == "MSE":
        return [SUM(d * d) / N]
    if kind == "RMSE":
        return [r_sqrt(SUM(d * d) / N)]
    if kind == "CrossEntropy":
        return [-SUM(a * fn_atom("ln", PT))]
    if kind == "BinaryCrossEntropy":
        return [-SUM(a * fn_atom("ln", PT) + (1 - a) * fn_atom("ln", 1 - PT))]
    if kind == "KLDivergence":
        t = a * fn_atom("ln", a / PT)
        return [SUM(t), SUM(ite(cmp_atom("Gt", a, 0), t, 0))]


def spec_grad(kind):
    d = a - p
    if kind in ("AE", "MAE"):
        return ite(cmp_atom("Eq", a, p), 0, ite(cmp_atom("Gt", a, p), -1, 1))
    if kind == "MSE":
        return -2 * d / N
    if kind == "RMSE":
        return ite(cmp_atom("Eq", a, p), 0, -d / (r_abs(d) * N))
    if kind == "CrossEntropy":
        return p - a
    if kind == "BinaryCrossEntropy":
        return (PT - a) / (PT * (1 - PT))
    if kind == "KLDivergence":
        return -a / PT


def roles(fn):
    """param hid -> 'p' (prediction, 1st) / 'a' (target, 2nd)"""
    return {pat_binds(fn["params"][1])[0][1]: "p", pat_binds(fn["params"][2])[0][1]: "a"}


def flat_of(n, role, table=None):
    """`X.get_flat()` with X a role parameter (possibly through immutable temporaries) -> role"""
    n = strip(n)
    if table:
        from ..hir import resolve
        n = resolve(n, table)
    if n is not None and n.get("k") == "mcall" and n["callee"] == "tensor::Tensor::get_flat":
        return role.get(e4.local_hid(n["recv"]))
    return None


class LossHook:
    def __init__(self, c, fn, mode):
        self.c, self.fn, self.mode = c, fn, mode
        self.role = roles(fn)
        from ..hir import let_table
        self.table = let_table(fn["body"])
        self.summand = None
        self.closure = None
        self.n_sums = 0

    def __call__(self, Nrm, n):
        if n.get("k") != "mcall":
            return None
        if n["name"] == "len":
            r = flat_of(n["recv"], self.role, self.table)
            if r is not None:
                return N
            return None
        if n["name"] != "sum":
            return None
        mp = strip(n["recv"])
        if not (mp.get("k") == "mcall" and mp["name"] == "map"):
            raise ValueError("sum over something that is not a map")
        z = strip(mp["recv"])
        if not (z.get("k") == "mcall" and z["name"] == "zip"):
            raise ValueError("loss is not reduced over zipped (target, prediction) pairs: " + short(pretty(z), 80))
        srcs = []
        for side in (z["recv"], z["args"][0]):
            it = strip(side)
            if not (it.get("k") == "mcall" and it["name"] == "iter"):
                raise ValueError("unrecognised pair source (adaptor `%s`)" % it.get("name"))
            r = flat_of(it["recv"], self.role, self.table)
            if r is None:
                raise ValueError("pair source is not target/prediction.get_flat()")
            srcs.append(r)
        if sorted(srcs) != ["a", "p"]:
            raise ValueError("pairs are not (target, prediction): %s" % srcs)
        cl = strip(mp["args"][0])
        pt = cl["params"][0]
        while pt.get("k") in ("ref", "deref"):
            pt = pt["p"]
        if pt.get("k") != "tuple" or len(pt["ps"]) != 2:
            raise ValueError("closure pattern is not a pair")
        env = dict(Nrm.env)
        for q, r in zip(pt["ps"], srcs):
            b = pat_binds(q)
            if len(b) != 1:
                raise ValueError("closure pattern")
            env[b[0][1]] = Rat.atom(r)
        sub = e1.Norm(self.c, env)
        sub.reduce_hook = None
        E = sub.norm(cl["body"])
        self.summand, self.closure, self.srcs = E, cl, srcs
        self.n_sums += 1
        return Rat.atom("S") if self.mode == "opaque" else lin_sum(E)


def loss_expr(ctx, kind, fn):
    c = ctx.crate
    b = fn["body"]
    while b.get("k") == "blk":
        b = b["b"]
    lets = [s for s in b["stmts"] if s.get("k") == "let" and s["pat"].get("k") == "bind" and s["pat"]["name"] == "loss"]
    if len(lets) != 1:
        raise Unestablished("%s::loss: no `let loss = ..`" % kind, c.loc(fn))
    return lets[0]


def r1(ctx, kind):
    c = ctx.crate
    fn = ctx.fn(OBJ + kind + "::loss")
    L = loss_expr(ctx, kind, fn)
    env = arms.fn_level_env(c, fn, upto=L, hook=LossHook(c, fn, "linear"))
    where = c.loc(fn, L["init"])
    out = {}
    for mode in ("linear", "opaque"):
        hook = LossHook(c, fn, mode)
        env_m = arms.fn_level_env(c, fn, upto=L, hook=hook)      # named parts of the loss (`let total = ..sum();`) are reduced by this hook too
        Nrm = e1.Norm(c, dict(env_m))
        Nrm.reduce_hook = hook
        try:
            val = Nrm.norm(L["init"])
        except ValueError as e:
            ctx.bad("R06.1", kind + ":loss", "loss-not-recognised", where, "cannot establish the form of the loss: %s" % e)
            return None
        out[mode] = (val, hook)
    val, hook = out["linear"]
    if hook.n_sums != 1:
        ctx.bad("R06.1", kind + ":loss", "no-single-reduction", where, "expected exactly one sum over the pairs")
        return None
    specs = spec_loss(kind)
    ctx.check("R06.1", kind + ":loss", any(val == s for s in specs), "loss-differs-from-documented:" + short(str(val), 120), where,
              "loss = %s" % short(str(val), 160), "%s loss is `%s`, documented `%s`" % (kind, val, specs[0]))
    return fn, L, env, out


def r2(ctx, kind, fn, env):
    c = ctx.crate
    # the gradient: the one local bound to a `match` over the two tensors' data (whatever it is called; a later re-binding that applies
    # the clamp is R06.4's business)
    lets = [s for s in walk(fn["body"]) if s.get("k") == "let" and s["pat"].get("k") == "bind" and s.get("init") is not None and strip(s["init"]).get("k") == "match"
            and strip(strip(s["init"])["scrut"]).get("k") == "tup" and all(".data" in pretty(x_) for x_ in strip(strip(s["init"])["scrut"])["xs"])]
    if len(lets) != 1 or strip(lets[0]["init"]).get("k") != "match":
        raise Unestablished("%s::loss: no `let gradient = match ..`" % kind, c.loc(fn))
    m = strip(lets[0]["init"])
    role = roles(fn)
    comps = arms.scrut_names(c, m)
    names = []
    for d in comps:
        h = e4.local_hid(d["node"])
        names.append(role.get(h, "?"))
    if sorted(names) != ["a", "p"]:
        raise Unestablished("gradient match is not on (target.data, prediction.data): %s" % names, c.loc(fn, m))
    spec = spec_grad(kind)
    arms.guarded_arms(ctx, "R06.2", fn, m, kind)
    sems = {}
    for ra in arms.rank_arms(m, names):
        rank = ra["rank"]
        inst = "%s:%s" % (kind, rank)
        where = c.loc(fn, ra["arm"]["body"])
        if ra["mixed"]:
            ctx.bad("R06.2", inst, "mixed-rank-arm", where, "")
            continue
        try:
            r = arms.extract(c, ra["arm"]["body"], ra["roots"])
            sym = e1.Sym(c, r.cellname(c), env=env)
            orig = sym._norm

            def patched(store, env_, orig=orig):
                Nn = orig(store, env_)
                Nn.reduce_hook = LossHook(c, fn, "linear")
                return Nn
            sym._norm = patched
            sem = sym.run(r.body)
        except (Unrecognised, ValueError) as e:
            ctx.bad("R06.2", inst, "arm-not-recognised-as-elementwise", where, "cannot establish aligned element-wise gradient: %s" % e)
            continue
        depth = {"Single": 1, "Triple": 3}.get(rank)
        if depth is None or r.levels != depth or not set(r.style) <= {"map", "for"}:
            ctx.bad("R06.2", inst, "unexpected-traversal:%s" % "/".join(r.style), where, "")
            continue
        val = sem[0][1].get("<value>") if len(sem) == 1 and not sem[0][0] else None
        if val is None:
            ctx.bad("R06.2", inst, "no-element-value", where, str(sem))
            continue
        sems[rank] = val
        # result constructor: Tensor::single / Tensor::triple applied to the collected elements
        ctor = {"Single": "tensor::Tensor::single", "Triple": "tensor::Tensor::triple"}[rank]
        tail = strip(ra["arm"]["body"])
        tl = tail["b"]["tail"] if tail.get("k") == "blk" else tail
        ok_ctor = tl is not None and strip(tl).get("k") == "call" and strip(tl)["callee"] == ctor
        if val != spec:
            ctx.bad("R06.2", inst, "gradient-differs-from-documented:" + short(str(val), 120), where,
                    "%s gradient (%s arm) is `%s`, documented `%s`" % (kind, rank, val, spec))
        elif not ok_ctor:
            ctx.bad("R06.2", inst, "result-not-built-with-" + ctor.split("::")[-1], where, short(pretty(tl), 80) if tl else "")
        else:
            ctx.ok("R06.2", inst, "grad elem = %s" % short(str(val), 120), where)
    for rank in ("Single", "Triple"):
        if rank not in sems and not any(o["instance"] == "%s:%s" % (kind, rank) for o in ctx.obligations if o["rule"] == "R06.2"):
            ctx.bad("R06.2", "%s:%s" % (kind, rank), "rank-not-supported", c.loc(fn, m), "")
    if len(sems) == 2:
        ctx.check("R06.2", kind + ":siblings", sems["Single"] == sems["Triple"], "single-and-triple-arms-differ", c.loc(fn, m),
                  "", "Single: %s ; Triple: %s" % (sems["Single"], sems["Triple"]))
    return sems


def _case_rule(truth, absmap):
    def rule(name, args, atom):
        if name == "ite" and args[0] in truth:
            return args[1] if truth[args[0]] else args[2]
        if name in ("abs", "sgn") and str(args[0]) in absmap:
            s = absmap[str(args[0])]
            return (args[0] * s) if name == "abs" else Rat.const(s)
        return None
    return rule


def r3(ctx, kind, out, sems):
    c = ctx.crate
    val, hook = out["opaque"]
    E = hook.summand
    S = Rat.atom("S")
    coef = diff(val, "S")
    inst = kind + ":derivative"
    if "S" in e1._all_atoms(coef) or (coef * S) != val:
        ctx.unest("R06.3", inst, "loss is not linear in the sum: %s" % val)
        return
    term = coef * E
    var = str(PT) if kind in ("BinaryCrossEntropy", "KLDivergence") else "p"
    try:
        d = diff(term, var)
    except ValueError as e:
        ctx.unest("R06.3", inst, str(e))
        return
    g = sems.get("Single")
    if g is None:
        ctx.unest("R06.3", inst, "no gradient expression")
        return
    u = a - p
    cases = [({}, {})]
    if kind == "AE":
        su = str(u)
        cases = [({cmp_atom("Eq", u, 0): False, cmp_atom("Gt", u, 0): True}, {su: 1}),
                 ({cmp_atom("Eq", u, 0): True, cmp_atom("Gt", u, 0): False}, {su: 0}),
                 ({cmp_atom("Eq", u, 0): False, cmp_atom("Gt", u, 0): False}, {su: -1})]
    ok, why = True, ""
    for truth, absmap in cases:
        rule = _case_rule(truth, absmap)
        dd, gg = rewrite(d, rule), rewrite(g, rule)
        if kind == "KLDivergence":
            # fixed form: summand ite(a > 0, a ln(a/p~), 0): decide both branches (a = 0 is the only in-domain alternative)
            ca = cmp_atom("Gt", a, 0)
            for tv in (True, False):
                r2_ = _case_rule({ca: tv}, {})
                d2, g2 = rewrite(dd, r2_), rewrite(gg, r2_)
                if not tv:
                    zero = lambda name, args, atom: Rat.const(0) if atom == "a" else None
                    d2, g2 = rewrite(d2, zero), rewrite(g2, zero)
                if d2 != g2:
                    ok, why = False, "a%s0: d(term)/dp~ = %s but gradient = %s" % (">" if tv else "=", d2, g2)
        elif dd != gg:
            ok, why = False, "case %s: d(term)/dp = %s but gradient = %s" % (absmap or "-", dd, gg)
    ctx.check("R06.3", inst, ok, "gradient-is-not-derivative-of-loss", "objective::%s::loss" % kind,
              "d/dp [%s] = gradient" % short(str(term), 100), "%s: %s" % (kind, why))


def r4(ctx, kind, fn):
    """clamp handling, decided on the E6 summary of `loss`: on every non-panicking path the result is (loss, gradient) when
    self.clamp is None and (loss, gradient.clamp(min, max)) with (min, max) the payload of Some - the same loss and the same
    unclamped gradient in both cases (match / if let / let-else spellings alike)."""
    from .. import e6
    c = ctx.crate
    inst = kind + ":clamp"
    where = c.loc(fn)
    E = e6.Exec(c, fn)
    paths = [p for p in E.run_fn() if p.exit is None or p.exit[0] == "return"]
    CL = ("field", ("p", "self"), "clamp")
    groups = {}
    ok_shape = bool(paths)
    for p in paths:
        val = p.val if p.exit is None else p.exit[1]
        pol = None
        rest = []
        for (t, b) in p.pc:
            if isinstance(t, tuple) and t[0] == "is" and t[1] == CL:
                is_some = (t[2] == "Option::Some") == b
                pol = is_some
            else:
                rest.append((t, b))
        if pol is None or not (isinstance(val, tuple) and val[0] == "tup" and len(val[1]) == 2):
            ok_shape = False
            continue
        groups.setdefault(repr(sorted(rest, key=repr)), {})[pol] = val
    if not ok_shape:
        ctx.bad("R06.4", inst, "return-does-not-go-through-match-self.clamp", where,
                "some non-panicking path of %s::loss returns without deciding on self.clamp, or does not return a (loss, gradient) pair" % kind)
        return
    ok_some = ok_none = bool(groups)
    why = ""
    for key, g in groups.items():
        if True not in g or False not in g:
            ok_some = ok_none = False
            why = "a path decides only one case of self.clamp"
            continue
        vs, vn = g[True], g[False]
        lo = e6.mk_proj(("payload", CL, "Option::Some", 0), 0)
        hi = e6.mk_proj(("payload", CL, "Option::Some", 0), 1)
        a = e6.is_call(vs[1][1], "clamp", 3)
        if not (vs[1][0] == vn[1][0] and a is not None and a[0] == vn[1][1] and a[1] == lo and a[2] == hi):
            ok_some = False
            why = "Some: (%s, %s)" % (e6.show(vs[1][0], 2)[:60], e6.show(vs[1][1], 2)[:120])
        if e6.is_call(vn[1][1], "clamp") is not None:
            ok_none = False
            why = "None: gradient is clamped"
    ctx.check("R06.4", inst + ":some", ok_some, "clamp-arm:" + short(why, 80), where, "Some((min,max)) => (loss, gradient.clamp(min, max))",
              "with a configured clamp %s::loss must return (loss, gradient.clamp(min, max)) for the same loss and gradient as without: %s" % (kind, why))
    ctx.check("R06.4", inst + ":none", ok_none, "none-arm:" + short(why, 80), where, "None => (loss, gradient)")


def r5(ctx, kind, fn, L, out):
    c = ctx.crate
    val, hook = out["opaque"]
    cl = hook.closure
    dom01 = kind in ("CrossEntropy", "BinaryCrossEntropy", "KLDivergence")
    M = Fr(2) ** 30
    av = AV(Fr(0), Fr(1)) if dom01 else AV(-M, M)
    pt = cl["params"][0]
    while pt.get("k") in ("ref", "deref"):
        pt = pt["p"]
    keys = {}
    for q, r in zip(pt["ps"], hook.srcs):
        keys[pat_binds(q)[0][1]] = r
    n_ob = [0]

    def ob(kind_, ok, node, detail):
        i = n_ob[0]
        n_ob[0] += 1
        inst = "%s:%s#%d" % (kind, kind_, i)
        if ok:
            ctx.ok("R06.5", inst, detail, c.loc(fn, node))
        else:
            ctx.bad("R06.5", inst, kind_ + "-not-discharged", c.loc(fn, node),
                    "%s loss with target, prediction in %s: %s" % (kind, "[0,1]" if dom01 else "finite range", detail))

    def s_sum(ev, n):
        mp = strip(n["recv"])
        clo = strip(mp["args"][0])
        saved = dict(ev.cells)
        ev.cells.update({"a": av, "p": av})
        e = ev.eval(clo["body"])
        ev.cells = saved
        K = Fr(2) ** 32
        lo = e.lo * K if e.lo < 0 else Fr(0)
        hi = e.hi * K if e.hi > 0 else Fr(0)
        if e.lo in (INF, -INF):
            lo = e.lo
        if e.hi in (INF, -INF):
            hi = e.hi
        return AV(min(lo, e.lo), max(hi, e.hi), e.nan, ty="f32")

    def s_len(ev, n):
        return AV(Fr(1), Fr(2) ** 32, ty="usize")

    ev = e2.Eval(c, {}, {}, ob, {"std::iter::Iterator::sum": s_sum, "std::vec::Vec::<T, A>::len": s_len})
    ev.cellkey = lambda n: keys.get(n.get("hid")) if n.get("k") == "local" else None
    b = fn["body"]
    while b.get("k") == "blk":
        b = b["b"]
    try:
        for s in b["stmts"]:
            if s is L:
                break
            if s.get("k") == "let" and s["pat"].get("k") == "bind":
                ty = (c.types[s["pat"]["t"]] or "").lstrip("&") if s["pat"].get("t") is not None else ""
                if ty in ("f32", "f64", "usize", "i32", "u64", "bool"):
                    ev.stmt(s)      # scalar temporaries; tensor-valued temporaries (`let flat = target.get_flat()`) carry no number
            elif s.get("k") == "let":
                ev.stmt(s)
        res = ev.eval(L["init"])
    except ValueError as e:
        ctx.unest("R06.5", kind + ":loss", "abstract interpreter: %s" % e, c.loc(fn, L["init"]))
        return
    ctx.check("R06.5", kind + ":loss-not-nan", not res.nan, "loss-may-be-nan", c.loc(fn, L["init"]), "loss in %r" % res,
              "%s: the loss may be NaN on the closed domain (abstract value %r)" % (kind, res))
    ctx.check("R06.5", kind + ":loss-finite", res.lo != -INF and res.hi != INF, "loss-may-be-infinite", c.loc(fn, L["init"]), "loss in %r" % res,
              "%s: the loss may be infinite on the closed domain (abstract value %r)" % (kind, res))


def r6(ctx):
    c = ctx.crate
    fn = ctx.fn("objective::Function::loss")
    ph = [pat_binds(q)[0][1] for q in fn["params"][1:]]
    m = [x for x in walk(fn["body"]) if x.get("k") == "match"][0]
    seen = set()
    for arm in m["arms"]:
        vp, binds = e4.arm_variant(arm)
        kind = vp.split("::")[-1]
        seen.add(kind)
        cs = [x for x in walk(arm["body"]) if x.get("k") == "mcall" and x["callee"].endswith("::loss")]
        ok = len(cs) == 1 and cs[0]["callee"] == OBJ + kind + "::loss" and [e4.local_hid(z) for z in cs[0]["args"]] == ph
        ctx.check("R06.6", "dispatch:" + kind, ok, "dispatch-or-argument-order", c.loc(fn, arm["body"]), "-> %s::loss(prediction, target)" % kind,
                  "Function::loss arm %s calls %s" % (kind, [short(pretty(x), 80) for x in cs]))
    for k in KINDS:
        if k not in seen:
            ctx.bad("R06.6", "dispatch:" + k, "variant-not-dispatched", c.loc(fn), "")
    # call sites in network.rs
    n = 0
    for fpath in ("network::Network::learn", "network::Network::validate"):
        f = ctx.fn(fpath)
        for x in walk(f["body"]):
            if x.get("k") == "mcall" and x["callee"] == "objective::Function::loss":
                n += 1
                a0, a1 = strip(x["args"][0]), x["args"][1]
                # second argument: a closure parameter bound at tuple position 1 of a zip whose second source derives from `targets`
                h1 = e4.local_hid(a1)
                pos = _closure_tuple_pos(f["body"], h1)
                first_from_net = ("activated" in pretty(a0)) or ("prediction" in pretty(a0))
                inst = "call:%s" % fpath.split("::")[-1]
                ctx.check("R06.6", inst, pos == 1 and first_from_net and not common_mentions(a0, h1), "loss-arguments:" + short(pretty(x), 80), c.loc(f, x),
                          "loss(<network output>, <target>)", "objective.loss is called as %s" % short(pretty(x), 120))
        # the zips pair inputs (first) with targets (second)
        for z in walk(f["body"]):
            if z.get("k") == "mcall" and z["name"] == "zip" and "par_chunks" in pretty(z):
                l, r = pretty(strip(z["recv"])), pretty(strip(z["args"][0]))
                ctx.check("R06.6", "zip:%s" % fpath.split("::")[-1], l.startswith("inputs") and r.startswith("targets"), "zip-order:%s~%s" % (short(l, 30), short(r, 30)), c.loc(f, z),
                          "inputs zipped with targets")
    ctx.floor("R06.6", 7 + 2 + 2, "7 dispatch arms, 2 call sites, 2 zips")


def common_mentions(n, hid):
    return any(x.get("k") == "local" and x["hid"] == hid for x in walk(n))


def _closure_tuple_pos(root, hid):
    for x in walk(root):
        if x.get("k") == "closure":
            for prm in x["params"]:
                q = prm
                while q.get("k") in ("ref", "deref"):
                    q = q["p"]
                if q.get("k") == "tuple":
                    for i, e in enumerate(q["ps"]):
                        if any(h == hid for (_, h) in pat_binds(e)):
                            return i
    return None


def r7(ctx):
    c = ctx.crate
    fn = ctx.fn("objective::Function::create")
    ch = pat_binds(fn["params"][1])[0][1]
    lits = [x for x in walk(fn["body"]) if x.get("k") == "struct" and x["path"].startswith("objective::") and any(a_ == "clamp" for a_, _ in x["fs"])]
    seen = set()
    for x in lits:
        kind = x["path"].split("::")[-1]
        seen.add(kind)
        v = dict((a_, e_) for a_, e_ in x["fs"])["clamp"]
        ctx.check("R06.7", "clamp-stored-unchanged:" + kind, e4.local_hid(v) == ch, "clamp-not-the-configured-interval:" + short(pretty(v), 40), c.loc(fn, x),
                  "%s { clamp } is the caller's clamp" % kind, "%s is created with clamp `%s` instead of the configured interval" % (kind, pretty(v)))
    for k in KINDS:
        if k not in seen:
            ctx.bad("R06.7", "clamp-stored-unchanged:" + k, "objective-not-constructed", c.loc(fn), "")
    shadow = [s_ for s_ in walk(fn["body"]) if s_.get("k") == "let" and any(nm == "clamp" for nm, _ in pat_binds(s_["pat"]))]
    ctx.check("R06.7", "clamp-not-rebound", not shadow, "clamp-rebound:" + (short(pretty(shadow[0]["init"]), 60) if shadow else ""), c.loc(fn, shadow[0]) if shadow else c.loc(fn),
              "the clamp parameter is not filtered or replaced", "Function::create rebinds `clamp` to `%s` before storing it: some configured intervals are silently dropped or altered" % (pretty(shadow[0]["init"]) if shadow else ""))
    for kind in KINDS:
        wr = [w for mk, mv in c.mir.items() for w in mv["facts"]["writes"] + mv["facts"]["mutborrows"] if w["adt"] == OBJ + kind and w["field"] == "clamp"]
        ctx.check("R06.7", "clamp-immutable:" + kind, not wr, "clamp-written-after-construction", OBJ + kind, "clamp is never written after construction")


def clamp_primitive(ctx):
    """`each gradient component equals the unclamped value limited to the interval`: the limiting is Tensor::clamp, which must clamp every element of
    every rank (C15's R15.1 facts about `clamp` re-run under this property)"""
    from . import c15
    sub = type(ctx)(ctx.prop, ctx.facts)
    sub.guard("R15.1", "clamp", c15.elementwise, sub, "clamp", ())
    bad = [o for o in sub.obligations if o["status"] != "ok"]
    for o in bad:
        ctx.bad("R06.4", "clamp-primitive:" + o["instance"], o["key"].split("/", 3)[-1], o["where"], o["detail"])
    ctx.check("R06.4", "clamp-primitive", not bad and len(sub.obligations) >= 3, "clamp-primitive-broken", "src/tensor.rs", "%d facts about Tensor::clamp" % len(sub.obligations))


def as_computed(ctx, kind, fn):
    """the (loss, gradient) pair returned is the one the element-wise pipeline produced: on the E6 value of every non-panicking path no list
    operation that moves, drops or overwrites entries (reverse, rotate, swap, sort, fill, truncate ..) sits between the computation and the return"""
    from .. import e6
    c = ctx.crate
    live = [p for p in e6.Exec(c, fn).run_fn() if p.exit is None or p.exit[0] == "return"]
    tam = sorted({nm for p in live for nm in list(e6.list_tampering(p.val if p.exit is None else p.exit[1])) + list(e6.inplace_changes(p.val if p.exit is None else p.exit[1]))})
    ctx.check("R06.2", kind + ":returned-as-computed", bool(live) and not tam, "result-rearranged-by:" + ",".join(tam), c.loc(fn),
              "%d paths: gradient[i] belongs to prediction[i]" % len(live),
              "%s::loss applies %s to its result before returning it: gradient entry i no longer belongs to output i" % (kind, tam))


RULES["R06.2"] += " | returned-as-computed: on the E6 value of every non-panicking path of each loss function, no entry-moving list operation (reverse, rotate, swap, sort, fill, truncate, remove ..) is applied to the result between the element-wise computation and the return"


def run(ctx):
    ctx.guard("R06.4", "clamp-primitive", clamp_primitive, ctx)
    ctx.guard("R06.7", "clamp-configuration", r7, ctx)
    ctx.floor("R06.7", 15, "7 literals, 1 rebinding fact, 7 immutability facts")
    for kind in KINDS:
        r = ctx.guard("R06.1", kind, r1, ctx, kind)
        if not r:
            continue
        fn, L, env, out = r
        sems = ctx.guard("R06.2", kind, r2, ctx, kind, fn, env) or {}
        if kind in ("AE", "MSE", "BinaryCrossEntropy", "KLDivergence"):
            ctx.guard("R06.3", kind, r3, ctx, kind, out, sems)
        ctx.guard("R06.4", kind, r4, ctx, kind, fn)
        ctx.guard("R06.5", kind, r5, ctx, kind, fn, L, out)
        ctx.guard("R06.2", kind + ":as-computed", as_computed, ctx, kind, fn)
    ctx.guard("R06.6", "argument-order", r6, ctx)
    ctx.floor("R06.1", 7, "seven objectives")
    ctx.floor("R06.2", 14 + 7 + 7, "14 gradient arms + 7 sibling comparisons + 7 results returned as computed")
    ctx.floor("R06.3", 4, "AE, MSE, BCE, KL")
    ctx.floor("R06.4", 14, "Some and None arm of 7 objectives")
    ctx.floor("R06.5", 14, "NaN/finite verdict for 7 objectives")
