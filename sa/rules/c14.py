"""C14 - reshaping and flattening preserve the row-major element sequence."""
from ..core import Unestablished
from ..hir import walk, strip, pretty, short, calls, pat_binds
from .. import e1, e4
from ..e1 import Rat
from .common import top_stmts_of, nested_range_build

LEVEL = "other"
RULES = {
    "R14.1": "count assertion: every Tensor::reshape arm with a Triple on either side executes, before building anything, an assert_eq! "
             "between the element count of the OLD shape (product of its own components / the length) and that of the NEW shape",
    "R14.2": "row-major on both sides: flatten and get_flat emit channel -> row -> element; reshape and get_triple rebuild "
             "(0..c).map(|_| (0..h).map(|_| (0..w).map(|_| iter.next()))) from ONE sequential iterator over get_flat()/the vector, with the "
             "range nesting in (channels, rows, columns) order of the target shape - so there-and-back is the identity",
    "R14.3": "recorded shape = data dimensions: reshape stores the requested shape with the rebuilt data; flatten records the length of "
             "the vector it built; single/double/triple/quadruple/quintuple record len(), [0].len(), ..; zeros/ones build data from the "
             "shape's own components in order",
}
ASSUMPTIONS = ["Single -> Single reshape performs no check (outside the statement)", "iterators yield elements in order (std)"]
TRUSTED = ["rustc nightly front end", "driver/src/main.rs", "sa/e1.py"]

T = "tensor::Tensor::"


def _assert_eq_sides(node):
    """(left, right) expression nodes of an `assert_eq!` expansion node"""
    if node.get("k") == "match" and node.get("mac") == "assert_eq":
        sc = strip(node["scrut"])
        if sc.get("k") == "tup" and len(sc["xs"]) == 2:
            return sc["xs"][0], sc["xs"][1]
    return None


def r1_r2_reshape(ctx):
    """Tensor::reshape decided on its E6 summary.  The ways through it are classified by the variants of (self.shape, shape):
       Single -> Single: the tensor is returned unchanged;  Triple -> Single: flatten();  * -> Triple: the data is rebuilt as the nest
       (new channels) x (new rows) x (new columns) drawing one element per position from ONE iterator over get_flat(), and the new shape
       and data are stored.  Every way that changes anything first establishes old count == new count (the other outcome panics)."""
    from .. import e6
    c = ctx.crate
    fn = ctx.fn(T + "reshape")
    where = c.loc(fn)
    E = e6.Exec(c, fn)
    paths = E.run_fn()
    SELF = ("p", "self")
    OLD, NEW = ("field", SELF, "shape"), ("p", pat_binds(fn["params"][1])[0][0])
    live = [p for p in paths if p.exit is None or p.exit[0] == "return"]
    cases = {}
    unclassified = 0
    for p in live:
        vs = e6.variant_of(p)
        k = (vs.get(OLD, "?").split("::")[-1], vs.get(NEW, "?").split("::")[-1])
        if "?" in k:
            unclassified += 1
        cases.setdefault(k, []).append(p)
    ctx.check("R14.1", "dispatch-on-old-and-new-shape", bool(live) and unclassified == 0, "reshape-dispatch:%d" % unclassified, where, "match (&self.shape, &shape)",
              "%d way(s) through reshape do not depend on both the tensor's shape and the requested one" % unclassified)
    n_arms = 0

    def prod(base, kind):
        n = 3 if kind == "Triple" else 1
        return sorted(repr(("payload", base, "tensor::Shape::" + kind, i)) for i in range(n))

    def factors(t):
        t = e6.strip_upd(t)
        if isinstance(t, tuple) and t and t[0] == "bin" and t[1] == "Mul":
            return factors(t[2]) + factors(t[3])
        if isinstance(t, tuple) and t and t[0] == "un" and t[1] == "Deref":
            return factors(t[2])
        return [repr(t)]
    for kinds in (("Triple", "Triple"), ("Single", "Triple"), ("Triple", "Single")):
        inst = "%s->%s" % kinds
        ps = cases.get(kinds, [])
        if not ps:
            continue
        n_arms += 1
        want = {tuple(prod(OLD, kinds[0])), tuple(prod(NEW, kinds[1]))}
        ok = True
        got = "no count comparison"
        for p in ps:
            found = False
            for (t, pol) in p.pc:
                if pol and isinstance(t, tuple) and t[0] == "bin" and t[1] == "Eq":
                    sides = {tuple(sorted(factors(t[2]))), tuple(sorted(factors(t[3])))}
                    got = "%s == %s" % (e6.show(t[2], 2)[:50], e6.show(t[3], 2)[:50])
                    if sides == want:
                        found = True
            ok = ok and found
        # .. and the refused case exists: some panicking path has the same comparison false
        refused = any(q.exit is not None and q.exit[0] == "panic" and e6.variant_of(q).get(OLD, "").endswith(kinds[0]) and e6.variant_of(q).get(NEW, "").endswith(kinds[1])
                      and any((not pol) and isinstance(t, tuple) and t[0] == "bin" and t[1] == "Eq" for (t, pol) in q.pc) for q in paths)
        ctx.check("R14.1", inst + ":count-assertion", ok and refused, "count-assertion:" + short(got, 90), where, "assert_eq!(old count, new count) first",
                  "reshape %s establishes `%s`; it must compare the old element count with the new one (a wrong factor refuses valid reshapes and "
                  "accepts truncating ones)" % (inst, got))
        if kinds[1] == "Triple":
            okb, oks, detail = True, True, ""
            for p in ps:
                val = p.val if p.exit is None else p.exit[1]
                sets = {e[1]: e[2] for e in p.eff if e[0] == "set"}
                dat = sets.get(("field", ("local", "self"), "data"))
                shp = sets.get(("field", ("local", "self"), "shape"))
                oks = oks and e6.root_name(val) in (None, "self") and e6.strip_upd(val) == SELF and shp == NEW and dat is not None and len(sets) == 2
                d = e6.is_call(dat, "Triple", 1) if dat is not None else None
                draw = lambda e: e[0] == "mut" and e[1].endswith("Iterator::next")
                rn = e6.range_nest(E, d[0], draw) if d else None
                wantd = [("payload", NEW, "tensor::Shape::Triple", i) for i in range(3)]
                good = False
                if rn is not None and [e6.strip_upd(x) for x in rn[0]] in (wantd, [("un", "Deref", x) for x in wantd]):
                    u = e6.is_call(rn[1], "unwrap", 1) or e6.is_call(rn[1], "expect")
                    nx = e6.is_call(u[0], "next", 1) if u else None
                    src = nx[0] if nx else None
                    entry = e6.entry_value(p, src) if src is not None else None
                    if isinstance(src, tuple) and src[0] == "loopin" and entry is src:
                        # a closure-built nest: the iterator is the local mutated inside the closures; its value at the start is the binding's
                        for v_ in p.env.values():
                            for x_ in e6.find_terms(v_, lambda y: y[0] in ("loopout",) and len(y) == 4 and y[1] == src[1]):
                                entry = x_[3]
                    flat = ("call", "tensor::Tensor::get_flat", (SELF,))
                    good = len(rn[2]) == 1 and entry is not None and e6.strip_upd(entry) in (flat, ("call", "std::iter::IntoIterator::into_iter", (flat,)))
                    detail = "ranges over %s, element %s from %s" % ([e6.show(x, 1) for x in rn[0]], e6.show(rn[1], 2)[:40], e6.show(entry, 2)[:50] if entry else "?")
                else:
                    detail = "data := %s" % (e6.show(dat, 3)[:100] if dat is not None else "(not stored)")
                okb = okb and good
            ctx.check("R14.2", inst + ":row-major-rebuild", okb, "rebuild:" + short(detail, 90), where, "nested ranges (new channels, rows, columns) filled from one iterator over get_flat()",
                      "reshape %s rebuilds the data with %s; it must nest (channels, rows, columns) of the NEW shape over one sequential iterator of get_flat()" % (inst, detail))
            ctx.check("R14.3", inst + ":stores-shape-and-data", oks, "stored", where, "self.data = data; self.shape = shape")
        else:
            okf = all((p.val if p.exit is None else p.exit[1]) == ("call", "tensor::Tensor::flatten", (SELF,)) and not [e for e in p.eff if e[0] != "loop"] for p in ps)
            ctx.check("R14.2", inst + ":flatten", okf, "triple-to-single:" + short(e6.show(ps[0].val if ps[0].exit is None else ps[0].exit[1], 2), 40), where, "self.flatten()")
    ss = cases.get(("Single", "Single"), [])
    ctx.check("R14.1", "arms-with-triple", n_arms == 3 and all((p.val if p.exit is None else p.exit[1]) == SELF and not p.eff for p in ss), "reshape-arms:%d" % n_arms, where,
              "Triple->Triple, Single->Triple, Triple->Single (and Single->Single unchanged)")


def flatten_e6(ctx, fn):
    """the facts of R14.2 / R14.3 about Tensor::flatten on its E6 effect summary (any spelling): on every path where self.data is Triple the stored
    vector is filled by an in-order, unconditional walk channel -> row -> element of the matched 3-D data, and the recorded shape is its length
    (a struct literal with `Shape::Single(v.len())` or the constructor `Tensor::single(v)`, which R14.3 shows to record the length)
    -> (row-major ok, shape ok, description of the shape)"""
    from .. import e6
    c = ctx.crate
    E_ = e6.Exec(c, fn)
    SD = ("field", ("p", "self"), "data")
    okE = okS = None
    shp_d = "?"
    for p_ in E_.run_fn():
        if p_.exit is not None and p_.exit[0] != "return":
            continue
        if e6.variant_of(p_).get(SD) != "tensor::Data::Triple":
            continue
        val_ = p_.val if p_.exit is None else p_.exit[1]
        val_ = e6.strip_upd(val_)
        inner = shp = None
        sg = e6.is_call(val_, "single", 1)
        if sg is not None and isinstance(val_, tuple) and val_[1] == "tensor::Tensor::single":
            inner, shape_ok_by_ctor = sg[0], True
        else:
            shape_ok_by_ctor = False
            dv = dict(val_[2]).get("data") if isinstance(val_, tuple) and val_ and val_[0] == "struct" else None
            inner = dv[2][0] if isinstance(dv, tuple) and dv and dv[0] in ("var", "call") and len(dv[2]) == 1 else None
            shp = dict(val_[2]).get("shape") if isinstance(val_, tuple) and val_ and val_[0] == "struct" else None
        rm = e6.row_major_fill(E_, inner) if inner is not None else None
        g1 = rm is not None and rm[0] == ("payload", SD, "tensor::Data::Triple", 0) and rm[1] == 3
        if shape_ok_by_ctor:
            g2 = True
            shp_d = "Tensor::single(..)"
        else:
            sa = shp[2][0] if isinstance(shp, tuple) and shp and shp[0] in ("var", "call") and len(shp[2]) == 1 else None
            g2 = sa is not None and e6.is_call(sa, "len", 1) is not None and e6.is_call(sa, "len", 1)[0] == inner
            shp_d = e6.show(shp, 2) if shp else "?"
        okE = g1 if okE is None else (okE and g1)
        okS = g2 if okS is None else (okS and g2)
    return bool(okE), bool(okS), shp_d


def r2_flatten(ctx):
    c = ctx.crate
    fn = ctx.fn(T + "flatten")
    sub = type(ctx)(ctx.prop, ctx.facts)
    sub.guard("R14.2", "flatten-shape-form", _r2_flatten_shape, sub)
    mine = [o for o in sub.obligations if o["instance"] in ("flatten:row-major", "flatten:shape-is-length")]
    if len(mine) == 2 and all(o["status"] == "ok" for o in mine):
        ctx.obligations.extend(mine)
    else:
        try:
            okE, okS, shp_d = flatten_e6(ctx, fn)
        except Exception as e:  # noqa
            okE, okS, shp_d = False, False, "%s: %s" % (type(e).__name__, e)
        if okE and okS:
            ctx.ok("R14.2", "flatten:row-major", "in-order walk channel -> row -> element (effect summary)", c.loc(fn))
            ctx.ok("R14.3", "flatten:shape-is-length", "shape = length of the flattened vector (effect summary): %s" % shp_d[:60], c.loc(fn))
        else:
            ctx.obligations.extend(o for o in sub.obligations if o["instance"].startswith("flatten"))
            if not any(o["instance"] == "flatten:row-major" for o in sub.obligations):
                ctx.check("R14.2", "flatten:row-major", okE, "flatten-order", c.loc(fn), "for channel in data { for row in channel { flattened.extend(row) } }")
            if not any(o["instance"] == "flatten:shape-is-length" for o in sub.obligations):
                ctx.check("R14.3", "flatten:shape-is-length", okS, "flatten-shape:" + short(shp_d, 60), c.loc(fn), "shape = Single(len of the flattened vector)")
    _r2_get_flat(ctx)


def _r2_flatten_shape(ctx):
    c = ctx.crate
    fn = ctx.fn(T + "flatten")
    m = [x for x in walk(fn["body"]) if x.get("k") == "match"][0]
    for arm in m["arms"]:
        vp, binds = e4.arm_variant(arm)
        if vp == "tensor::Data::Triple":
            dh = binds[0][1]
            fors = [x for x in walk(arm["body"]) if x.get("k") == "for"]
            ok = False
            if len(fors) == 2:
                o, i = fors
                ob, ib = pat_binds(o["pat"]), pat_binds(i["pat"])
                ext = [x for x in walk(i["body"]) if x.get("k") == "mcall" and x["name"] in ("extend", "extend_from_slice")]
                ok = (e4.local_hid(o["iter"]) == dh and e4.local_hid(i["iter"]) == ob[0][1] and len(ext) == 1 and e4.local_hid(ext[0]["args"][0]) == ib[0][1]
                      and any(y is i for y in walk(o["body"])))
                ctx.check("R14.2", "flatten:row-major", ok, "flatten-order", c.loc(fn, o), "for channel in data { for row in channel { flattened.extend(row) } }")
                fh = e4.local_hid(ext[0]["recv"]) if ext else None
                lit = [x for x in walk(arm["body"]) if x.get("k") == "struct" and x["path"].endswith("tensor::Tensor")]
                oks = False
                got = ""
                if lit and fh is not None:
                    fs = dict((a_, e_) for a_, e_ in lit[0]["fs"])
                    d = strip(fs["data"])
                    s_ = strip(fs["shape"])
                    from ..hir import resolve as _resolve, let_table as _let_table
                    _lt = _let_table(arm["body"])
                    late = True
                    if s_.get("k") == "local":
                        # a shape computed into a local counts the elements only if that happens after the fill
                        order_ = [id(y) for y in walk(arm["body"])]
                        lets_ = [y for y in walk(arm["body"]) if y.get("k") == "let" and any(h_ == s_["hid"] for (_, h_) in pat_binds(y["pat"]))]
                        inside = {id(y) for y in walk(o)}
                        late = len(lets_) == 1 and id(lets_[0]) not in inside and order_.index(id(lets_[0])) > order_.index(id(o))
                    s_ = strip(_resolve(s_, _lt)) if s_.get("k") == "local" else s_
                    d = strip(_resolve(d, _lt)) if d.get("k") == "local" else d
                    fname = strip(ext[0]["recv"])["name"]
                    got = pretty(s_)
                    env = arms_env(c, arm["body"], dh)
                    sv = e1.Norm(c, env).norm(s_["args"][0]) if s_.get("k") == "call" and s_["callee"] == "tensor::Shape::Single" else None
                    true_count = Rat.atom("len(D)") * Rat.atom("len(D[0])") * Rat.atom("len(D[0][0])")
                    oks = (d.get("k") == "call" and d["callee"] == "tensor::Data::Single" and e4.local_hid(d["args"][0]) == fh
                           and sv is not None and ((sv == Rat.atom("len(%s)" % fname) and late) or sv == true_count))
                ctx.check("R14.3", "flatten:shape-is-length", oks, "flatten-shape:" + short(got, 60), c.loc(fn, arm["body"]), "shape = Single(len of the flattened vector)",
                          "flatten records the shape `%s`; it must be the number of elements actually stored" % got)
            if not ok:
                # the same fact on the E6 effect summary (any spelling of the loop nest): the stored vector is filled by an in-order,
                # unconditional walk channel -> row -> element of the matched 3-D data
                from .. import e6
                E_ = e6.Exec(c, fn)
                SD = ("field", ("p", "self"), "data")
                okE = False
                for p_ in E_.run_fn():
                    if p_.exit is not None and p_.exit[0] != "return":
                        continue
                    if e6.variant_of(p_).get(SD) != "tensor::Data::Triple":
                        continue
                    val_ = p_.val if p_.exit is None else p_.exit[1]
                    dv = dict(val_[2]).get("data") if isinstance(val_, tuple) and val_ and val_[0] == "struct" else None
                    inner = dv[2][0] if isinstance(dv, tuple) and dv and dv[0] in ("var", "call") and len(dv[2]) == 1 else None
                    rm = e6.row_major_fill(E_, inner) if inner is not None else None
                    okE = rm is not None and rm[0] == ("payload", SD, "tensor::Data::Triple", 0) and rm[1] == 3
                    shp = dict(val_[2]).get("shape") if isinstance(val_, tuple) and val_ and val_[0] == "struct" else None
                    sa = shp[2][0] if isinstance(shp, tuple) and shp and shp[0] in ("var", "call") and len(shp[2]) == 1 else None
                    okS = sa is not None and e6.is_call(sa, "len", 1) is not None and e6.is_call(sa, "len", 1)[0] == inner
                    if len(fors) != 2 or not ok:
                        ctx.check("R14.3", "flatten:shape-is-length", bool(okE and okS), "flatten-shape:" + short(e6.show(shp, 2) if shp else "?", 60), c.loc(fn, arm["body"]),
                                  "shape = Single(len of the flattened vector)")
                ctx.obligations[:] = [o for o in ctx.obligations if not (o["rule"] == "R14.2" and o["instance"] == "flatten:row-major" and o["status"] != "ok")] if okE else ctx.obligations
                if okE:
                    ctx.ok("R14.2", "flatten:row-major", "in-order walk channel -> row -> element (effect summary)", c.loc(fn, arm["body"]))
                elif len(fors) != 2:
                    ctx.bad("R14.2", "flatten:row-major", "flatten-loops:%d" % len(fors), c.loc(fn, arm["body"]), "")


def _r2_get_flat(ctx):
    c = ctx.crate
    from ..extract import extract, Unrecognised
    from .. import arms
    fn = ctx.fn(T + "get_flat")
    m = arms.data_match(fn["body"])
    ok, detail = False, "no Triple arm"
    arms.guarded_arms(ctx, "R14.2", fn, m, "get_flat")
    for ra in arms.rank_arms(m, ["r0"]):
        if ra["guard"]:
            continue
        if ra["rank"] != "Triple":
            continue
        try:
            r = extract(c, ra["arm"]["body"], ra["roots"], rank=3)
            if r.body.get("k") == "identity":
                ok, detail = r.levels == 3, "levels=%d style=%s" % (r.levels, r.style)
            else:
                sem = e1.Sym(c, r.cellname(c)).run(r.body)
                v = sem[0][1].get("<value>") if len(sem) == 1 else None
                ok, detail = (r.levels == 3 and v == Rat.atom("r0")), "levels=%d value=%s" % (r.levels, v)
        except (Unrecognised, ValueError) as e:
            ok, detail = False, str(e)
    ctx.check("R14.2", "get_flat:row-major", ok, "get_flat:" + short(detail, 100), c.loc(fn), "every element, channel -> row -> element, in order",
              "get_flat's 3-D arm is not a plain in-order traversal of all elements: %s" % detail)
    fn = ctx.fn(T + "get_triple")
    m = [x for x in walk(fn["body"]) if x.get("k") == "match" and x.get("src") == "Normal"][0]
    okg = False
    detail = ""
    for arm in m["arms"]:
        vp, binds = e4.arm_variant(arm)
        if vp == "tensor::Data::Single":
            vh = binds[0][1]
            st = top_stmts_of(arm["body"])
            lets = {}
            for s_ in st:
                if s_.get("k") == "let":
                    for nm, h in pat_binds(s_["pat"]):
                        lets[nm] = (h, s_)
            nb = nested_range_build(st[-1])
            if nb and "iter" in lets:
                dims, elem = nb
                tup = [s_ for s_ in st if s_.get("k") == "let" and s_["pat"].get("k") == "tuple"]
                want = [h for (_, h) in pat_binds(tup[0]["pat"])] if tup else []
                src_ok = pretty(strip(lets["iter"][1]["init"])) in ("%s.into_iter()" % "vector", "vector.iter()")
                # (oc, oh, ow) bound from Shape::Triple(ch, he, wi) => (*ch, *he, *wi) in order
                order_ok = False
                if tup:
                    mm = strip(tup[0]["init"])
                    for a2 in mm.get("arms", []):
                        v2, b2 = e4.arm_variant(a2)
                        if v2 == "tensor::Shape::Triple":
                            body = strip(a2["body"])
                            order_ok = body.get("k") == "tup" and [e4.local_hid(z) for z in body["xs"]] == [h for (_, h) in b2]
                okg = [e4.local_hid(d) for d in dims] == want and pretty(elem) in ("*iter.next().unwrap()", "iter.next().unwrap()") and src_ok and order_ok
                detail = "ranges %s elem %s" % ([pretty(d) for d in dims], pretty(elem))
    if not okg:
        # the same fact on the E6 summary: the Single arm returns a C x H x W nest (C, H, W the extents of the requested Shape::Triple, in
        # order) whose elements are drawn, innermost loop fastest, from ONE iterator over the vector - map/collect chains or push loops
        from .. import e6
        E = e6.Exec(c, fn)
        SD = ("field", ("p", "self"), "data")
        OUT = ("p", pat_binds(fn["params"][1])[0][0])
        is_next = lambda e: e[0] == "mut" and e[1].rsplit("::", 1)[-1] == "next"

        def nest(t):
            es = e6.elementwise_sequence(E, t, allow=is_next)
            if es is None:
                return [], t
            rng = e6.range_of(es[0])
            if rng is None or rng[0] != ("lit", "0"):
                return None
            inner = nest(es[1])
            if inner is None:
                return None
            return [rng[1]] + inner[0], inner[1]
        okE = None
        for p_ in E.run_fn():
            if p_.exit is not None and p_.exit[0] != "return":
                continue
            if e6.variant_of(p_).get(SD) != "tensor::Data::Single":
                continue
            val_ = p_.val if p_.exit is None else p_.exit[1]
            nv = nest(val_)
            good = False
            if nv is not None and len(nv[0]) == 3:
                want = [("payload", OUT, "tensor::Shape::Triple", i_) for i_ in range(3)]
                leaf = nv[1]
                a1 = e6.is_call(leaf, "unwrap", 1) or e6.is_call(leaf, "expect")
                a2 = e6.is_call(a1[0], "next", 1) if a1 else None
                src = e6.strip_upd(a2[0]) if a2 else None
                # the iterator: created once from the matched vector
                root = src
                while isinstance(root, tuple) and root and root[0] in ("loopin", "loopout"):
                    root = root[3] if root[0] == "loopout" and len(root) == 4 else None
                    if root is None:
                        break
                itname = e6.root_name(src) if src is not None else None
                created = [v_ for v_ in p_.env.values() if isinstance(v_, tuple) and v_ and e6.root_name(v_) == itname]
                vec_ = ("payload", SD, "tensor::Data::Single", 0)
                from_vec = any(e6.contains(v_, vec_) for v_ in created) or (src is not None and e6.contains(src, vec_))
                good = [e6.strip_upd(x) for x in nv[0]] == want and a2 is not None and itname is not None and from_vec
                detail = "nest %s leaf %s" % ([e6.show(x, 2) for x in nv[0]], e6.show(leaf, 2)[:60])
            okE = good if okE is None else (okE and good)
        okg = bool(okE)
    ctx.check("R14.2", "get_triple:row-major-rebuild", okg, "get_triple:" + short(detail, 80), c.loc(fn), "nested ranges (oc, oh, ow) over one iterator of the vector")


def arms_env(c, body, dh):
    """env for fn-level lets inside an arm body with the data root named D"""
    env = {}
    N = e1.Norm(c, env)
    for s in top_stmts_of(body):
        if s.get("k") == "let" and s["pat"].get("k") == "bind" and s["init"] is not None:
            try:
                v = N.norm(s["init"])
                env[s["pat"]["hid"]] = _rename_root(v, c, body, dh)
            except ValueError:
                pass
    return env


def _rename_root(v, c, body, dh):
    name = None
    for x in walk(body):
        if x.get("k") == "local" and x["hid"] == dh:
            name = x["name"]
            break
    if name is None:
        return v
    table = {"len(%s)" % name: Rat.atom("len(D)"), "len(%s[0])" % name: Rat.atom("len(D[0])"), "len(%s[0][0])" % name: Rat.atom("len(D[0][0])")}
    return e1.rewrite(v, lambda nm, args, atom: table.get(atom) if nm is None else None)


def r3_constructors(ctx):
    c = ctx.crate
    want = {"single": ["data.len()"], "double": ["data.len()", "data[0].len()"], "triple": ["data.len()", "data[0].len()", "data[0][0].len()"],
            "quadruple": ["data.len()", "data[0].len()", "data[0][0].len()", "data[0][0][0].len()"],
            "quintuple": ["data.len()", "data[0].len()", "data[0][0].len()", "data[0][0][0].len()", "data[0][0][0][0].len()"]}
    for nm, dims in want.items():
        fn = ctx.fn(T + nm)
        sh = [x for x in walk(fn["body"]) if x.get("k") == "call" and x["callee"].startswith("tensor::Shape::")]
        from ..hir import let_table, cpretty
        TT_ = let_table(fn["body"])
        got = [cpretty(strip(z), TT_) for z in sh[0]["args"]] if sh else []
        ctx.check("R14.3", "constructor:" + nm, got == dims and sh[0]["callee"].lower().endswith(nm), "constructor-shape:%s:%s" % (nm, ",".join(got)), c.loc(fn), "shape = (%s)" % ", ".join(dims))
    # zeros / ones: decided on the E6 summary - per rank the result is Tensor { shape: <the argument>, data: <rank>(nest) } where the
    # nest is filled with the literal and has exactly the shape's own extents, outermost first (vec! nests, map/collect chains, mixed)
    from .. import e6
    for nm, lit in (("zeros", "0.0"), ("ones", "1.0")):
        fn = ctx.fn(T + nm)
        SH = ("p", pat_binds(fn["params"][0])[0][0])
        E = e6.Exec(c, fn)
        res = {}
        for p_ in E.run_fn():
            if p_.exit is not None and p_.exit[0] != "return":
                continue
            vs = e6.variant_of(p_)
            if SH not in vs:
                continue
            res.setdefault(vs[SH].split("::")[-1], []).append(p_.val if p_.exit is None else p_.exit[1])
        for rank, n_ in (("Single", 1), ("Double", 2), ("Triple", 3), ("Quadruple", 4)):
            vals = res.get(rank, [])
            ok = len(vals) == 1
            if ok:
                f = dict(vals[0][2]) if isinstance(vals[0], tuple) and vals[0] and vals[0][0] == "struct" else {}
                d = f.get("data")
                inner = d[2][0] if isinstance(d, tuple) and d and d[0] in ("var", "call") and d[1].endswith("Data::" + rank) and len(d[2]) == 1 else None
                cn = e6.const_nest(E, inner) if inner is not None else None
                want = [("payload", SH, "tensor::Shape::" + rank, i_) for i_ in range(n_)]
                ok = f.get("shape") == SH and cn is not None and cn[0] == want and cn[1] == ("lit", lit)
            ctx.check("R14.3", "%s:%s" % (nm, rank), ok, "%s-dims:%s" % (nm, rank), c.loc(fn), "data dims = shape components, filled with %s" % lit)


def _only_pure_lets(stmts):
    """statements before the assertion: plain `let`s that neither touch the tensor's data nor mutate anything"""
    for s_ in stmts:
        if s_.get("k") != "let":
            return False
        for x in walk(s_):
            if x.get("k") in ("assign", "assignop") or (x.get("k") == "field" and x["f"] == "data"):
                return False
            if x.get("k") in ("mcall", "call") and any(a.get("k") == "ref" and a.get("mut") for a in ([x["recv"]] if x.get("k") == "mcall" else []) + list(x["args"])):
                return False
    return True


RULES["R14.1"] += " | returned-as-computed: on the E6 value of every non-panicking path of reshape / flatten / get_flat / get_triple and the tensor constructors, the only straight-line in-place changes are appends and the replacement of the data / shape fields as a whole: no entry is assigned, dropped or moved after the copy loops"


def run(ctx):
    from .common import returned_as_computed
    ctx.guard("R14.1", "returned-as-computed", returned_as_computed, ctx, "R14.1", {"src/tensor.rs"}, lambda p_, l_: l_ in ("reshape", "flatten", "get_flat", "get_triple", "single", "double", "triple", "quadruple", "quintuple", "nested", "nestedoptional", "unnested", "unnestedoptional"), ("field-assignment",), 8)
    ctx.guard("R14.1", "reshape", r1_r2_reshape, ctx)
    ctx.guard("R14.2", "flatten", r2_flatten, ctx)
    ctx.guard("R14.3", "constructors", r3_constructors, ctx)
    ctx.floor("R14.1", 5, "")
    ctx.floor("R14.2", 6, "")
    ctx.floor("R14.3", 2 + 1 + 5 + 8, "")
