"""C09 - Dropout never leaks into prediction or validation (typestate argument)."""
from ..core import Unestablished
from ..hir import walk, strip, pretty, short, children, calls
from .. import e4

LEVEL = "proof"
RULES = {
    "R09.1": "every call of tensor::Tensor::dropout is made from a layer `forward` and is dominated (MIR dominators) "
             "by the true edge of a branch on `(*self).training`",
    "R09.2": "the `training` fields are written (MIR field writes, &mut borrows, struct literals) only by "
             "Network::learn, Network::validate, Feedback::training and, as constant false, by the layer constructors; "
             "the fields are not public; Feedback::training is called only from learn/validate",
    "R09.3": "Network::learn: a set-all(true) over self.layers precedes the epoch loop and a set-all(false) follows it "
             "as top-level statements (every non-panicking path to the return passes them); no `return` in learn",
    "R09.4": "Network::validate: a set-all(false) over self.layers (no early exit, every flag-bearing variant) precedes "
             "every evaluation call; the restoring set-all(true) is guarded by a local that is false unless a "
             "`training` flag was read true on entry",
    "R09.5": "Feedback::training assigns its argument to the flag of every flag-bearing variant, for every element",
    "R09.6": "predict / predict_batch / forward / _forward take &self and the crate has no interior mutability in "
             "layer types (flags cannot change during evaluation)",
}
RULES["R09.7"] = ("the dropout rate influences evaluation only under training: every read of a layer's `dropout` field outside "
                  "derived/Display impls is reached only under `self.training == true` (path conditions of the read: enclosing branches and "
                  "preceding diverging guards), so no inference-time rescaling or masking can depend on it")
ASSUMPTIONS = [
    "rustc type checking / borrow checking (no write to a pub(crate) bool without a MIR field write or &mut borrow)",
    "panics are rejections; unwinding out of learn() and continuing to use the network is out of scope",
    "external crates cannot write the flags (fields are pub(crate)); Network.layers is a pub field but the flags inside are not reachable mutably except through the three writers",
]
TRUSTED = ["rustc nightly front end (HIR, typeck, MIR construction, dominators)", "driver/src/main.rs", "sa/e4.py path enumeration"]

FLAG = "training"
EVAL_CALLEES = ("network::Network::predict", "network::Network::forward", "network::Network::_forward",
                "network::Network::predict_batch")


def layer_kinds(crate):
    """-> (flagged {variant_path: adt}, blocks {variant_path: adt}, others [variant_path])"""
    layer = crate.adts.get("network::Layer")
    if layer is None:
        raise Unestablished("enum network::Layer not found")
    flagged, blocks, others = {}, {}, []
    for v in layer["variants"]:
        vp = "network::Layer::" + v["name"]
        if len(v["fields"]) != 1:
            others.append(vp)
            continue
        adt = v["fields"][0]["ty"]
        a = crate.adts.get(adt)
        if a is None:
            others.append(vp)
            continue
        fields = a["variants"][0]["fields"]
        if any(f["name"] == FLAG and f["ty"] == "bool" for f in fields):
            flagged[vp] = adt
        elif any("network::Layer" in f["ty"] for f in fields):
            blocks[vp] = adt
        else:
            others.append(vp)
    return flagged, blocks, others


def check_set_all(ctx, rule, inst, fn, node, want, flagged, blocks, allow_guard=None):
    """node must be a full traversal of self.layers assigning `want` to every flag. want: ('lit','true'|'false') | ('local', hid)"""
    c = ctx.crate
    where = c.loc(fn, node)
    t = e4.traversal(node)
    if t is None or t["field"] != "layers":
        ctx.bad(rule, inst, "not-a-traversal-of-self.layers", where, "expected a traversal of self.layers, found: " + short(pretty(node)))
        return False
    if not e4.is_full_traversal(t):
        ctx.bad(rule, inst, "partial-traversal:" + ".".join(t["methods"]), where,
                "the traversal uses adaptors %s, which may skip elements" % t["methods"])
        return False
    binds = e4.pat_binds(t["pat"]) if hasattr(e4, "pat_binds") else None
    from ..hir import pat_binds
    binds = pat_binds(t["pat"])
    if len(binds) != 1:
        raise Unestablished("traversal pattern binds %d names" % len(binds), where)
    hid = binds[0][1]
    m = e4.find_match_on(t["body"], hid)
    if m is None:
        raise Unestablished("traversal body is not a `match` on the element: " + short(pretty(t["body"])), where)
    # early exits from the traversal as a whole
    outs = e4.outcomes(c, t["body"], lambda n: False)
    bad_exits = sorted({k[0] for (k, _) in outs if k == ("break", t["loop_id"]) or k == ("return",)
                        or (k[0] in ("break", "continue") and k[1] != t["loop_id"])})
    if t["kind"] == "for_each":
        bad_exits = [b for b in bad_exits if b != "return"]  # return in closure = next element (covered by must-hit below)
        outs2 = {k for (k, _) in outs}
        if ("return",) in outs2:
            pass
    ok = True
    if bad_exits:
        ctx.bad(rule, inst, "early-exit:" + ",".join(bad_exits), where,
                "the traversal can stop before visiting every layer (%s inside the loop body): later layers keep their flag"
                % ", ".join(bad_exits))
        ok = False
    seen = {}
    guarded = {}
    for arm in m["arms"]:
        vp, b = e4.arm_variant(arm)
        if arm.get("guard") is not None and not (allow_guard and allow_guard(arm)):
            guarded.setdefault(vp, arm)        # `Variant(l) if cond => ..`: when cond fails the layer falls through to a later arm
            continue
        seen.setdefault(vp, (arm, b))
    for vp, arm in guarded.items():
        if vp in flagged or vp in blocks:
            ctx.bad(rule, "%s:%s" % (inst, vp.split("::")[-1]), "flag-set-only-under-guard:" + short(pretty(arm["guard"]), 40), c.loc(fn, arm["body"]),
                    "the arm for %s only applies when `%s`; otherwise the layer's flag is left as it was" % (vp, short(pretty(arm["guard"]), 80)))
            ok_guard = False
    for vp, adt in list(flagged.items()) + list(blocks.items()):
        sub = "%s:%s" % (inst, vp.split("::")[-1])
        if vp not in seen:
            ctx.bad(rule, sub, "variant-not-covered", where, "no arm for %s: its flag is left unchanged" % vp)
            ok = False
            continue
        arm, b = seen[vp]
        if len(b) != 1:
            ctx.bad(rule, sub, "variant-payload-not-bound", c.loc(fn, arm["body"]), "arm for %s does not bind the layer" % vp)
            ok = False
            continue
        lh = b[0][1]

        def val_ok(rhs):
            if want[0] == "lit":
                return e4.lit_value(rhs) == want[1]
            return e4.local_hid(rhs) == want[1]

        if vp in flagged:
            def pred(n, lh=lh):
                r = e4.is_field_assign(n, lh, FLAG)
                return r is not None and val_ok(r)
        else:
            def pred(n, lh=lh, adt=adt):
                return (n.get("k") == "mcall" and n["callee"] == adt + "::training" and e4.local_hid(n["recv"]) == lh
                        and len(n["args"]) == 1 and val_ok(n["args"][0]))
        o = e4.outcomes(c, arm["body"], pred)
        misses = sorted({str(k[0]) for (k, cnt) in o if cnt == 0})
        # any other assignment to the flag with a different value?
        wrong = []
        for n in walk(arm["body"]):
            r = e4.is_field_assign(n, lh, FLAG) if vp in flagged else None
            if r is not None and not val_ok(r):
                wrong.append(short(pretty(n), 80))
        if wrong:
            ctx.bad(rule, sub, "assigns-other-value", c.loc(fn, arm["body"]), "flag assigned something else than %s: %s" % (want[1], wrong))
            ok = False
        elif misses:
            ctx.bad(rule, sub, "flag-not-set-on-path:" + ",".join(misses), c.loc(fn, arm["body"]),
                    "arm for %s does not set the flag to %s on every path (paths ending in %s miss it): %s"
                    % (vp, want[1], misses, short(pretty(arm["body"]), 200)))
            ok = False
        else:
            ctx.ok(rule, sub, "%s: flag := %s on every path" % (vp, want[1]), c.loc(fn, arm["body"]))
    return ok


def top_stmts(fn):
    b = fn["body"]
    while b.get("k") == "blk":
        b = b["b"]
    nodes = list(b["stmts"])
    if b["tail"] is not None:
        nodes.append(b["tail"])
    return nodes


def contains_call(node, callees):
    return any(cal in callees for (_, cal) in calls(node))


def eval_callees(c):
    """the functions of the crate from which a flag-reading layer `forward` is reachable in the MIR call graph (predict, forward,
    predict_batch, ... and any helper added around them), minus learn/validate themselves"""
    flagged, blocks, _ = layer_kinds(c)
    targets = {adt + "::forward" for adt in list(flagged.values()) + list(blocks.values())}
    rev = {}
    for mk, mv in c.mir.items():
        for cl in mv["facts"]["calls"]:
            rev.setdefault(cl["callee"], set()).add(mv["parent"])
    seen, stack = set(), list(targets)
    while stack:
        f = stack.pop()
        if f in seen:
            continue
        seen.add(f)
        stack.extend(rev.get(f, ()))
    return tuple(sorted((set(f for f in seen if f in c.fns) | set(EVAL_CALLEES)) - {"network::Network::learn", "network::Network::validate"}))


def _e6_dropout_view(c, fn):
    """E6 view of a layer forward: for every non-panicking path (training known true?, dropout effects, does the dropout setting occur in
    the result / the effects?)."""
    from .. import e6
    E = e6.Exec(c, fn)
    SELF = ("p", "self")
    TR, DR = ("field", SELF, FLAG), ("field", SELF, "dropout")
    out = []
    for p in E.run_fn():
        if p.exit is not None and p.exit[0] == "panic":
            continue
        tr = None
        for (t, pol) in p.pc:
            if t == TR:
                tr = pol
            elif isinstance(t, tuple) and t[0] == "bin" and t[1] == "Eq" and TR in (t[2], t[3]) and ("lit", "true") in (t[2], t[3]):
                tr = pol
        drops = [e for e in p.eff if e[0] == "mut" and e[1] == "tensor::Tensor::dropout"]
        val = p.val if p.exit is None else p.exit[1]
        others = tuple(e for e in p.eff if e not in drops)
        rest = tuple(sorted(repr((t, pol)) for (t, pol) in p.pc if not e6.contains(t, DR) and t != TR))
        out.append(dict(training=tr, drops=drops, mentions=e6.contains((e6.strip_upd(val), others), DR), val=e6.strip_upd(val), others=others, rest=rest,
                        rate_ok=all(len(e[3]) == 1 and e[3][0] == ("payload", DR, "Option::Some", 0) for e in drops)))
    return out


def _dropout_only_under_training_e6(c, fn):
    """on the E6 summary: dropout is applied only on paths where self.training holds, with the configured rate, and on the other paths
    neither the result nor any effect depends on the dropout setting (paths that differ only in it agree)"""
    view = _e6_dropout_view(c, fn)
    if not view or not any(v["drops"] for v in view):
        return False
    for v in view:
        if v["drops"] and (v["training"] is not True or not v["rate_ok"]):
            return False
        if v["training"] is not True and v["mentions"]:
            return False
    groups = {}
    for v in view:
        if v["training"] is not True:
            groups.setdefault(v["rest"], []).append((v["val"], v["others"]))
    return all(len({repr(x) for x in g}) == 1 for g in groups.values())


def r1(ctx):
    c = ctx.crate
    sites = []
    for mk, mv in c.mir.items():
        for cl in mv["facts"]["calls"]:
            if cl["callee"] == "tensor::Tensor::dropout":
                sites.append((mk, mv["parent"], cl))
    flagged, blocks, _ = layer_kinds(c)
    allowed = {adt + "::forward" for adt in flagged.values()}
    for mk, parent, cl in sites:
        inst = "%s" % parent
        fn = c.fn(parent)
        where = "%s:%s" % (fn["file"], cl["line"]) if fn else parent
        ctx.analysed_fns.add(parent)
        inlined_helper = bool(c.mir[mk].get("inlined_from")) and parent in allowed
        if parent not in allowed or (mk != parent and not inlined_helper):
            ctx.bad("R09.1", inst, "dropout-called-outside-layer-forward", where,
                    "tensor::Tensor::dropout is called from %s; only %s may apply dropout" % (mk, sorted(allowed)))
            continue
        g = [x for x in cl["guards"] if x["src"] == "(*self).training"]
        true_edge = [x for x in g if (x["val"] == "otherwise" and x["not"] == ["0"]) or x["val"] == "1"]
        if true_edge and not inlined_helper:
            ctx.ok("R09.1", inst, "dropout call dominated by true edge of (*self).training; guards=%s" % [(x["src"], x["val"]) for x in cl["guards"]], where)
        elif fn is not None and _dropout_only_under_training_e6(c, fn):
            # the flag reaches the branch through a temporary (a tuple scrutinee, a helper's parameter): decided on the E6 path summary instead
            ctx.ok("R09.1", inst, "every path of %s that applies dropout has self.training among its path conditions (E6 summary)" % parent, where)
        else:
            ctx.bad("R09.1", inst, "dropout-not-guarded-by-training", where,
                    "call of dropout is not dominated by the true edge of a branch on (*self).training; dominating guards: %s"
                    % [(x["src"], x["val"]) for x in cl["guards"]])
    # every flagged layer that has a dropout field must appear (otherwise nothing to check for it)
    ctx.floor("R09.1", len(flagged), "one guarded dropout site per flag-bearing layer kind")


def r2(ctx):
    c = ctx.crate
    flagged, blocks, _ = layer_kinds(c)
    adts = set(flagged.values())
    block_training = {adt + "::training" for adt in blocks.values()}
    allowed = {"network::Network::learn", "network::Network::validate"} | block_training
    for adt in sorted(adts):
        a = c.adts[adt]
        f = [x for x in a["variants"][0]["fields"] if x["name"] == FLAG][0]
        ctx.check("R09.2", "vis:" + adt, f["vis"] != "Public", "flag-field-is-public", adt,
                  "field %s.training visibility %s" % (adt, f["vis"]),
                  "%s.training is `pub`: any downstream crate can switch dropout on" % adt)
    n = 0
    for mk, mv in c.mir.items():
        for w in mv["facts"]["writes"] + mv["facts"]["mutborrows"]:
            if w["field"] == FLAG and w["adt"] in adts:
                n += 1
                parent = mv["parent"]
                fn = c.fn(parent)
                where = "%s:%s" % (fn["file"], w["line"]) if fn else parent
                inst = "write:%s:%s" % (parent, w["adt"].split("::")[-1])
                if parent in allowed:
                    ctx.ok("R09.2", inst, "write of %s in allowed writer %s" % (w["place"], parent), where)
                else:
                    ctx.bad("R09.2", inst, "flag-written-outside-allowed-writers", where,
                            "%s writes/borrows-mutably %s.training (%s); allowed writers: %s" % (mk, w["adt"], w["place"], sorted(allowed)))
    # struct literals
    for path, fn in c.fns.items():
        for x in walk(fn["body"]):
            if x.get("k") == "struct" and (x["path"] in adts or (x["path"].startswith("Self:") and x["path"][5:] in adts)):
                adt = x["path"][5:] if x["path"].startswith("Self:") else x["path"]
                fl = [e for (nm, e) in x["fs"] if nm == FLAG]
                inst = "literal:%s" % path
                where = c.loc(fn, x)
                if path == "<%s as std::clone::Clone>::clone" % adt:
                    # derived Clone copies the flag of the source object (no new state is introduced)
                    src = strip(fl[0]) if fl else None
                    is_copy = (src is not None and src.get("k") == "call" and src["callee"].endswith("Clone::clone")
                               and "self.training" in pretty(src))
                    ctx.check("R09.2", inst, is_copy, "clone-does-not-copy-flag", where, "Clone copies the flag")
                elif path != adt + "::create":
                    ctx.bad("R09.2", inst, "layer-constructed-outside-create", where, "%s builds a %s literal" % (path, adt))
                elif not fl or e4.lit_value(fl[0]) != "false":
                    ctx.bad("R09.2", inst, "initial-flag-not-false", where, "constructor sets training to %s" % (pretty(fl[0]) if fl else "?"))
                else:
                    ctx.ok("R09.2", inst, "constructor initialises training = false", where)
    # callers of Feedback::training
    for mk, mv in c.mir.items():
        for cl in mv["facts"]["calls"]:
            if cl["callee"] in block_training:
                parent = mv["parent"]
                inst = "call:%s" % parent
                fn = c.fn(parent)
                where = "%s:%s" % (fn["file"], cl["line"]) if fn else parent
                ctx.check("R09.2", inst, parent in ("network::Network::learn", "network::Network::validate"),
                          "block-training-called-outside-learn-validate", where, "", "%s calls %s" % (mk, cl["callee"]))
    ctx.floor("R09.2", 3 + 6 + 3, "3 visibility facts, >=6 writers, 3 constructors")


def r3(ctx):
    c = ctx.crate
    fn = ctx.fn("network::Network::learn")
    flagged, blocks, _ = layer_kinds(c)
    stmts = top_stmts(fn)
    # the epoch loop: outermost loop statement containing training evaluation
    loops = [i for i, s in enumerate(stmts) if s.get("k") in ("for", "loop") and
             contains_call(s, ("network::Network::forward", "network::Network::update", "network::Network::backward"))]
    if len(loops) != 1:
        raise Unestablished("expected exactly one top-level training loop in learn, found %d" % len(loops), c.loc(fn))
    li = loops[0]
    # no explicit return in learn (all paths reach the end)
    rets = [x for x in walk(fn["body"], into_closures=False) if x.get("k") == "ret"]
    ctx.check("R09.3", "no-early-return", not rets, "return-inside-learn", c.loc(fn, rets[0]) if rets else c.loc(fn),
              "learn has a single exit", "an explicit `return` in learn can skip the flag reset")
    before = [s for s in stmts[:li] if e4.traversal(s) and e4.traversal(s)["field"] == "layers"]
    after = [s for s in stmts[li + 1:] if e4.traversal(s) and e4.traversal(s)["field"] == "layers"]
    if not before:
        ctx.bad("R09.3", "set-true-before-loop", "missing", c.loc(fn, stmts[li]), "no traversal of self.layers setting the flags before the training loop")
    else:
        check_set_all(ctx, "R09.3", "set-true-before-loop", fn, before[-1], ("lit", "true"), flagged, blocks)
    if not after:
        ctx.bad("R09.3", "set-false-after-loop", "missing", c.loc(fn, stmts[li]),
                "no top-level traversal of self.layers clearing the flags after the training loop: the network keeps dropout active after learn()")
    else:
        check_set_all(ctx, "R09.3", "set-false-after-loop", fn, after[-1], ("lit", "false"), flagged, blocks)
        # nothing after the reset may set flags again / evaluate
    # statements between set-true and the loop / after the reset must not evaluate the network with flags in the wrong state
    if before:
        bi = stmts.index(before[-1])
        for s in stmts[:bi]:
            if contains_call(s, eval_callees(c) + ("network::Network::validate",)):
                ctx.bad("R09.3", "evaluation-before-flags", "evaluation-before-set-true", c.loc(fn, s), short(pretty(s)))


def r4(ctx):
    c = ctx.crate
    fn = ctx.fn("network::Network::validate")
    flagged, blocks, _ = layer_kinds(c)
    stmts = top_stmts(fn)
    EV = eval_callees(c)
    evals = [i for i, s in enumerate(stmts) if contains_call(s, EV)]
    if not evals:
        raise Unestablished("validate does not call predict/forward", c.loc(fn))
    first = evals[0]
    clears = [i for i, s in enumerate(stmts[:first]) if e4.traversal(s) and e4.traversal(s)["field"] == "layers"]
    if not clears:
        ctx.bad("R09.4", "clear-before-evaluation", "missing", c.loc(fn, stmts[first]),
                "no top-level traversal of self.layers clearing the flags before the evaluation")
        return
    ci = clears[-1]
    check_set_all(ctx, "R09.4", "clear-before-evaluation", fn, stmts[ci], ("lit", "false"), flagged, blocks)
    # between the clearing and the last evaluation nothing switches a flag back on
    early = []
    for s in stmts[ci + 1:evals[-1] + 1]:
        for x in walk(s):
            if (x.get("k") == "assign" and strip(x["l"]).get("k") == "field" and strip(x["l"])["f"] == FLAG and e4.lit_value(x["r"]) != "false") or \
               (x.get("k") == "mcall" and x["callee"].endswith("::training") and x["args"] and e4.lit_value(x["args"][0]) != "false"):
                early.append(x)
    ctx.check("R09.4", "flags-stay-cleared-until-last-evaluation", not early, "flags-set-before-last-evaluation", c.loc(fn, early[0]) if early else c.loc(fn),
              "no flag is switched on between the clearing and the last statement that evaluates the network (%d statements)" % (evals[-1] - ci),
              "validate switches a training flag on at %s while a later statement still evaluates the network (%s): that evaluation runs with dropout"
              % (c.loc(fn, early[0]) if early else "", short(pretty(stmts[evals[-1]]), 80)))
    # restore: any later statement that sets flags true must be `if <local> { set-all(true) }` with a faithful local
    for s in stmts[evals[-1] + 1:]:
        sets_true = [x for x in walk(s) if x.get("k") == "assign" and strip(x["l"]).get("k") == "field"
                     and strip(x["l"])["f"] == FLAG and e4.lit_value(x["r"]) == "true"]
        calls_true = [x for x in walk(s) if x.get("k") == "mcall" and x["callee"].endswith("::training")
                      and x["args"] and e4.lit_value(x["args"][0]) == "true"]
        if not sets_true and not calls_true:
            continue
        where = c.loc(fn, s)
        if s.get("k") != "if" or s["el"] is not None or e4.local_hid(s["c"]) is None:
            ctx.bad("R09.4", "restore-guard", "restore-not-guarded-by-entry-state", where,
                    "flags are set to true after evaluation without a guard recording the entry state: " + short(pretty(s)))
            continue
        ghid = e4.local_hid(s["c"])
        body = s["th"]
        inner = [x for x in top_stmts({"body": body}) if e4.traversal(x)]
        if len(inner) == 1:
            check_set_all(ctx, "R09.4", "restore-set-true", fn, inner[0], ("lit", "true"), flagged, blocks)
        # the guard local: initialised false, assigned true only under a condition reading a `.training` flag
        faithful = True
        why = ""
        init = None
        for st in stmts:
            if st.get("k") == "let" and (ghid in [h for (_, h) in __import__("sa.hir", fromlist=["pat_binds"]).pat_binds(st["pat"])]):
                init = st["init"]
        any_form = False
        if init is not None and e4.lit_value(init) != "false":
            # `let guard = self.layers.iter().any(|l| <true only where a layer's training flag is read as true>)`, never assigned afterwards
            try:
                any_form = _guard_is_any_flag(c, fn, ghid)
            except Exception:  # noqa
                any_form = False
        if any_form:
            pass
        elif init is None or e4.lit_value(init) != "false":
            faithful, why = False, "guard local is not initialised to false"
        for x in walk(fn["body"]):
            if x.get("k") == "assign" and e4.local_hid(x["l"]) == ghid:
                r_ = strip(x["r"])
                if r_ is not None and r_.get("k") == "bin" and r_["op"] == "Or":
                    # `guard = guard || layer.training` (either order): becomes true only if a flag was read true
                    l0, r0 = strip(r_["l"]), strip(r_["r"])
                    sides = [l0, r0]
                    keeps = [y for y in sides if e4.local_hid(y) == ghid]
                    flags = [y for y in sides if y is not None and y.get("k") == "field" and y["f"] == FLAG]
                    if len(keeps) == 1 and len(flags) == 1:
                        continue
                if e4.lit_value(x["r"]) != "true":
                    faithful, why = False, "guard local assigned a non-literal"
                    continue
                # find an enclosing `if` whose condition reads `.training` as a positive conjunct
                if not _under_flag_test(fn["body"], x):
                    faithful, why = False, "guard local set to true without testing a layer's training flag"
        ctx.check("R09.4", "restore-guard", faithful, "restore-guard-not-faithful", where,
                  "restore guarded by a local that is true only if a flag was true on entry", why)


def _guard_is_any_flag(c, fn, ghid):
    """the guard local is bound once to `<layers>.iter().any(closure)` where the closure yields `true` only on paths that read a `.training` flag as
    true (or yields the flag itself), and is never assigned again"""
    from .. import e6
    lets = [x for x in walk(fn["body"]) if x.get("k") == "let" and x["pat"].get("k") == "bind" and x["pat"].get("hid") == ghid]
    if len(lets) != 1 or any(x.get("k") in ("assign", "assignop") and e4.local_hid(x["l"]) == ghid for x in walk(fn["body"])):
        return False
    E = e6.Exec(c, fn)
    E.run_fn()
    init = strip(lets[0]["init"])
    if init.get("k") != "mcall" or init.get("name") != "any" or len(init.get("args") or []) != 1 or strip(init["args"][0]).get("k") != "closure":
        return False
    src = strip(init["recv"])
    while src is not None and src.get("k") == "mcall" and src.get("name") in ("iter", "iter_mut") and not src["args"]:
        src = strip(src["recv"])
    if not (src is not None and src.get("k") == "field" and src.get("f") == "layers"):
        return False
    cid = strip(init["args"][0]).get("id")
    S = E.loop_summaries.get("cl%s" % cid)
    if S is None:
        return False
    for p in S["paths"]:
        if p.exit is not None:
            continue
        v = e6.strip_upd(p.val)
        if v in (("lit", "false"),):
            continue
        flag_read = any(pol and isinstance(t, tuple) and t and t[0] == "field" and t[2] == FLAG for (t, pol) in p.pc)
        if v == ("lit", "true") and flag_read:
            continue
        if isinstance(v, tuple) and v and v[0] == "field" and v[2] == FLAG:
            continue
        return False
    return True


def _positive_conjuncts(cnd):
    cnd = strip(cnd)
    if cnd is None:
        return []
    if cnd.get("k") == "bin" and cnd["op"] == "And":
        return _positive_conjuncts(cnd["l"]) + _positive_conjuncts(cnd["r"])
    return [cnd]


def _under_flag_test(root, target):
    """Is `target` inside the then-branch of an `if` with a positive conjunct `<x>.training`?"""
    def rec(n, under):
        if n is target:
            return under
        k = n.get("k")
        if k == "if":
            pos = any(cj.get("k") == "field" and cj["f"] == FLAG for cj in _positive_conjuncts(n["c"]))
            r = rec(n["c"], under)
            if r is not None:
                return r
            r = rec(n["th"], under or pos)
            if r is not None:
                return r
            if n["el"] is not None:
                r = rec(n["el"], under)
                if r is not None:
                    return r
            return None
        for ch in children(n):
            r = rec(ch, under)
            if r is not None:
                return r
        return None
    return bool(rec(root, False))


def r5(ctx):
    c = ctx.crate
    flagged, blocks, _ = layer_kinds(c)
    for vp, adt in blocks.items():
        fn = ctx.fn(adt + "::training")
        if len(fn["params"]) != 2 or fn["params"][1].get("k") != "bind":
            raise Unestablished("unexpected signature of %s::training" % adt, c.loc(fn))
        phid = fn["params"][1]["hid"]
        stmts = top_stmts(fn)
        travs = [s for s in stmts if e4.traversal(s) and e4.traversal(s)["field"] == "layers"]
        if len(travs) != 1:
            raise Unestablished("%s::training: expected one traversal of self.layers" % adt, c.loc(fn))
        # nested blocks are unsupported (panic) -> only flagged variants are required here
        check_set_all(ctx, "R09.5", adt.split("::")[-1] + "::training", fn, travs[0], ("local", phid), flagged, {})


def r6(ctx):
    c = ctx.crate
    for p in ("network::Network::predict", "network::Network::predict_batch", "network::Network::forward",
              "network::Network::_forward"):
        fn = ctx.fn(p)
        ctx.check("R09.6", "self-kind:" + p, fn["inputs"] and fn["inputs"][0] == "&network::Network",
                  "evaluation-takes-mutable-self", c.loc(fn), "takes &self", "%s takes %s" % (p, fn["inputs"][:1]))
    flagged, blocks, _ = layer_kinds(c)
    for adt in sorted(set(flagged.values()) | set(blocks.values())):
        for f in c.adts[adt]["variants"][0]["fields"]:
            if any(t in f["ty"] for t in ("Cell<", "RefCell<", "Mutex<", "RwLock<", "Atomic", "UnsafeCell<", "OnceCell<", "OnceLock<")):
                ctx.bad("R09.6", "interior:%s.%s" % (adt, f["name"]), "interior-mutability", adt, f["ty"])
        ctx.ok("R09.6", "interior:" + adt, "no interior-mutable field", adt)
    for adt in sorted(flagged.values()):
        fn = ctx.fn(adt + "::forward")
        ctx.check("R09.6", "self-kind:" + adt + "::forward", fn["inputs"][0] == "&" + adt, "forward-takes-mutable-self", c.loc(fn))


def _only_controls_training_effects(c, fn, x):
    """The read `x` is (part of) the condition of a unit-valued `if`/`if let`/`match` and every effect in the branches it
    controls happens under `self.training == true` (so outside training the branch is a no-op)."""
    ctrl = None
    for n in walk(fn["body"]):
        if n.get("k") == "if" and any(y is x for y in walk(n["c"])):
            ctrl = (n, [n["th"]] + ([n["el"]] if n["el"] is not None else []))
        elif n.get("k") == "match" and any(y is x for y in walk(n["scrut"])):
            ctrl = (n, [a["body"] for a in n["arms"]] + [a["guard"] for a in n["arms"] if a.get("guard")])
    if ctrl is None:
        return False
    node, branches = ctrl
    if (c.ty(node) or "()") != "()":
        return False      # the construct yields a value that depends on the dropout configuration
    base = pretty(strip(x["b"]))

    def effectful(n):
        k = n.get("k")
        if k in ("assign", "assignop", "ret", "break", "continue"):
            return True
        if k in ("mcall", "call"):
            for a in ([n["recv"]] if k == "mcall" else []) + list(n["args"]):
                t = c.tya(a) or c.ty(a) or ""
                if t.startswith("&mut") or (a.get("k") == "ref" and a.get("mut")):
                    return True
            if n.get("mac"):
                return True
        return False
    for b in branches:
        for e in walk(b):
            if not effectful(e):
                continue
            pcs = e4.path_conditions(c, fn["body"], e) or []
            ok = False
            for (a, pol, _) in e4.atoms_of(pcs):
                a = strip(a)
                if pol and a.get("k") == "field" and a["f"] == FLAG and pretty(strip(a["b"])) == base:
                    ok = True
            if not ok:
                return False
    return True


def r7(ctx):
    c = ctx.crate
    n = 0
    for path, fn in sorted(c.fns.items()):
        if fn.get("body") is None or path.startswith("<"):
            continue
        for x in walk(fn["body"]):
            if x.get("k") != "field" or x["f"] != "dropout":
                continue
            base_ty = (c.tya(x["b"]) or c.ty(x["b"]) or "").lstrip("&").replace("mut ", "")
            adt = c.adts.get(base_ty)
            if adt is None or not any(f["name"] == FLAG for f in adt["variants"][0]["fields"]):
                continue
            n += 1
            ctx.analysed_fns.add(path)
            pcs = e4.path_conditions(c, fn["body"], x) or []
            under = False
            for (a, pol, _) in e4.atoms_of(pcs):
                a = strip(a)
                if pol and a.get("k") == "field" and a["f"] == FLAG and pretty(strip(a["b"])) == pretty(strip(x["b"])):
                    under = True
            if not under:
                under = _only_controls_training_effects(c, fn, x)
            if not under and path.endswith("::forward"):
                under = _dropout_only_under_training_e6(c, fn)
            ctx.check("R09.7", "%s:dropout-read" % path, under, "dropout-rate-read-outside-training", c.loc(fn, x),
                      "`%s` is read only under `%s.training`" % (pretty(x), pretty(strip(x["b"]))),
                      "`%s` is read on a path where `%s.training` is not known to be true (conditions on the way: %s): the dropout "
                      "configuration can influence the result of an evaluation (prediction / validation) pass"
                      % (pretty(x), pretty(strip(x["b"])), [(short(pretty(a), 40), pol) for (a, pol, _) in e4.atoms_of(pcs)]))
    ctx.floor("R09.7", 3, "Dense, Convolution, Deconvolution forward")


def r8(ctx):
    """learn computes its validation metrics through Network::validate (which clears the flags first), never by evaluating the network
    itself while the flags are set: inside learn (helpers inlined) no call of predict / predict_batch; forward is called only from the
    per-sample gradient computation"""
    c = ctx.crate
    fn = ctx.fn("network::Network::learn")
    bad = sorted({cal for _, cal in calls(fn["body"]) if cal in ("network::Network::predict", "network::Network::predict_batch")})
    ctx.check("R09.8", "learn-evaluates-only-through-validate", not bad, "learn-calls:" + ",".join(b.split("::")[-1] for b in bad), c.loc(fn),
              "no predict / predict_batch inside learn (validation goes through validate())",
              "Network::learn (with its private helpers inlined) calls %s while the training flags are set: metrics computed that way include dropout" % bad)
    val = [x for x in walk(fn["body"]) if x.get("k") == "mcall" and x["callee"] == "network::Network::validate"]
    ctx.check("R09.8", "learn-validates-through-validate", len(val) >= 1, "no-validate-call-in-learn", c.loc(fn), "learn calls self.validate(..) for its per-epoch metrics")


RULES["R09.8"] = ("Network::learn (private helpers inlined) never calls predict / predict_batch itself: its per-epoch validation metrics come from "
                  "Network::validate, which clears the flags before evaluating")


def run(ctx):
    ctx.guard("R09.8", "learn-evaluation", r8, ctx)
    ctx.guard("R09.7", "dropout-reads", r7, ctx)
    ctx.guard("R09.1", "dropout-sites", r1, ctx)
    ctx.guard("R09.2", "writers", r2, ctx)
    ctx.guard("R09.3", "learn", r3, ctx)
    ctx.guard("R09.4", "validate", r4, ctx)
    ctx.guard("R09.5", "block-training", r5, ctx)
    ctx.guard("R09.6", "immutability", r6, ctx)
