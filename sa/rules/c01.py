"""C01 - back-propagated gradients are the true derivatives (decided structural clauses only)."""
import re as _re
from ..core import Unestablished
from ..hir import walk, strip, pretty, short, calls, pat_binds
from .. import e1, e4, mac, macsig
from ..e1 import Rat
from ..mac import Access
from . import spatial
from .common import top_stmts_of, mentions_local

LEVEL = "other"
RULES = {
    "R01.1": "adjoint pair, transposed convolution: both accumulations of Deconvolution::backward (`igradient[X] += delta[Y]*K[Kidx]`, "
             "`kgradient[Kidx] += delta[Y]*input[X]`) use exactly the index relation, guards and iteration domain of the forward "
             "statement `y[Y] += x[X]*K[Kidx]` (signatures compared modulo loop-variable names): the adjoint of a bilinear map",
    "R01.2": "adjoint pair, convolution kernel gradient: convolve_gradients indexes the padded input with the forward relation "
             "in = out*stride + k*dilation (roles: kernel index <-> loop over the kernel extent, output index <-> loop over delta's "
             "extent) and Convolution::backward pads the input to the forward extent in + 2*padding",
    "R01.4": "call-site provenance: Network::backward and Feedback::backward walk the layers in reverse with idx = len - i - 1, pass "
             "(last running gradient, activated[idx], preactivated[idx]) to each layer's backward, push component 0 of the result as "
             "the next running gradient and components 1, 2 as weight/bias gradients; max-pool gets maxpools[idx]",
    "R01.5": "dense backward dataflow: delta = activation'(pre) (.) gradient * scale(loops); dW = delta (x) input; db = delta iff bias; "
             "dX = W^T . delta; returned in the order (dX, dW, db)",
    "R01.6": "max-pool routing: igradient[c][mh][mw] += ogradient[c][h][w] for (mh, mw) ranging over max[c][h][w] (same c, h, w on "
             "both sides, accumulation not overwrite: overlapping windows add up)",
    "R01.7": "axis typing of every backward kernel (no height/width mix-up): Convolution::backward, convolve_gradients, rotate, "
             "rearrange, Deconvolution::backward, Maxpool::backward",
    "R01.9": "gradient scale factors: the `loops` / `scale` fields that every backward pass multiplies into delta are written only by "
             "Network::loopback (MIR field writes) and start at 1.0 in every constructor",
    "R01.3": "kernel transformations behind the convolution input gradient: Convolution::rotate reverses every row and the row order of each "
             "channel and nothing else (E6 effect summary: `reverse` at nesting depths 1 and 2 of the kernel parameter only); "
             "Convolution::rearrange copies kernels[f][c][h][w] to out[c][f][h][w] over the full ranges; backward uses both",
    "R01.11": "the element-wise activation derivatives used for delta = f'(pre) * upstream obey their definitions in every rank arm and are "
              "the derivatives of the forward functions (R07.1/R07.2/R07.3 re-run under this property)",
    "R01.12": "the dense backward pass rests on Tensor::product (outer product), Tensor::transpose and Tensor::dot: R15.3 re-run under this property",
    "R01.10": "the helpers that reshape gradients between flat and CxHxW form (get_triple, flatten, get_flat) are row-major (R14.2 re-run)",
    "R01.8": "spatial backward prologue: derivative = activation.backward(output) and delta = hadamard3d(gradient, derivative, "
             "scale(loops)), with gradient/derivative reshaped by get_triple(self.outputs) and input by get_triple(self.inputs)",
}
ASSUMPTIONS = ["numerical agreement of gradients with derivatives is NOT decided (no library code is run); the convolution input gradient "
               "(pad3d/rotate/rearrange/convolve composition), the soft-max/cross-entropy clause and per-repetition gradients of "
               "feedback blocks are not decided by any rule",
               "index relations are compared in exact integer arithmetic, for all strides/paddings/dilations/sizes at once"]
TRUSTED = ["rustc nightly front end", "driver/src/main.rs", "sa/mac.py loop-nest extractor", "sa/e1.py", "sa/e3.py"]

BWD_FNS = ["convolution::Convolution::backward", "convolution::Convolution::convolve_gradients", "convolution::Convolution::rotate",
           "convolution::Convolution::rearrange", "deconvolution::Deconvolution::backward", "maxpool::Maxpool::backward",
           "dense::Dense::backward"]


def mac_stmts(c, fn, op="+="):
    ex = mac.extract(c, fn)
    return ex, [s for s in ex.stmts if s.op == op and len(s.reads) >= 1 and isinstance(s.target, Access)]


def value_guards(ex, s):
    """guards of the accumulation `s` that test tensor *values* (not indices) and are not of the harmless form `factor != 0` with the factor
    one of the operands of the product accumulated by `s` (skipping a zero term).  A gradient accumulation skipped on any other data
    condition drops terms of the derivative."""
    bad = []
    facs = set(str(a) for a in s.reads.values())
    for g in s.guards:
        gs = str(g)
        accs = sorted(set(a for a in e1._all_atoms(g) if str(a).startswith("ACC")))
        if not accs:
            if "?" in gs:
                bad.append(gs)
            continue
        reads = {**getattr(ex, "guard_reads", {}), **s.reads}
        what = [str(reads.get(a)) for a in accs]
        if len(accs) == 1 and gs == "ne0(%s)" % accs[0] and what[0] in facs:
            continue
        bad.append(gs.replace(accs[0], what[0]) if len(accs) == 1 else gs)
    return bad


def r1(ctx):
    c = ctx.crate
    ffn = ctx.fn("deconvolution::Deconvolution::forward")
    bfn = ctx.fn("deconvolution::Deconvolution::backward")
    fex, fst = mac_stmts(c, ffn)
    fst = [s for s in fst if len(s.reads) == 2]
    if len(fst) != 1:
        raise Unestablished("expected one multiply-accumulate statement in Deconvolution::forward, found %d" % len(fst), c.loc(ffn))
    f = fst[0]
    names = sorted(a.name for a in f.reads.values())
    roles_f = {f.target.name: "Y"}
    for a in f.reads.values():
        roles_f[a.name] = "K" if len(a.idx) == 4 else "X"
    fsig, fren, facc = macsig.signature(f, roles_f)
    ctx.samples.append({"deconv forward": macsig.sig_str(fsig)})
    bex, bst = mac_stmts(c, bfn)
    bst = [s for s in bst if len(s.reads) == 2]
    want = {"input-gradient": ("X", "igradient"), "kernel-gradient": ("K", "kgradient")}
    found = {}
    for s in bst:
        tgt_rank = len(s.target.idx)
        kind = "kernel-gradient" if tgt_rank == 4 else "input-gradient"
        roles = {s.target.name: "K" if tgt_rank == 4 else "X"}
        for a in s.reads.values():
            if a.name == s.target.name:
                continue
            if len(a.idx) == 4:
                roles[a.name] = "K"
            elif a.name.startswith("delta") or a.name.startswith("gradient"):
                roles[a.name] = "Y"
            else:
                roles[a.name] = "X"
        inst = "deconvolution:" + kind
        where = c.loc(bfn, s.node)
        try:
            sig, ren, acc = macsig.signature(s, roles)
        except ValueError as e:
            ctx.bad("R01.1", inst, "statement-not-a-bilinear-accumulation", where, str(e))
            continue
        found[kind] = 1
        if sig != fsig:
            ctx.bad("R01.1", inst, "not-the-adjoint-of-forward:" + macsig.sig_str(sig), where,
                    "Deconvolution::backward %s uses %s but the forward pass computes %s; the gradient is then not the derivative for "
                    "every stride/padding/size" % (kind, macsig.sig_str(sig), macsig.sig_str(fsig)))
            continue
        # guards: same lower-bound (checked_sub) guards and an upper bound on the same output indices
        fg = sorted(str(macsig.rn(g, fren)) for g in f.guards if str(g).startswith("ge0("))
        bg = sorted(str(macsig.rn(g, ren)) for g in s.guards if str(g).startswith("ge0("))
        ups_f = len([g for g in f.guards if str(g).startswith("and(")])
        ups_b = len([g for g in s.guards if str(g).startswith("and(")])
        ok = fg == bg and ups_f == ups_b == 1
        # domain: same loop ranges under renaming
        fdom = sorted((fren.get("%s#%d" % (nm, hid), nm), str(en)) for (hid, nm, st, en, step) in f.loops)
        bdom = sorted((ren.get("%s#%d" % (nm, hid), nm), str(en).replace("input", "x")) for (hid, nm, st, en, step) in s.loops)
        okd = [d[0] for d in fdom] == [d[0] for d in bdom]
        vg = value_guards(bex, s)
        ctx.check("R01.1", inst + ":no-data-dependent-skip", not vg, "skipped-on-data-condition:" + _re.sub(r"#\d+", "", ";".join(vg))[:100], where,
                  "the accumulation is skipped only on index conditions (or on a zero factor of its own product)",
                  "Deconvolution::backward skips the %s accumulation under %s: terms of the derivative are dropped for those inputs" % (kind, vg))
        ctx.check("R01.1", inst, ok and okd and s.op == "+=", "guards-or-domain-differ-from-forward", where,
                  "same index relation, guards and domain as forward: %s" % macsig.sig_str(sig),
                  "guards %s vs forward %s; domain %s vs %s" % (bg, fg, bdom, fdom))
    for k in want:
        if k not in found and not any(o["instance"] == "deconvolution:" + k for o in ctx.obligations):
            ctx.bad("R01.1", "deconvolution:" + k, "accumulation-missing", c.loc(bfn), "no `%s[..] += delta[..] * ..` statement found" % want[k][1])


def _g(g):
    # guard strings are canonical atoms like ge0(<poly>): re-parse is avoided by registering them as atoms
    return Rat.atom(g)


def r2(ctx):
    c = ctx.crate
    cf = ctx.fn("convolution::Convolution::convolve")
    gf = ctx.fn("convolution::Convolution::convolve_gradients")
    bf = ctx.fn("convolution::Convolution::backward")
    ff = ctx.fn("convolution::Convolution::forward")
    fex, fst = mac_stmts(c, cf)
    fst = [s for s in fst if len(s.reads) == 2]
    if len(fst) != 1:
        raise Unestablished("expected one multiply-accumulate in convolve", c.loc(cf))
    f = fst[0]
    roles = {f.target.name: "Y"}
    for a in f.reads.values():
        roles[a.name] = "K" if len(a.idx) == 4 else "X"
    fsig, fren, _ = macsig.signature(f, roles)
    ctx.samples.append({"conv forward": macsig.sig_str(fsig)})
    gex, gst = mac_stmts(c, gf)
    gst = [s for s in gst if len(s.reads) == 2]
    if len(gst) != 1:
        raise Unestablished("expected one multiply-accumulate in convolve_gradients", c.loc(gf))
    g = gst[0]
    # roles: target (4-D) = K; the two 3-D reads: the one indexed directly by the K1 (channel) variable = X, the other = Y
    pn = [pat_binds(p)[0][0] for p in gf["params"]]
    groles = {g.target.name: "K", pn[1]: "X", pn[2]: "Y"}
    gsig, gren, _ = macsig.signature(g, groles)
    ctx.check("R01.2", "conv-kernel-gradient:index-relation", gsig == fsig, "index-relation:" + macsig.sig_str(gsig), c.loc(gf, g.node),
              "kernel gradient uses the forward relation %s" % macsig.sig_str(fsig),
              "convolve_gradients computes dK with %s but the forward pass is %s: stride and dilation change roles, so the kernel gradient is "
              "only correct for stride = dilation = 1" % (macsig.sig_str(gsig), macsig.sig_str(fsig)))
    vg = value_guards(gex, g)
    ctx.check("R01.2", "conv-kernel-gradient:no-data-dependent-skip", not vg, "skipped-on-data-condition:" + _re.sub(r"#\d+", "", ";".join(vg))[:100], c.loc(gf, g.node),
              "the accumulation is skipped only on index conditions (or on a zero factor of its own product)",
              "convolve_gradients skips the accumulation under %s: terms of the derivative are dropped for those inputs" % vg)
    # call site in backward: (a, b) = (padded input, delta); padded extent must be the forward one
    call = [x for x in walk(bf["body"]) if x.get("k") == "mcall" and x["callee"] == "convolution::Convolution::convolve_gradients"]
    if len(call) != 1:
        raise Unestablished("expected one call of convolve_gradients in backward", c.loc(bf))
    call = call[0]
    a0 = e4.local_hid(call["args"][0])
    # find `let input = tensor::pad3d(&input, (ph, pw))`
    pads = [s for s in walk(bf["body"]) if s.get("k") == "let" and s["init"] is not None and strip(s["init"]).get("k") == "call" and strip(s["init"])["callee"] == "tensor::pad3d"]
    pad_b = None
    for s in pads:
        if pat_binds(s["pat"])[0][1] == a0:
            pad_b = s
    if pad_b is None:
        # the padded input may be passed directly: convolve_gradients(&pad3d(&input, (ph, pw)), ..)
        from ..hir import resolve, let_table
        a_res = resolve(call["args"][0], let_table(bf["body"]))
        if a_res is not None and a_res.get("k") == "call" and a_res.get("callee") == "tensor::pad3d":
            pad_b = {"init": a_res, "line": a_res.get("line")}
    fpads = [s for s in walk(ff["body"]) if s.get("k") in ("assign", "let") and (s.get("init") or s.get("r")) is not None
             and strip(s.get("init") or s.get("r")).get("k") == "call" and strip(s.get("init") or s.get("r"))["callee"] == "tensor::pad3d"]
    if pad_b is None or len(fpads) != 1:
        raise Unestablished("cannot locate the padding of the input in forward/backward", c.loc(bf))
    bex = mac.extract(c, bf)
    fex2 = mac.extract(c, ff)
    bt = strip(strip(pad_b["init"])["args"][1])
    ft = strip(strip(fpads[0].get("init") or fpads[0].get("r"))["args"][1])
    from ..hir import resolve as _res, let_table as _lt
    bt = _res(bt, _lt(bf["body"]))      # `pad3d(&x, padded)` with `let padded = (ph, pw)`
    ft = _res(ft, _lt(ff["body"]))
    bv = [e1.Norm(c, bex.env).norm(x) for x in bt["xs"]]
    fv = [e1.Norm(c, fex2.env).norm(x) for x in ft["xs"]]

    def canon(v):
        s = str(v)
        for nm in ("tensor", "input", "x"):
            s = s.replace("len(%s[0][0])" % nm, "IW").replace("len(%s[0])" % nm, "IH")
        s = s.replace("self.inputs.2", "IW").replace("self.inputs.1", "IH")
        return s
    bvs, fvs = [canon(x) for x in bv], [canon(x) for x in fv]
    ctx.check("R01.2", "conv-kernel-gradient:padded-extent", bvs == fvs, "padded-extent:" + ",".join(bvs), c.loc(bf, pad_b),
              "backward pads the input to the forward extent %s" % fvs,
              "Convolution::backward pads the input to (%s) before correlating with delta, the forward pass pads to (%s); the two agree only "
              "for stride = 1" % (", ".join(bvs), ", ".join(fvs)))
    ctx.check("R01.2", "conv-kernel-gradient:operands", e4.local_hid(call["args"][1]) is not None and
              pretty(strip(call["args"][1])) == "delta", "kernel-gradient-operands:" + short(pretty(call), 80), c.loc(bf, call),
              "convolve_gradients(padded input, delta, (kh, kw))")


def r4(ctx):
    """R01.4 on E6 summaries of Network::backward / Feedback::backward: the layers are walked last to first; the layer at index
    idx gets backward(most recent gradient, activated[idx], pre[idx]) (max-pool: the recorded indices at idx; feedback block: the
    most recently recorded, not yet consumed, block record); the three results go to the gradient / weight / bias lists."""
    from .. import e6
    c = ctx.crate
    layer_adt = c.adts["network::Layer"]
    payload_ty = {v["name"]: v["fields"][0]["ty"] for v in layer_adt["variants"]}
    LAYERS = ("field", ("p", "self"), "layers")
    LEN = ("call", "std::vec::Vec::<T, A>::len", (LAYERS,))
    for fpath, short_name in (("network::Network::backward", "Network"), ("feedback::Feedback::backward", "Feedback")):
        fn = ctx.fn(fpath)
        where = c.loc(fn)
        E = e6.Exec(c, fn)
        live = [p for p in E.run_fn() if p.exit is None or p.exit[0] == "return"]
        if len(live) != 1:
            raise Unestablished("%s: expected one non-panicking path, found %d" % (fpath, len(live)), where)
        P = live[0]
        if short_name == "Network":
            ACT, PRE, MAXP, FBS = ("p", "activated"), ("p", "preactivated"), ("p", "maxpools"), "feedbacks"
        else:
            ACT = ("call", "tensor::Tensor::unnested", (("idx", ("p", "inbetween"), ("lit", "1")),))
            PRE = ("call", "tensor::Tensor::unnested", (("idx", ("p", "inbetween"), ("lit", "0")),))
            MAXP, FBS = None, None
        # the walk: the loop (or for_each closure) whose body calls the layers' backward
        walk_l = None
        for e in P.eff:
            if e[0] == "loop" and e6.find_terms(tuple((q.eff, q.val) for q in E.loop_summaries[e[1]]["paths"]), lambda t: t[0] == "call" and t[1].endswith("::backward") and t[1].rsplit("::", 1)[0] in payload_ty.values()):
                walk_l = e[1]
        if walk_l is None:
            raise Unestablished("no traversal of self.layers calling the layers' backward in %s" % fpath, where)
        L = E.loop_summaries[walk_l]
        lnode = L["node"]
        wloc = c.loc(fn, lnode)
        if L.get("kind") == "closure":
            src = L.get("recv")
            form_ok = L.get("callee", "").endswith("::for_each")
        else:
            src = L.get("iter")
            form_ok = True
        sw = e6.seq_walk(src, walk_l, LAYERS)
        LAYER = e6.walk_element([q for q in L["paths"]], sw["rev"]) if sw and sw["rev"] else None
        IDX = None
        want_idx = sw["pos"]["rev"] if sw else None
        if want_idx is None:
            LAYER = None
        ctx.check("R01.4", short_name + ":reverse-walk", form_ok and LAYER is not None, "layer-walk:" + short(e6.show(src, 3), 60), wloc, "layers.iter().rev().enumerate()  |  (0..layers.len()).rev()",
                  "%s walks %s; back-propagation must visit the layers last to first, each once" % (fpath, e6.show(src, 3)[:120]))
        if LAYER is None:
            continue
        # roles of the lists: the result names them
        val = P.val if P.exit is None else P.exit[1]
        comps = val[1] if isinstance(val, tuple) and val and val[0] == "tup" else ()
        if short_name == "Network":
            wg_n, bg_n = (e6.root_name(comps[0]), e6.root_name(comps[1])) if len(comps) == 2 else (None, None)
            g_n = None
        else:
            wg_n = bg_n = g_n = None
            if len(comps) == 3:
                a0 = e6.is_call(comps[0], "unwrap", 1) or e6.is_call(comps[0], "expect")
                l0 = e6.is_call(a0[0], "last", 1) if a0 else None
                g_n = e6.root_name(l0[0]) if l0 else None
                n1 = e6.is_call(comps[1], "nested", 1)
                wg_n = e6.root_name(n1[0]) if n1 else None
                n2 = comps[2][2][0] if isinstance(comps[2], tuple) and comps[2][0] == "var" and comps[2][1] == "Option::Some" and comps[2][2] else None
                n2 = e6.is_call(n2, "nestedoptional", 1) if n2 is not None else None
                bg_n = e6.root_name(n2[0]) if n2 else None
        res = {}

        def note(key, ok, detail):
            res.setdefault(key, []).append((ok, detail))
        routing = []
        for p in L["paths"]:
            if p.exit is not None:
                continue
            vs = e6.variant_of(p)
            vp = vs.get(LAYER)
            if vp is None:
                note("unclassified", False, "a path of the walk does not dispatch on the layer: %s" % "; ".join(e6.show(t, 2) for t, _ in p.pc)[:120])
                continue
            kind = vp.split("::")[-1]
            bw = e6.find_terms(tuple(p.eff), lambda t: t[0] == "call" and t[1] == payload_ty[kind] + "::backward")
            B = bw[0] if bw else None
            if B is None or any(b_ != B for b_ in bw):
                note(kind, False, "no single %s::backward call" % payload_ty[kind])
                continue
            args = B[2]
            okrecv = args[0] == ("payload", LAYER, vp, 0)
            g = (e6.is_call(args[1], "unwrap", 1) or e6.is_call(args[1], "expect")) if len(args) > 1 else None
            gl = e6.is_call(g[0], "last", 1) if g else None
            gname = e6.root_name(gl[0]) if gl else None
            okg = gname is not None and (g_n is None or gname == g_n)
            if g_n is None and gname is not None:
                g_n = gname
            if kind in ("Dense", "Convolution", "Deconvolution"):
                oka = len(args) == 4 and isinstance(args[2], tuple) and args[2][0] == "idx" and args[2][1] == ACT and e6.lin(args[2][2]) == want_idx
                okp = len(args) == 4 and isinstance(args[3], tuple) and args[3][0] == "idx" and args[3][1] == PRE and e6.lin(args[3][2]) == want_idx
                note("input", oka, e6.show(args[2], 3)[:80] if len(args) > 2 else "?")
                note("output", okp, e6.show(args[3], 3)[:80] if len(args) > 3 else "?")
                note(kind, okrecv and okg and oka and okp, e6.show(B, 2)[:140])
                want_push = [e6.mk_proj(B, 0), e6.mk_proj(B, 1), e6.mk_proj(B, 2)]
            elif kind == "Maxpool":
                rec_ = None
                if len(args) == 3 and isinstance(args[2], tuple) and args[2][0] == "payload" and args[2][2] == "Option::Some":
                    rec_ = args[2][1]                 # `if let Some(max) = &maxpools[idx]` / match
                elif len(args) == 3:
                    u_ = e6.is_call(args[2], "unwrap", 1) or e6.is_call(args[2], "expect")
                    rec_ = u_[0] if u_ else None      # maxpools[idx].as_ref().unwrap()
                okm = isinstance(rec_, tuple) and rec_[0] == "idx" and rec_[1] == MAXP and e6.lin(rec_[2]) == want_idx
                note(kind, okrecv and okg and okm, e6.show(B, 2)[:140])
                want_push = [B, None, ("var", "Option::None", ())]
            else:
                rec_ = (e6.is_call(args[2], "unwrap", 1) or e6.is_call(args[2], "expect")) if len(args) == 3 else None
                pp = e6.is_call(rec_[0], "pop", 1) if rec_ else None
                pops = [e for e in p.eff if e[0] == "mut" and e[1].endswith("::pop") and e[2] == ("local", FBS)]
                others = [e for e in p.eff if e[0] in ("mut", "mutcall") and e6.root_name(e[4] if e[0] == "mut" and len(e) > 4 else None) == FBS and e not in pops]
                okf = pp is not None and pp[0] == ("loopin", FBS, walk_l) and len(pops) == 1 and not others
                note(kind, okrecv and okg and okf, e6.show(B, 2)[:140])
                want_push = [e6.mk_proj(B, 0), e6.mk_proj(B, 1), e6.mk_proj(B, 2)]
            got = [e6.pushes_to(p, n_) if n_ else None for n_ in (g_n, wg_n, bg_n)]
            okr = all(gt is not None and len(gt) == 1 for gt in got)
            if okr:
                okr = e6.strip_upd(got[0][0]) == want_push[0] and (want_push[1] is None or got[1][0] == want_push[1]) and got[2][0] == want_push[2]
            routing.append((okr, "%s: %s" % (kind, [e6.show(x[0], 2)[:50] if x else "?" for x in got])))
        for kind in ("Dense", "Convolution", "Deconvolution") + (("Maxpool", "Feedback") if short_name == "Network" else ()):
            r_ = res.get(kind, [])
            ok = bool(r_) and all(x[0] for x in r_)
            inst = "%s:%s-arguments" % (short_name, kind)
            ctx.check("R01.4", inst, ok, "backward-arguments:" + short(next((x[1] for x in r_ if not x[0]), "none"), 70), wloc,
                      "layer.backward(last gradient, input, output)" if kind in ("Dense", "Convolution", "Deconvolution") else
                      ("layer.backward(last gradient, maxpools[idx])" if kind == "Maxpool" else "layer.backward(last gradient, feedbacks.pop())"),
                      "the %s arm calls %s" % (kind, [x[1] for x in r_ if not x[0]][:2]))
        r_in, r_out = res.get("input", []), res.get("output", [])
        ctx.check("R01.4", short_name + ":input-is-activated[idx]", bool(r_in) and all(x[0] for x in r_in), "layer-input-source:" + short(next((x[1] for x in r_in if not x[0]), "?"), 50), wloc,
                  "input = activated[idx]", "the tensor handed to backward as the layer's input is %s" % next((x[1] for x in r_in if not x[0]), "?"))
        ctx.check("R01.4", short_name + ":output-is-pre[idx]", bool(r_out) and all(x[0] for x in r_out), "layer-output-source:" + short(next((x[1] for x in r_out if not x[0]), "?"), 50), wloc,
                  "output = pre[idx]")
        ctx.check("R01.4", short_name + ":idx", not res.get("unclassified"), "walk-paths:" + short(next((x[1] for x in res.get("unclassified", [])), ""), 60), wloc,
                  "every step dispatches on the layer at idx = len - i - 1")
        if short_name == "Feedback":
            # the block's input gradient: the most recently appended entry of the gradient list after the walk
            r0 = e6.strip_upd(comps[0]) if len(comps) == 3 else None
            while r0 is not None and (e6.is_call(r0, "clone", 1) or e6.is_call(r0, "to_owned", 1)):
                r0 = (e6.is_call(r0, "clone", 1) or e6.is_call(r0, "to_owned", 1))[0]
            okret = False
            if r0 is not None and g_n is not None:
                u0 = e6.is_call(r0, "unwrap", 1) or e6.is_call(r0, "expect")
                lst = (e6.is_call(u0[0], "last", 1) or e6.is_call(u0[0], "pop", 1)) if u0 else None
                if lst and e6.root_name(lst[0]) == g_n and isinstance(lst[0], tuple) and lst[0][0] == "loopout":
                    okret = True
                elif isinstance(r0, tuple) and r0[0] == "idx" and e6.root_name(r0[1]) == g_n and isinstance(r0[1], tuple) and r0[1][0] == "loopout":
                    LENG = ("call", "std::vec::Vec::<T, A>::len", (r0[1],))
                    okret = e6.lin(("bin", "Sub", r0[2], ("lit", "0"))) == e6.lin(("bin", "Sub", LENG, ("lit", "1")))
            ctx.check("R01.4", "Feedback:returns-last-gradient", okret, "returned-input-gradient:" + _re.sub(r"#\w+", "", short(e6.show(r0, 3), 70)) if r0 is not None else "returned-input-gradient:?", where,
                      "the block returns the gradient appended last (wrt. the block's input)",
                      "Feedback::backward returns %s as the gradient wrt. its input; after walking all (repeated) layers back the input gradient "
                      "is the entry appended last" % (e6.show(r0, 3)[:120] if r0 is not None else "?"))
        # what is returned is what the walk recorded: no in-place change (reverse, swap, truncate, sort, an element overwritten ..) between the walk and the
        # return touches the gradient lists
        tampered = [u_ for comp_ in comps for u_ in e6.find_terms(comp_, lambda u_: u_[0] == "upd")]
        later = []
        seen_walk = False
        for e_ in P.eff:
            if e_[0] == "loop" and e_[1] == walk_l:
                seen_walk = True
                continue
            if seen_walk and e_[0] in ("mut", "set", "push") and e6.root_name(e_[1] if e_[0] in ("set", "push") else e_[2]) in (g_n, wg_n, bg_n):
                later.append(e_)
        ctx.check("R01.4", short_name + ":results-returned-as-recorded", not tampered and not later,
                  "gradient-lists-changed-after-walk:" + _re.sub(r"#\w+", "", short(e6.show(tampered[0], 2) if tampered else (later[0][1] if later else ""), 60)), where,
                  "the returned gradient lists are the ones the walk filled, unchanged",
                  "%s changes a gradient list after the backward walk (%s): the gradients no longer line up with the layers they belong to"
                  % (fpath, e6.show(tampered[0], 2)[:100] if tampered else (later[0][1] if later else "")))
        if FBS is not None:
            # the block records are consumed last-in-first-out against the reversed walk: the list popped inside the walk is the parameter as it
            # was handed over by Network::forward (not reordered, trimmed or rebuilt before the walk starts)
            ent = [v_[3] for v_ in P.env.values() if isinstance(v_, tuple) and v_[0] == "loopout" and v_[1] == FBS and v_[2] == walk_l and len(v_) > 3]
            oke = bool(ent) and all(v_ == ("p", FBS) for v_ in ent)
            ctx.check("R01.4", short_name + ":block-records-consumed-as-recorded", oke, "block-records-at-walk-entry:" + _re.sub(r"#\w+", "", short(e6.show(ent[0], 2) if ent else "?", 60)), where,
                      "feedbacks (as received) is popped once per block, from the back, while the layers are walked back to front",
                      "%s walks the layers backwards popping block records from %s instead of the record list as Network::forward filled it: "
                      "with two or more feedback blocks each block is differentiated with another block's intermediates" % (fpath, e6.show(ent[0], 2)[:100] if ent else "?"))
        ctx.check("R01.4", short_name + ":result-routing", bool(routing) and all(x[0] for x in routing), "result-components-routed-wrongly:" + short(next((x[1] for x in routing if not x[0]), ""), 80), wloc,
                  "(dX, dW, db) -> gradients / weight / bias lists")
    ctx.guard("R01.4", "record-layout", forward_record_layout, ctx, "R01.4")
    ctx.guard("R01.4", "record-transport", record_transport, ctx, "R01.4")
    ctx.floor("R01.4", 18 + 3 + 1 + 2 + 1 + 4, "two walks: walk form, idx, input, output, arms, routing; record layout of Network::forward")


def record_transport(ctx, rule):
    """A block's records travel from Feedback::forward to Feedback::backward (and its gradients from backward to update) packed into one
    nested tensor.  Packing and unpacking are the identity on the list: `nested(v)` / `nestedoptional(v)` store the list handed in, as it is,
    and `unnested()` / `unnestedoptional()` return the stored list, as it is (decided on the E6 value of each function)."""
    from .. import e6
    c = ctx.crate

    def copy_of(t):
        # `x.iter().cloned().collect()` / `x.into_iter().collect()`: E6 reads the adapters through; collecting the unchanged walk is a copy
        while e6.is_call(t, "collect", 1) or e6.is_call(t, "to_vec", 1) or e6.is_call(t, "to_owned", 1) or e6.is_call(t, "clone", 1):
            t = (e6.is_call(t, "collect", 1) or e6.is_call(t, "to_vec", 1) or e6.is_call(t, "to_owned", 1) or e6.is_call(t, "clone", 1))[0]
        return t
    for name, variant in (("nested", "Nested"), ("nestedoptional", "NestedOptional")):
        fn = ctx.fn("tensor::Tensor::" + name)
        live = [p for p in e6.Exec(c, fn).run_fn() if p.exit is None or p.exit[0] == "return"]
        ok, got = bool(live), "?"
        for p in live:
            v = p.val if p.exit is None else p.exit[1]
            prm = [q for q in fn.get("params") or []]
            pn = prm[0].get("name") if prm and prm[0].get("k") == "bind" else None
            d = dict(v[2]).get("data") if isinstance(v, tuple) and v and v[0] == "struct" else None
            got = e6.show(d, 3)[:70] if d is not None else e6.show(v, 2)[:70]
            inner = d[2] if isinstance(d, tuple) and d and d[0] == "call" and d[1] == "tensor::Data::" + variant and len(d[2]) == 1 else None
            ok = ok and pn is not None and inner is not None and copy_of(inner[0]) == ("p", pn)
        ctx.check(rule, "record-transport:" + name, ok, "packed-list:" + _re.sub(r"#\w+", "", got), c.loc(fn), "data: Data::%s(<the list handed in>)" % variant,
                  "Tensor::%s stores %s instead of the list it is given: the records no longer line up with the layers when they are unpacked" % (name, got))
    for name, variant in (("unnested", "Nested"), ("unnestedoptional", "NestedOptional")):
        fn = ctx.fn("tensor::Tensor::" + name)
        live = [p for p in e6.Exec(c, fn).run_fn() if p.exit is None or p.exit[0] == "return"]
        ok, got = bool(live), "?"
        for p in live:
            v = p.val if p.exit is None else p.exit[1]
            got = e6.show(v, 3)[:70]
            ok = ok and copy_of(v) == ("payload", ("field", ("p", "self"), "data"), "tensor::Data::" + variant, 0)
        ctx.check(rule, "record-transport:" + name, ok, "unpacked-list:" + _re.sub(r"#\w+", "", got), c.loc(fn), "returns (a clone of) the stored list",
                  "Tensor::%s returns %s instead of the stored list" % (name, got))


def forward_record_layout(ctx, rule):
    """The layout the backward walk indexes into, decided on the E6 summary of Network::forward: the activation record starts as
    [input] and the other records empty; the layers are visited once each, in order, and every visit appends exactly the records of
    `_forward(x, i, i + 1)` (one layer) to each of them - so preactivated[i] / activated[i + 1] / maxpools[i] belong to layer i and
    activated[i] is its input."""
    from .. import e6
    c = ctx.crate
    fn = ctx.fn("network::Network::forward")
    where = c.loc(fn)
    inp = pat_binds(fn["params"][1])[0][0]
    E = e6.Exec(c, fn)
    live = [p for p in E.run_fn() if p.exit is None or p.exit[0] == "return"]
    ok_seed = ok_walk = ok_step = False
    why = ""
    if len(live) == 1 and not live[0].pc:
        P = live[0]
        val = P.val if P.exit is None else P.exit[1]
        comps = val[1] if isinstance(val, tuple) and val and val[0] == "tup" else ()
        loops = [e for e in P.eff if e[0] == "loop" and E.loop_summaries[e[1]].get("kind") == "for"]
        others = [e for e in P.eff if e[0] != "loop"]
        if len(comps) == 4 and all(isinstance(x, tuple) and len(x) == 4 and x[0] == "loopout" for x in comps) and len({x[2] for x in comps}) == 1 and len(loops) == 1 and not others:
            lid = comps[0][2]
            empty = lambda t: e6.is_call(t, "new", 0) is not None or e6.is_call(t, "with_capacity", 1) is not None or t == ("vec", ())
            ok_seed = empty(comps[0][3]) and comps[1][3] == ("vec", (("p", inp),)) and empty(comps[2][3]) and empty(comps[3][3])
            why = "records start as %s" % [e6.show(x[3], 2) for x in comps]
            L = E.loop_summaries[lid]
            rng = e6.range_of(L["iter"])
            LEN = ("call", "std::vec::Vec::<T, A>::len", (("field", ("p", "self"), "layers"),))
            ok_walk = rng is not None and rng[0] == ("lit", "0") and e6.lin(rng[1]) == e6.lin(LEN)
            el = ("elem", L["iter"], lid)
            names = [x[1] for x in comps]
            ok_step = True
            for q in L["paths"]:
                if q.exit is not None and q.exit[0] == "panic":
                    continue
                if q.exit is not None:
                    ok_step, why = False, "a layer visit leaves the walk early (%s)" % (q.exit[0],)
                    break
                for k_, nm in enumerate(names[:3]):
                    grows = [e for e in q.eff if (e[0] == "mut" and e[1].rsplit("::", 1)[-1] in ("append", "extend", "extend_from_slice", "insert", "remove", "pop", "clear", "truncate") and e[2] == ("local", nm))
                             or (e[0] == "push" and e[1] == ("local", nm))]
                    good = False
                    if len(grows) == 1 and grows[0][0] == "mut" and grows[0][1].rsplit("::", 1)[-1] in ("append", "extend") and len(grows[0][3]) == 1:
                        a = e6.strip_upd(grows[0][3][0])
                        if isinstance(a, tuple) and a[0] == "proj" and a[2] == k_:
                            f_ = e6.is_call(a[1], "_forward", 4)
                            good = f_ is not None and f_[0] == ("p", "self") and e6.lin(f_[2]) == e6.lin(el) and e6.lin(f_[3]) == e6.lin(e6.mk_bin("Add", el, ("lit", "1")))
                    if not good:
                        ok_step, why = False, "a visit changes `%s` by %s" % (nm, [e6.show(e[3][0] if e[0] == "mut" and e[3] else e[2], 3)[:80] for e in grows])
                        break
                if not ok_step:
                    break
    ctx.check(rule, "Network:record-starts-with-input", ok_seed, "record-seed:" + short(why, 80), where, "activated = vec![input]; the other records empty",
              "Network::forward: %s; the backward walk reads activated[i] as the input of layer i" % why)
    ctx.check(rule, "Network:layers-visited-in-order", ok_walk, "forward-walk", where, "for i in 0..self.layers.len()")
    ctx.check(rule, "Network:one-record-per-layer", ok_step, "record-growth:" + short(why, 80), where, "each visit appends the records of _forward(x, i, i + 1)",
              "Network::forward: %s; every layer must contribute exactly one entry to each record, in order" % why)


def r5(ctx):
    """R01.5 on the E6 summary of Dense::backward: on every non-panicking path
         delta = activation.backward(pre) (.) G * scale(loops)       (one hadamard, G = the upstream gradient, flattened iff 3-D)
         result = (W^T . delta, delta (x) input, Some(delta) iff the layer has a bias)"""
    from .. import e6
    c = ctx.crate
    fn = ctx.fn("dense::Dense::backward")
    pn = [pat_binds(p)[0][0] for p in fn["params"]]
    gname, iname, oname = pn[1], pn[2], pn[3]
    where = c.loc(fn)
    E = e6.Exec(c, fn)
    paths = [p for p in E.run_fn() if p.exit is None or p.exit[0] == "return"]
    S = ("p", "self")

    def uncow(t):
        if isinstance(t, tuple):
            if t and t[0] == "call" and t[1].startswith(("std::borrow::Cow", "alloc::borrow::Cow")) and t[1].rsplit("::", 1)[-1] in ("Borrowed", "Owned") and len(t[2]) == 1:
                return uncow(t[2][0])
            return tuple(uncow(x) for x in t)
        return t
    res = dict(delta=[], had=[], dx=[], dw=[], db=[], arity=[], once=[])
    seen_shapes = set()
    for p in paths:
        val = uncow(p.val if p.exit is None else p.exit[1])
        eff = [uncow(e) for e in p.eff if e[0] != "loop"]
        vs = {}
        for (t, pol) in p.pc:
            if pol and isinstance(t, tuple) and t[0] == "is":
                vs[t[1]] = t[2]
        gshape = vs.get(("field", ("p", gname), "shape"), "?").split("::")[-1]
        seen_shapes.add(gshape)
        hasb = vs.get(("field", S, "bias"))
        D0 = ("call", "activation::Function::backward", (("field", S, "activation"), ("p", oname)))
        G = ("p", gname) if gshape == "Single" else ("call", "tensor::Tensor::flatten", (("p", gname),))
        had = [e for e in eff if e[0] == "mut" and e[1] == "tensor::Tensor::hadamard"]
        dloc = had[0][2] if had else None
        # changes of the local holding delta (a deferred initialisation of some other local is not one)
        muts = [e for e in eff if (e[0] in ("mut", "push") and e6.contains(e[2] if e[0] == "mut" else e[1], dloc)) or (e[0] == "set" and e6.contains(e[1], dloc)) or e[0] == "mutcall"]
        res["once"].append(len(muts) == 1)
        d0s = e6.find_terms(val, lambda t: t[0] == "call" and t[1] == "activation::Function::backward")
        res["delta"].append((bool(d0s) and all(d == D0 for d in d0s), e6.show(d0s[0], 2) if d0s else "?"))
        okh = len(had) == 1 and had[0][4] == D0 and len(had[0][3]) == 2 and had[0][3][0] == G and e6.show(had[0][3][1]) == "self.scale(self.loops)"
        res["had"].append((okh, "%s.hadamard(%s)" % (e6.show(had[0][4], 2)[:40], ", ".join(e6.show(x, 2) for x in had[0][3])[:60]) if had else "none"))
        if not had:
            continue
        D = ("upd", D0, had[0][1] + "@" + e6.show(had[0][2]), had[0][3])
        comps = val[1] if isinstance(val, tuple) and val and val[0] == "tup" else ()
        res["arity"].append(len(comps))
        if len(comps) != 3:
            continue
        res["dx"].append((comps[0] == ("call", "tensor::Tensor::dot", (("call", "tensor::Tensor::transpose", (("field", S, "weights"),)), D)), e6.show(comps[0], 3)[:100]))
        res["dw"].append((comps[1] == ("call", "tensor::Tensor::product", (D, ("p", iname))), e6.show(comps[1], 3)[:100]))
        if hasb == "Option::Some":
            okb = comps[2] == ("var", "Option::Some", (D,))
        elif hasb == "Option::None" or any((not pol) and isinstance(t, tuple) and t[0] == "is" and t[1] == ("field", S, "bias") and t[2] == "Option::Some" for (t, pol) in p.pc) \
                or any((not pol) and e6.is_call(t, "is_some", 1) == (("field", S, "bias"),) for (t, pol) in p.pc):
            okb = comps[2] == ("var", "Option::None", ())
        elif any(pol and e6.is_call(t, "is_some", 1) == (("field", S, "bias"),) for (t, pol) in p.pc):
            okb = comps[2] == ("var", "Option::Some", (D,))
        elif any(pol and e6.is_call(t, "is_none", 1) == (("field", S, "bias"),) for (t, pol) in p.pc):
            okb = comps[2] == ("var", "Option::None", ())
        else:
            okb = False
        res["db"].append((okb, e6.show(comps[2], 3)[:80]))

    def allok(key):
        return bool(res[key]) and all(x[0] for x in res[key])

    def first_bad(key):
        return next((x[1] for x in res[key] if not x[0]), "?")
    ctx.check("R01.5", "delta-from-activation-derivative-of-pre", allok("delta"), "delta-source:" + short(first_bad("delta"), 60), where, "delta = activation.backward(output)",
              "delta is initialised as %s; it must be the activation derivative at the layer's pre-activation (3rd parameter)" % first_bad("delta"))
    ctx.check("R01.5", "delta-times-upstream-gradient", allok("had") and {"Single", "Triple"} <= seen_shapes, "hadamard:" + short(first_bad("had"), 70), where,
              "delta.hadamard(gradient | gradient.flatten(), scale(loops))")
    ctx.check("R01.5", "input-gradient-is-Wt-delta", allok("dx"), "input-gradient:" + short(first_bad("dx"), 60), where, "dX = W^T . delta (first component)",
              "the first returned component is `%s`; it must be self.weights.transpose().dot(delta)" % first_bad("dx"))
    ctx.check("R01.5", "weight-gradient-is-delta-outer-input", allok("dw"), "weight-gradient:" + short(first_bad("dw"), 60), where, "dW = delta.product(input) (second component)",
              "the weight gradient is `%s`; weights are (outputs x inputs), so it must be delta.product(input)" % first_bad("dw"))
    ctx.check("R01.5", "bias-gradient-is-delta", allok("db"), "bias-gradient", where, "db = Some(delta) iff bias (third component)")
    ctx.check("R01.5", "result-order", bool(res["arity"]) and all(a == 3 for a in res["arity"]), "result-arity:%s" % res["arity"][:1], where, "(dX, dW, db)")
    ctx.check("R01.5", "delta-modified-once", bool(res["once"]) and all(res["once"]), "delta-mutations", where, "delta is modified only by the hadamard product")


def r6(ctx):
    c = ctx.crate
    from ..hir import matchified as _mf6
    fn = _mf6(ctx.fn("maxpool::Maxpool::backward"))
    ex = mac.extract(c, fn)
    sts = [s for s in ex.stmts if isinstance(s.target, Access) and len(s.target.idx) == 3]
    adds = [s for s in sts if s.reads and s.op in ("+=", "=")]
    if not adds:
        raise Unestablished("no gradient routing statement in Maxpool::backward", c.loc(fn))
    s = adds[0]
    where = c.loc(fn, s.node)
    ctx.check("R01.6", "accumulates", s.op == "+=", "routing-overwrites-instead-of-accumulating", where, "igradient[..] += ogradient[..]",
              "Maxpool::backward stores `%s %s %s`: with overlapping windows (stride < kernel) an input element that is the maximum of several "
              "windows must receive the sum of their gradients" % (s.target, s.op, s.rhs_str()))
    rd = list(s.reads.values())
    ok = len(rd) == 1 and len(rd[0].idx) == 3
    src_ok = False
    if ok:
        r = rd[0]
        # iterator loop source: max[c][h][w].iter() with the same c,h,w as the read
        itl = [l for l in s.loops if isinstance(l[0], tuple)]
        # the iterated source is <recorded indices>[c][h][w] with the read's own c, h, w, where <recorded indices> is the first (only)
        # entry of the Quintuple data of the `max` parameter - whatever the local holding it is called
        src_ok = False
        srcs0 = getattr(ex, "iter_sources", {}).get(itl[0][0][1]) if len(itl) == 1 else None
        if srcs0:
            from ..hir import let_table as _lt6, resolve as _rs6
            T6 = _lt6(fn["body"])
            itn = strip(srcs0[0])
            while itn.get("k") == "mcall" and itn["name"] in ("iter", "into_iter", "copied", "cloned") and not itn["args"]:
                itn = strip(itn["recv"])
            ix = []
            while itn.get("k") == "index":
                ix.append(itn["i"])
                itn = strip(itn["b"])
            ix.reverse()
            try:
                same_idx = len(ix) == 3 and [str(ex.plain(i_)) for i_ in ix] == [str(i_) for i_ in r.idx]
            except ValueError:
                same_idx = False
            def let_init(n_):
                n_ = strip(n_)
                seen_ = 0
                while n_ is not None and n_.get("k") == "local" and seen_ < 6:
                    seen_ += 1
                    nxt = None
                    for s_ in walk(fn["body"]):
                        if s_.get("k") == "let" and s_["pat"].get("k") == "bind" and s_["pat"]["hid"] == n_["hid"] and s_.get("init") is not None:
                            nxt = strip(s_["init"])
                            break
                    if nxt is None:
                        break
                    n_ = nxt
                    while n_.get("k") == "blk" and not n_["b"]["stmts"] and n_["b"]["tail"] is not None:
                        n_ = strip(n_["b"]["tail"])
                    if n_.get("k") == "ref":
                        n_ = strip(n_["x"])
                return n_

            def first_of(n_):
                """x.get(0).unwrap() | x.first().unwrap() | x[0]  ->  x"""
                n_ = strip(n_)
                if n_.get("k") == "ref":
                    n_ = strip(n_["x"])
                if n_.get("k") == "mcall" and n_["name"] in ("unwrap", "expect"):
                    g_ = strip(n_["recv"])
                    if g_.get("k") == "mcall" and ((g_["name"] == "get" and e4.lit_value(g_["args"][0]) == "0") or (g_["name"] == "first" and not g_["args"])):
                        return strip(g_["recv"])
                if n_.get("k") == "index" and e4.lit_value(n_["i"]) == "0":
                    return strip(n_["b"])
                if n_.get("k") == "match" and len(n_["arms"]) == 2:
                    # `match x.get(0) { Some(v) => v, None => panic!() }`: the unwrap written out
                    g_ = strip(n_["scrut"])
                    live_ = [a_ for a_ in n_["arms"] if e4.outcomes(c, a_["body"], lambda y_: False)]
                    if (len(live_) == 1 and g_.get("k") == "mcall" and ((g_["name"] == "get" and e4.lit_value(g_["args"][0]) == "0") or (g_["name"] == "first" and not g_["args"]))
                            and e4.arm_variant(live_[0])[0].endswith("Some") and e4.arm_variant(live_[0])[1]
                            and e4.local_hid(live_[0]["body"]) == e4.arm_variant(live_[0])[1][0][1]):
                        return strip(g_["recv"])
                return None

            def quintuple_payload(m_):
                """match &max.data { Quintuple(b) => BODY, _ => panic }  ->  (hid of b, BODY)"""
                if m_ is None or m_.get("k") != "match":
                    return None
                sc = strip(m_["scrut"])
                while sc.get("k") in ("ref",):
                    sc = strip(sc["x"])
                live_ = [a_ for a_ in m_["arms"] if e4.arm_variant(a_)[0] == "tensor::Data::Quintuple"]
                if not (sc.get("k") == "field" and sc["f"] == "data" and e4.local_hid(sc["b"]) == mparam and len(live_) == 1 and e4.arm_variant(live_[0])[1]):
                    return None
                bd = strip(live_[0]["body"])
                while bd.get("k") == "blk" and not bd["b"]["stmts"]:
                    bd = strip(bd["b"]["tail"])
                return e4.arm_variant(live_[0])[1][0][1], bd
            mparam = pat_binds(fn["params"][2])[0][1] if len(fn["params"]) > 2 else None
            base = let_init(itn)
            from_max = False
            qp = quintuple_payload(base)
            if qp is not None:
                inner = first_of(qp[1])
                from_max = inner is not None and e4.local_hid(inner) == qp[0]
            else:
                inner = first_of(base) if base is not None else None
                qp2 = quintuple_payload(let_init(inner)) if inner is not None else None
                from_max = qp2 is not None and e4.local_hid(qp2[1]) == qp2[0]
            src_ok = same_idx and from_max
        same_c = str(s.target.idx[0]) == str(r.idx[0])
        tgt_from_iter = all("#" in str(i) and str(i) not in [str(j) for j in r.idx] for i in s.target.idx[1:])
        if not tgt_from_iter and len(itl) == 1:
            # `for position in max[c][h][w].iter() { plane[position.0][position.1] += .. }`: the two components of the iterated pair, in order
            srcs = getattr(ex, "iter_sources", {}).get(itl[0][0][1])
            pnames = list(srcs[2]) if srcs and len(srcs) > 2 else []
            if len(pnames) == 1:
                tgt_from_iter = [str(i) for i in s.target.idx[1:]] == ["%s.0" % pnames[0], "%s.1" % pnames[0]]
        ok = src_ok and same_c and tgt_from_iter and str(s.rhs) in s.reads
    ctx.check("R01.6", "routes-to-recorded-argmax", ok, "routing:" + short(repr(s), 100), where,
              "igradient[c][mh][mw] += ogradient[c][h][w], (mh, mw) in max[c][h][w]", "found %s" % short(repr(s), 200))
    # domain: h over ogradient rows, w over ogradient columns
    dom = [(l[1], str(l[3])) for l in s.loops if isinstance(l[0], int)]
    okd = len(dom) == 3 and dom[1][1].startswith("len(") and dom[1][1].endswith("[0])") and dom[2][1].endswith("[0][0])")
    ctx.check("R01.6", "domain-covers-output-gradient", okd, "domain:" + str(dom), where, "h, w range over the output gradient's extents")
    others = [t for t in sts if t is not s]
    for t in others:
        okk = t.op == "*=" and not t.reads
        ctx.check("R01.6", "only-scaling-besides", okk, "extra-statement:" + short(repr(t), 80), c.loc(fn, t.node), "remaining statement is the 1/loops scaling")


def r8(ctx):
    c = ctx.crate
    from ..hir import let_table, cpretty, resolve
    for l in ("convolution::Convolution", "deconvolution::Deconvolution"):
        fn = ctx.fn(l + "::backward")
        T = let_table(fn["body"])
        pn = [pat_binds(p)[0][0] for p in fn["params"]]
        g, i_, o = pn[1], pn[2], pn[3]
        nm = l.split("::")[-1]
        where = c.loc(fn)
        hd = [x for x in walk(fn["body"]) if x.get("k") == "call" and x["callee"] == "tensor::hadamard3d"]
        got = [cpretty(a_, T) for a_ in hd[0]["args"]] if len(hd) == 1 else []
        want = ["%s.get_triple(self.outputs)" % g, "self.activation.backward(%s).get_triple(self.outputs)" % o, "self.scale(self.loops)"]
        ctx.check("R01.8", nm + ":delta", got == want, "delta:" + ";".join(got)[:100], where, "delta = hadamard3d(gradient.get_triple(outputs), activation.backward(output).get_triple(outputs), scale(loops))",
                  "delta is built from (%s); expected (%s): the upstream gradient times the activation derivative at the PRE-activation, scaled by scale(loops)" % ("; ".join(got), "; ".join(want)))
        ins = [s_ for s_ in walk(fn["body"]) if s_.get("k") == "let" and s_["init"] is not None and cpretty(s_["init"], T) == "%s.get_triple(self.inputs)" % i_]
        ctx.check("R01.8", nm + ":input-reshaped-to-inputs", len(ins) >= 1, "input-source", where, "input.get_triple(self.inputs)")
        stmts = top_stmts_of(fn["body"])
        tail = strip(stmts[-1])
        comps = [strip(resolve(x, T)) for x in tail["xs"]] if tail.get("k") == "tup" else []       # (named temporaries resolved)
        ok = (len(comps) == 3 and comps[0].get("k") == "call" and comps[0]["callee"] == "tensor::Tensor::triple" and comps[1].get("k") == "call" and comps[1]["callee"] == "tensor::Tensor::quadruple"
              and pretty(comps[2]).endswith("None"))
        ctx.check("R01.8", nm + ":result-order", ok, "result:" + short(pretty(tail), 80), where, "(Tensor::triple(dX), Tensor::quadruple(dK), None)")
        if ok:
            # dX / dK are what the gradient computations produced: resolve to the allocated buffers / helper results
            dk = resolve(comps[1]["args"][0], T)
            dx = resolve(comps[0]["args"][0], T)
            okk = (dk.get("k") == "mcall" and dk["callee"].endswith("convolve_gradients")) or (dk.get("k") == "local" and "kgradient" in dk["name"]) or dk.get("k") == "local"
            okx = (dx.get("k") == "mcall" and dx["callee"].endswith("::convolve")) or dx.get("k") == "local"
            ctx.check("R01.8", nm + ":components", okk and okx, "result-components", where, "components are the computed gradients")


def r9(ctx):
    """gradient scale factors (`loops`, `scale`) are 1 / identity unless a loop connection was registered"""
    c = ctx.crate
    layers = ("dense::Dense", "convolution::Convolution", "deconvolution::Deconvolution", "maxpool::Maxpool")
    n = 0
    for mk, mv in c.mir.items():
        for w in mv["facts"]["writes"] + mv["facts"]["mutborrows"]:
            if w["adt"] in layers and w["field"] in ("loops", "scale"):
                n += 1
                parent = mv["parent"]
                ctx.check("R01.9", "write:%s:%s.%s" % (parent, w["adt"].split("::")[-1], w["field"]), parent == "network::Network::loopback",
                          "scale-factor-written-outside-loopback", "%s:%s" % (mk, w["line"]), "written by Network::loopback",
                          "%s writes %s.%s: every layer multiplies its delta by scale(loops), so the gradients are scaled although no loop connection exists" % (mk, w["adt"], w["field"]))
    for adt in layers:
        fn = ctx.fn(adt + "::create")
        lit = [x for x in walk(fn["body"]) if x.get("k") == "struct" and x["path"].endswith(adt)]
        fs = dict((a_, e_) for a_, e_ in lit[0]["fs"]) if lit else {}
        ok = e4.lit_value(fs.get("loops")) == "1.0" if fs.get("loops") is not None else False
        ctx.check("R01.9", "initial-loops:" + adt.split("::")[-1], ok, "initial-loops-not-1", c.loc(fn), "loops: 1.0")
    ctx.floor("R01.9", 7 + 4, "7 writes in loopback, 4 constructors")


def r10(ctx):
    """the reshaping helpers the backward passes rely on are row-major (C14's rules re-run here)"""
    from . import c14
    sub = type(ctx)(ctx.prop, ctx.facts)
    sub.guard("R14.2", "flatten", c14.r2_flatten, sub)
    sub.guard("R14.3", "constructors", c14.r3_constructors, sub)      # `ones(shape)` is the derivative of the identity activation; gradients are built with Tensor::{single,triple,..}
    bad = [o for o in sub.obligations if o["status"] != "ok"]
    for o in bad:
        ctx.bad("R01.10", "helper:" + o["instance"], o["key"].split("/", 3)[-1], o["where"], o["detail"])
    ctx.check("R01.10", "reshaping-helpers", not bad and len(sub.obligations) >= 4, "reshaping-helper-broken", "src/tensor.rs",
              "flatten / get_flat / get_triple are row-major (%d facts)" % len(sub.obligations))


def r3_kernel_helpers(ctx):
    """the two kernel transformations the convolution input gradient is built from (E6 effect summary / index maps):
    rotate reverses every row and the row order of every channel and nothing else (180 degree rotation per channel, channel
    order kept); rearrange copies kernels[f][c][h][w] to out[c][f][h][w] over the full index ranges."""
    from .. import e6
    c = ctx.crate
    fn = ctx.fn("convolution::Convolution::rotate")
    E = e6.Exec(c, fn)
    paths = [p for p in E.run_fn() if p.exit is None or p.exit[0] == "return"]
    kparam = ("p", pat_binds(fn["params"][1])[0][0])
    ok = len(paths) == 1
    why = ""
    if ok:
        p = paths[0]
        val = p.val if p.exit is None else p.exit[1]
        # collect every mutation with its nesting: (callee name, receiver term)
        muts = []

        def collect(effs):
            for e in effs:
                if e[0] == "loop":
                    for (pc, eff, ex, v) in e[3]:
                        collect(eff)
                elif e[0] in ("mut", "set", "push", "mutcall"):
                    muts.append(e)
        collect(p.eff)
        revs = [e for e in muts if e[0] == "mut" and e[1].rsplit("::", 1)[-1] == "reverse"]
        others = [e for e in muts if e not in revs]

        def depth(t):
            """nesting depth of a receiver below the parameter: one level per `element of` (iterator walks) or `[i]` with i walking 0..len(base)"""
            d = 0
            while isinstance(t, tuple) and t:
                t = e6.strip_upd(t)
                if t[0] == "elem":
                    d += 1
                    t = t[1]
                    a = e6.is_call(t, "for_each") or e6.is_call(t, "map") or e6.is_call(t, "enumerate")
                    t = a[0] if a else t
                elif t[0] == "idx" and isinstance(t[2], tuple) and t[2] and t[2][0] == "elem" and e6.range_of(t[2][1]) is not None \
                        and e6.range_of(t[2][1])[0] == ("lit", "0") and e6.is_call(e6.range_of(t[2][1])[1], "len", 1) is not None \
                        and strip_loop(e6.is_call(e6.range_of(t[2][1])[1], "len", 1)[0]) == strip_loop(t[1]):
                    d += 1
                    t = t[1]
                elif t[0] in ("loopin", "loopout") and t[1] == kparam[1]:
                    return d, kparam
                elif t[0] == "loopout" and len(t) == 4:
                    t = t[3]            # an element binding whose own elements are changed by an inner walk: what it was bound to
                elif t[0] == "loopin" and len(t) == 3:
                    hits = e6.find_terms(tuple(p.eff) + (val,), lambda u_: u_[0] == "loopout" and len(u_) == 4 and u_[1] == t[1] and u_[2] == t[2])
                    if not hits:
                        break
                    t = hits[0][3]
                else:
                    break
            return d, t

        def strip_loop(t):
            """the parameter seen from inside a loop that mutates it is still the parameter"""
            if isinstance(t, tuple):
                if t and t[0] in ("loopin", "loopout") and t[1] == kparam[1]:
                    return kparam
                return tuple(strip_loop(x) for x in e6.strip_upd(t))
            return t
        ds = sorted(depth(e[4])[0] for e in revs)
        roots = {repr(depth(e[4])[1]) for e in revs}
        ok = ds == [1, 2] and roots == {repr(kparam)} and not others and e6.root_name(val) in (None, kparam[1]) and (val == kparam or e6.root_name(val) == kparam[1])
        why = "reverse applied at nesting depths %s of %s; other mutations %d; returns %s" % (ds, sorted(roots), len(others), e6.show(val, 2))
    if not ok and len(paths) == 1 and not [e for e in paths[0].eff if e[0] != "loop"]:
        # value form: kernel.into_iter().map(|channel| channel.into_iter().rev().map(|row| row.into_iter().rev().collect()).collect()).collect()
        def rebuild(t, base, depth=0):
            """per nesting level: is the order reversed?  (None when t is not an element-by-element rebuild of base)"""
            if t == base:
                return []
            cm = e6.is_call(t, "collect", 1)
            if cm is None or depth > 4:
                return None
            it = cm[0]
            mp = e6.is_call(it, "map", 2)
            src = mp[0] if mp else it
            rv = e6.is_call(src, "rev", 1)
            inner = rv[0] if rv else src
            if inner != base:
                return None
            if not mp:
                return [bool(rv)]
            if not (isinstance(mp[1], tuple) and mp[1][0] == "closure"):
                return None
            S_ = E.loop_summaries.get("cl%s" % mp[1][1])
            if S_ is None or len(S_["paths"]) != 1 or S_["paths"][0].pc or S_["paths"][0].exit is not None or [e for e in S_["paths"][0].eff if e[0] != "loop"]:
                return None
            sub = rebuild(S_["paths"][0].val, ("elem", S_["recv"], "cl%s" % mp[1][1]), depth + 1)
            return None if sub is None else [bool(rv)] + sub
        val0 = paths[0].val if paths[0].exit is None else paths[0].exit[1]
        flags = rebuild(val0, kparam)
        if flags is not None:
            ok = flags == [False, True, True]
            why = "rebuilt with per-level reversal %s (channels, rows, row elements)" % flags
    ctx.check("R01.3", "rotate:rows-and-row-order-per-channel", ok, "rotate-form:" + short(why, 100), c.loc(fn),
              "for every channel: every row reversed, then the rows reversed; channels keep their order",
              "Convolution::rotate does not (only) rotate each channel by 180 degrees: %s. The input gradient of a convolution is the full "
              "correlation of delta with the per-channel rotated kernels; reversing anything else (e.g. the channel order) routes gradient "
              "to the wrong input channel" % why)
    # rearrange: out[c][f][h][w] = kernels[f][c][h][w] for all indices; index loops, enumerate-driven loops or a mix
    fn2 = ctx.fn("convolution::Convolution::rearrange")
    kp = pat_binds(fn2["params"][1])[0]
    from ..hir import let_table, cpretty, resolve
    TT2 = let_table(fn2["body"])
    asg = [x for x in walk(fn2["body"]) if x.get("k") == "assign"]
    ok2 = False
    got = "?"
    if len(asg) == 1:
        nm = kp[0]
        ext_of = {"%s.len()" % nm: "F", "%s[0].len()" % nm: "C", "%s[0][0].len()" % nm: "H", "%s[0][0][0].len()" % nm: "W"}
        counter_of = {}      # hid of an enumerate counter -> (hid of the element binding, node of the enumerated collection)
        elem_src = {}        # hid of an element binding -> (counter hid, collection node)
        range_role = {}      # hid of a range loop variable -> extent name
        for lp in [x for x in walk(fn2["body"]) if x.get("k") == "for"]:
            it = strip(lp["iter"])
            if it.get("k") == "struct" and it["path"] == "std::ops::Range":
                fs = dict((a, b) for a, b in it["fs"])
                ext = ext_of.get(cpretty(fs["end"], TT2))
                if ext and e4.lit_value(fs["start"]) == "0" and pat_binds(lp["pat"]):
                    range_role[pat_binds(lp["pat"])[0][1]] = ext
            elif it.get("k") == "mcall" and it["name"] == "enumerate":
                src = strip(it["recv"])
                while src is not None and src.get("k") == "mcall" and src["name"] in ("iter_mut", "iter"):
                    src = strip(src["recv"])
                pb = pat_binds(lp["pat"])
                if len(pb) == 2 and src is not None:
                    counter_of[pb[0][1]] = (pb[1][1], src)
                    elem_src[pb[1][1]] = (pb[0][1], src)

        def tokens(n):
            """index variables of an element access, outermost first, following enumerate element bindings to their collection"""
            out = []
            n = strip(n)
            while n is not None:
                if n.get("k") == "index":
                    out.append(e4.local_hid(n["i"]))
                    n = strip(n["b"])
                elif n.get("k") == "local" and n["hid"] in elem_src:
                    cnt, src = elem_src[n["hid"]]
                    out.append(cnt)
                    n = strip(src)
                elif n.get("k") == "local" and n["hid"] in TT2 and strip(TT2[n["hid"]]).get("k") in ("index", "local", "field"):
                    n = strip(TT2[n["hid"]])          # `let source = &kernels[f];`
                else:
                    break
            return list(reversed(out)), n
        lt, lb = tokens(asg[0]["l"])
        rt, rb = tokens(asg[0]["r"])
        # the target is a fresh 4-D buffer allocated as C x F x H x W
        alloc_ok = False
        if lb is not None and lb.get("k") == "local" and lb["hid"] in TT2 or (lb is not None and lb.get("k") == "local"):
            for s_ in walk(fn2["body"]):
                if s_.get("k") == "let" and s_["pat"].get("k") == "bind" and lb is not None and s_["pat"]["hid"] == lb.get("hid") and s_.get("init") is not None:
                    dims = []
                    cur = strip(s_["init"])
                    while cur is not None and cur.get("k") == "call" and cur["callee"].endswith("vec::from_elem"):
                        dims.append(ext_of.get(cpretty(cur["args"][1], TT2)))
                        cur = strip(cur["args"][0])
                    alloc_ok = dims == ["C", "F", "H", "W"]
        roles_l = [range_role.get(h) for h in lt]
        got = "%s <- %s" % (lt, rt)
        ok2 = (len(lt) == 4 and len(rt) == 4 and None not in lt and len(set(lt)) == 4 and rt == [lt[1], lt[0], lt[2], lt[3]] and e4.local_hid(rb) == kp[1] and alloc_ok
               and all(r is None or r == want for r, want in zip(roles_l, ["C", "F", "H", "W"]))
               and all((h in range_role) or (h in counter_of) for h in lt))
        got = "target indices %s (extents %s), source indices %s, buffer %s" % (lt, roles_l, rt, "CxFxHxW" if alloc_ok else "?")
    if not ok2:
        # the same fact read off the loop-nest extraction (index stores, push nests and map/collect nests alike): one store
        # out[c][f][h][w] = kernels[f][c][h][w], every index a loop over 0..its own extent of `kernels`, out allocated C x F x H x W
        try:
            ex2 = mac.extract(c, fn2)
            st2 = [s_ for s_ in ex2.stmts if isinstance(s_.target, Access) and len(s_.target.idx) == 4]
            if len(st2) == 1 and len(ex2.stmts) == 1 and st2[0].op == "=" and not st2[0].guards and len(st2[0].reads) == 1:
                s_ = st2[0]
                rd = list(s_.reads.values())[0]
                ti, ri = [str(i_) for i_ in s_.target.idx], [str(i_) for i_ in rd.idx]
                ends = {"%s#%d" % (l_[1], l_[0]): (str(l_[2]), str(l_[3]), l_[4]) for l_ in s_.loops if isinstance(l_[0], int)}
                nm = kp[0]
                want_ext = ["len(%s[0])" % nm, "len(%s)" % nm, "len(%s[0][0])" % nm, "len(%s[0][0][0])" % nm]
                ok2 = (str(s_.rhs) in s_.reads and rd.hid == kp[1] and len(set(ti)) == 4 and ri == [ti[1], ti[0], ti[2], ti[3]]
                       and all(ends.get(v_) == ("0", w_, None) for v_, w_ in zip(ti, want_ext))
                       and [str(z_) for z_ in ex2.allocs.get(s_.target.hid, [])] == want_ext)
                got = "%s (loops %s, buffer %s)" % (repr(s_)[:80], [ends.get(v_) for v_ in ti], [str(z_) for z_ in ex2.allocs.get(s_.target.hid, [])])
        except (ValueError, KeyError, IndexError):
            pass
    if not ok2:
        # the same fact on the E6 summary when the result is built as a value: a nest over 0..C, 0..F, 0..H, 0..W (the input's own extents)
        # whose element is kernels[f][c][h][w] with f, c, h, w the indices of levels 1, 0, 2, 3
        try:
            E4 = e6.Exec(c, fn2)
            l4 = [p_ for p_ in E4.run_fn() if p_.exit is None or p_.exit[0] == "return"]
            if len(l4) == 1 and not l4[0].pc:
                v4 = l4[0].val if l4[0].exit is None else l4[0].exit[1]
                rn = e6.range_nest(E4, e6.strip_upd(v4))
                K = ("p", kp[0])
                LENOF = lambda t_: ("call", "std::vec::Vec::<T, A>::len", (t_,))
                Z = ("lit", "0")
                ext = [LENOF(("idx", K, Z)), LENOF(K), LENOF(("idx", ("idx", K, Z), Z)), LENOF(("idx", ("idx", ("idx", K, Z), Z), Z))]   # C, F, H, W
                if rn is not None and len(rn[0]) == 4 and not rn[2] and [e6.lin(d_) for d_ in rn[0]] == [e6.lin(x_) for x_ in ext]:
                    leaf = e6.strip_upd(rn[1])
                    idxs = []
                    t_ = leaf
                    while isinstance(t_, tuple) and t_ and (t_[0] == "idx" or (t_[0] == "un" and t_[1] == "Deref") or e6.is_call(t_, "clone", 1)):
                        if t_[0] == "idx":
                            idxs.append(t_[2])
                            t_ = t_[1]
                        else:
                            t_ = t_[2] if t_[0] == "un" else e6.is_call(t_, "clone", 1)[0]
                    idxs.reverse()
                    want_ends = [ext[1], ext[0], ext[2], ext[3]]           # kernels[f][c][h][w]
                    okl = t_ == K and len(idxs) == 4
                    for ix, we in zip(idxs, want_ends):
                        okl = okl and isinstance(ix, tuple) and ix[0] == "elem" and e6.range_of(ix[1]) is not None and e6.lin(e6.range_of(ix[1])[1]) == e6.lin(we)
                    if okl:
                        ok2 = True
                        got = "value nest C x F x H x W of kernels[f][c][h][w]"
        except Unestablished:
            pass
    # one way through the function: the copy loop is what every call executes (a second, "special case" path would need its own proof)
    try:
        E3 = e6.Exec(c, fn2)
        live3 = [p_ for p_ in E3.run_fn() if p_.exit is None or p_.exit[0] == "return"]
        one = len(live3) == 1 and not live3[0].pc
        why3 = "%d result paths; conditions: %s" % (len(live3), "; ".join(e6.show(t_, 2) for p_ in live3 for (t_, _) in p_.pc)[:120])
    except Unestablished as u_:
        one, why3 = False, str(u_.what)[:120]
    ctx.check("R01.3", "rearrange:one-unconditional-result", one, "rearrange-paths:" + short(why3, 60), c.loc(fn2), "one result path, no case split",
              "Convolution::rearrange: %s; the axis swap must be what every call computes" % why3)
    ctx.check("R01.3", "rearrange:swaps-filter-and-channel-axes", ok2, "rearrange-form:" + short(got, 90), c.loc(fn2), "out[c][f][h][w] = kernels[f][c][h][w] over all f, c, h, w")
    # both are used (once each) by backward
    bf = ctx.fn("convolution::Convolution::backward")
    used = sorted(cal.rsplit("::", 1)[-1] for _, cal in calls(bf["body"]) if cal in ("convolution::Convolution::rotate", "convolution::Convolution::rearrange"))
    ctx.check("R01.3", "input-gradient-uses-rotated-rearranged-kernels", used == ["rearrange", "rotate"], "kernel-helpers-used:" + ",".join(used), c.loc(bf), "backward rotates and rearranges the kernels")


def r11_activation_derivatives(ctx):
    """delta = f'(pre) * upstream: the element-wise derivative functions obey their definitions in every rank arm (C07's rules re-run)"""
    from . import c07
    sub = type(ctx)(ctx.prop, ctx.facts)
    for kind in ("ReLU", "LeakyReLU", "Sigmoid", "Tanh"):
        res = {}
        for d in ("forward", "backward"):
            r = sub.guard("R07.1", "%s::%s" % (kind, d), c07.elementwise, sub, kind, d)
            if r:
                res[d] = r
        if len(res) == 2:
            sub.guard("R07.2", kind, c07.derivative, sub, kind, res["forward"][1], res["backward"][1])
    bad = [o for o in sub.obligations if o["status"] != "ok"]
    for o in bad:
        ctx.bad("R01.11", "activation:" + o["instance"], o["key"].split("/", 3)[-1], o["where"], o["detail"])
    ctx.check("R01.11", "activation-derivatives", not bad and len(sub.obligations) >= 20, "activation-derivative-broken", "src/activation.rs",
              "%d facts: every rank arm of the four differentiable activations computes its definition; backward is the derivative of forward" % len(sub.obligations))


def r12_linear_algebra(ctx):
    """dW = delta (x) input and dX = W^T delta rest on Tensor::product / transpose / dot (C15's R15.3 re-run under this property)"""
    from . import c15
    sub = type(ctx)(ctx.prop, ctx.facts)
    sub.guard("R15.3", "linear-algebra", c15.linear_algebra, sub)
    bad = [o for o in sub.obligations if o["status"] != "ok"]
    for o in bad:
        ctx.bad("R01.12", "linalg:" + o["instance"], o["key"].split("/", 3)[-1], o["where"], o["detail"])
    ctx.check("R01.12", "linear-algebra", not bad and len(sub.obligations) >= 7, "linear-algebra-broken", "src/tensor.rs",
              "%d facts: product is the outer product, dot the matrix-vector product, transpose swaps the axes" % len(sub.obligations))


RULES["R01.4"] += " | entries-stay-in-place (who-may-permute): over every function of the property's modules, no Vec/slice operation that moves entries to other positions (reverse, swap, rotate, sort .., mem::swap of two entries) outside the table of sites confirmed on the pinned tree (common.PERMUTING_SITES)"


RULES["R01.4"] += " | returned-as-computed: the same test for the four layer backwards and for Maxpool::forward (whose index record routes the gradient): no straight-line change of a result after the loops other than appends and the activation-derivative product"


def run(ctx):
    from .common import returned_as_computed
    ctx.guard("R01.4", "returned-as-computed", returned_as_computed, ctx, "R01.4", {"src/dense.rs", "src/convolution.rs", "src/deconvolution.rs", "src/maxpool.rs"}, lambda p_, l_: any(w_ in l_ for w_ in ("backward", "gradient", "rotate", "rearrange")) or (l_ == "forward" and "Maxpool" in p_), ("hadamard", "add_inplace", "dropout"), 8)
    from .common import no_permuting_ops
    ctx.guard("R01.4", "entries-stay-in-place", no_permuting_ops, ctx, "R01.4", "layers-backward", {"src/dense.rs", "src/convolution.rs", "src/deconvolution.rs", "src/maxpool.rs"}, 6, None, lambda p_, l_: "backward" in l_ or "gradient" in l_ or l_ == "rotate")
    ctx.guard("R01.12", "linear-algebra", r12_linear_algebra, ctx)
    ctx.guard("R01.3", "kernel-helpers", r3_kernel_helpers, ctx)
    ctx.guard("R01.11", "activation-derivatives", r11_activation_derivatives, ctx)
    ctx.guard("R01.9", "scale-factors", r9, ctx)
    ctx.guard("R01.10", "reshaping-helpers", r10, ctx)
    ctx.guard("R01.1", "deconvolution", r1, ctx)
    ctx.guard("R01.2", "convolution", r2, ctx)
    ctx.guard("R01.4", "call-sites", r4, ctx)
    ctx.guard("R01.5", "dense", r5, ctx)
    ctx.guard("R01.6", "maxpool", r6, ctx)
    from . import c02 as _c02
    ctx.guard("R01.6", "argmax-recording", _c02.maxpool_forward, ctx, "R01.6")
    ctx.guard("R01.7", "axis-typing", spatial.axis_typing, ctx, "R01.7", BWD_FNS, 41)  # measured 82; the count varies with temporaries, the floor only excludes vacuity
    ctx.guard("R01.8", "prologue", r8, ctx)
    ctx.floor("R01.1", 2, "two accumulations")
    ctx.floor("R01.2", 3, "")
    ctx.floor("R01.5", 7, "delta, hadamard, dX, dW, db, arity, single mutation")
    ctx.floor("R01.6", 4, "")
    ctx.floor("R01.8", 8, "")
