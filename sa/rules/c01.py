"""C01 - back-propagated gradients are the true derivatives (decided structural clauses only)."""
from ..core import Unestablished
from ..hir import walk, strip, pretty, short, calls, pat_binds
from .. import e1, e4, mac, macsig
from ..e1 import Rat
from ..mac import Access
from . import spatial
from .common import top_stmts_of, mentions_local

LEVEL = "other"
RULES = {
    "R01.1": "adjoint pair, transposed convolution: both accumulations of Deconvolution::backward (`igradient[X] += delta[Y]*K[Kidx]`, "
             "`kgradient[Kidx] += delta[Y]*input[X]`) use exactly the index relation, guards and iteration domain of the forward "
             "statement `y[Y] += x[X]*K[Kidx]` (signatures compared modulo loop-variable names): the adjoint of a bilinear map",
    "R01.2": "adjoint pair, convolution kernel gradient: convolve_gradients indexes the padded input with the forward relation "
             "in = out*stride + k*dilation (roles: kernel index <-> loop over the kernel extent, output index <-> loop over delta's "
             "extent) and Convolution::backward pads the input to the forward extent in + 2*padding",
    "R01.4": "call-site provenance: Network::backward and Feedback::backward walk the layers in reverse with idx = len - i - 1, pass "
             "(last running gradient, activated[idx], preactivated[idx]) to each layer's backward, push component 0 of the result as "
             "the next running gradient and components 1, 2 as weight/bias gradients; max-pool gets maxpools[idx]",
    "R01.5": "dense backward dataflow: delta = activation'(pre) (.) gradient * scale(loops); dW = delta (x) input; db = delta iff bias; "
             "dX = W^T . delta; returned in the order (dX, dW, db)",
    "R01.6": "max-pool routing: igradient[c][mh][mw] += ogradient[c][h][w] for (mh, mw) ranging over max[c][h][w] (same c, h, w on "
             "both sides, accumulation not overwrite: overlapping windows add up)",
    "R01.7": "axis typing of every backward kernel (no height/width mix-up): Convolution::backward, convolve_gradients, rotate, "
             "rearrange, Deconvolution::backward, Maxpool::backward",
    "R01.9": "gradient scale factors: the `loops` / `scale` fields that every backward pass multiplies into delta are written only by "
             "Network::loopback (MIR field writes) and start at 1.0 in every constructor",
    "R01.3": "kernel transformations behind the convolution input gradient: Convolution::rotate reverses every row and the row order of each "
             "channel and nothing else (E6 effect summary: `reverse` at nesting depths 1 and 2 of the kernel parameter only); "
             "Convolution::rearrange copies kernels[f][c][h][w] to out[c][f][h][w] over the full ranges; backward uses both",
    "R01.11": "the element-wise activation derivatives used for delta = f'(pre) * upstream obey their definitions in every rank arm and are "
              "the derivatives of the forward functions (R07.1/R07.2/R07.3 re-run under this property)",
    "R01.12": "the dense backward pass rests on Tensor::product (outer product), Tensor::transpose and Tensor::dot: R15.3 re-run under this property",
    "R01.10": "the helpers that reshape gradients between flat and CxHxW form (get_triple, flatten, get_flat) are row-major (R14.2 re-run)",
    "R01.8": "spatial backward prologue: derivative = activation.backward(output) and delta = hadamard3d(gradient, derivative, "
             "scale(loops)), with gradient/derivative reshaped by get_triple(self.outputs) and input by get_triple(self.inputs)",
}
ASSUMPTIONS = ["numerical agreement of gradients with derivatives is NOT decided (no library code is run); the convolution input gradient "
               "(pad3d/rotate/rearrange/convolve composition), the soft-max/cross-entropy clause and per-repetition gradients of "
               "feedback blocks are not decided by any rule",
               "index relations are compared in exact integer arithmetic, for all strides/paddings/dilations/sizes at once"]
TRUSTED = ["rustc nightly front end", "driver/src/main.rs", "sa/mac.py loop-nest extractor", "sa/e1.py", "sa/e3.py"]

BWD_FNS = ["convolution::Convolution::backward", "convolution::Convolution::convolve_gradients", "convolution::Convolution::rotate",
           "convolution::Convolution::rearrange", "deconvolution::Deconvolution::backward", "maxpool::Maxpool::backward",
           "dense::Dense::backward"]


def mac_stmts(c, fn, op="+="):
    ex = mac.extract(c, fn)
    return ex, [s for s in ex.stmts if s.op == op and len(s.reads) >= 1 and isinstance(s.target, Access)]


def r1(ctx):
    c = ctx.crate
    ffn = ctx.fn("deconvolution::Deconvolution::forward")
    bfn = ctx.fn("deconvolution::Deconvolution::backward")
    fex, fst = mac_stmts(c, ffn)
    fst = [s for s in fst if len(s.reads) == 2]
    if len(fst) != 1:
        raise Unestablished("expected one multiply-accumulate statement in Deconvolution::forward, found %d" % len(fst), c.loc(ffn))
    f = fst[0]
    names = sorted(a.name for a in f.reads.values())
    roles_f = {f.target.name: "Y"}
    for a in f.reads.values():
        roles_f[a.name] = "K" if len(a.idx) == 4 else "X"
    fsig, fren, facc = macsig.signature(f, roles_f)
    ctx.samples.append({"deconv forward": macsig.sig_str(fsig)})
    bex, bst = mac_stmts(c, bfn)
    bst = [s for s in bst if len(s.reads) == 2]
    want = {"input-gradient": ("X", "igradient"), "kernel-gradient": ("K", "kgradient")}
    found = {}
    for s in bst:
        tgt_rank = len(s.target.idx)
        kind = "kernel-gradient" if tgt_rank == 4 else "input-gradient"
        roles = {s.target.name: "K" if tgt_rank == 4 else "X"}
        for a in s.reads.values():
            if a.name == s.target.name:
                continue
            if len(a.idx) == 4:
                roles[a.name] = "K"
            elif a.name.startswith("delta") or a.name.startswith("gradient"):
                roles[a.name] = "Y"
            else:
                roles[a.name] = "X"
        inst = "deconvolution:" + kind
        where = c.loc(bfn, s.node)
        try:
            sig, ren, acc = macsig.signature(s, roles)
        except ValueError as e:
            ctx.bad("R01.1", inst, "statement-not-a-bilinear-accumulation", where, str(e))
            continue
        found[kind] = 1
        if sig != fsig:
            ctx.bad("R01.1", inst, "not-the-adjoint-of-forward:" + macsig.sig_str(sig), where,
                    "Deconvolution::backward %s uses %s but the forward pass computes %s; the gradient is then not the derivative for "
                    "every stride/padding/size" % (kind, macsig.sig_str(sig), macsig.sig_str(fsig)))
            continue
        # guards: same lower-bound (checked_sub) guards and an upper bound on the same output indices
        fg = sorted(str(macsig.rn(g, fren)) for g in f.guards if str(g).startswith("ge0("))
        bg = sorted(str(macsig.rn(g, ren)) for g in s.guards if str(g).startswith("ge0("))
        ups_f = len([g for g in f.guards if str(g).startswith("and(")])
        ups_b = len([g for g in s.guards if str(g).startswith("and(")])
        ok = fg == bg and ups_f == ups_b == 1
        # domain: same loop ranges under renaming
        fdom = sorted((fren.get("%s#%d" % (nm, hid), nm), str(en)) for (hid, nm, st, en, step) in f.loops)
        bdom = sorted((ren.get("%s#%d" % (nm, hid), nm), str(en).replace("input", "x")) for (hid, nm, st, en, step) in s.loops)
        okd = [d[0] for d in fdom] == [d[0] for d in bdom]
        ctx.check("R01.1", inst, ok and okd and s.op == "+=", "guards-or-domain-differ-from-forward", where,
                  "same index relation, guards and domain as forward: %s" % macsig.sig_str(sig),
                  "guards %s vs forward %s; domain %s vs %s" % (bg, fg, bdom, fdom))
    for k in want:
        if k not in found and not any(o["instance"] == "deconvolution:" + k for o in ctx.obligations):
            ctx.bad("R01.1", "deconvolution:" + k, "accumulation-missing", c.loc(bfn), "no `%s[..] += delta[..] * ..` statement found" % want[k][1])


def _g(g):
    # guard strings are canonical atoms like ge0(<poly>): re-parse is avoided by registering them as atoms
    return Rat.atom(g)


def r2(ctx):
    c = ctx.crate
    cf = ctx.fn("convolution::Convolution::convolve")
    gf = ctx.fn("convolution::Convolution::convolve_gradients")
    bf = ctx.fn("convolution::Convolution::backward")
    ff = ctx.fn("convolution::Convolution::forward")
    fex, fst = mac_stmts(c, cf)
    fst = [s for s in fst if len(s.reads) == 2]
    if len(fst) != 1:
        raise Unestablished("expected one multiply-accumulate in convolve", c.loc(cf))
    f = fst[0]
    roles = {f.target.name: "Y"}
    for a in f.reads.values():
        roles[a.name] = "K" if len(a.idx) == 4 else "X"
    fsig, fren, _ = macsig.signature(f, roles)
    ctx.samples.append({"conv forward": macsig.sig_str(fsig)})
    gex, gst = mac_stmts(c, gf)
    gst = [s for s in gst if len(s.reads) == 2]
    if len(gst) != 1:
        raise Unestablished("expected one multiply-accumulate in convolve_gradients", c.loc(gf))
    g = gst[0]
    # roles: target (4-D) = K; the two 3-D reads: the one indexed directly by the K1 (channel) variable = X, the other = Y
    pn = [pat_binds(p)[0][0] for p in gf["params"]]
    groles = {g.target.name: "K", pn[1]: "X", pn[2]: "Y"}
    gsig, gren, _ = macsig.signature(g, groles)
    ctx.check("R01.2", "conv-kernel-gradient:index-relation", gsig == fsig, "index-relation:" + macsig.sig_str(gsig), c.loc(gf, g.node),
              "kernel gradient uses the forward relation %s" % macsig.sig_str(fsig),
              "convolve_gradients computes dK with %s but the forward pass is %s: stride and dilation change roles, so the kernel gradient is "
              "only correct for stride = dilation = 1" % (macsig.sig_str(gsig), macsig.sig_str(fsig)))
    # call site in backward: (a, b) = (padded input, delta); padded extent must be the forward one
    call = [x for x in walk(bf["body"]) if x.get("k") == "mcall" and x["callee"] == "convolution::Convolution::convolve_gradients"]
    if len(call) != 1:
        raise Unestablished("expected one call of convolve_gradients in backward", c.loc(bf))
    call = call[0]
    a0 = e4.local_hid(call["args"][0])
    # find `let input = tensor::pad3d(&input, (ph, pw))`
    pads = [s for s in walk(bf["body"]) if s.get("k") == "let" and s["init"] is not None and strip(s["init"]).get("k") == "call" and strip(s["init"])["callee"] == "tensor::pad3d"]
    pad_b = None
    for s in pads:
        if pat_binds(s["pat"])[0][1] == a0:
            pad_b = s
    if pad_b is None:
        # the padded input may be passed directly: convolve_gradients(&pad3d(&input, (ph, pw)), ..)
        from ..hir import resolve, let_table
        a_res = resolve(call["args"][0], let_table(bf["body"]))
        if a_res is not None and a_res.get("k") == "call" and a_res.get("callee") == "tensor::pad3d":
            pad_b = {"init": a_res, "line": a_res.get("line")}
    fpads = [s for s in walk(ff["body"]) if s.get("k") in ("assign", "let") and (s.get("init") or s.get("r")) is not None
             and strip(s.get("init") or s.get("r")).get("k") == "call" and strip(s.get("init") or s.get("r"))["callee"] == "tensor::pad3d"]
    if pad_b is None or len(fpads) != 1:
        raise Unestablished("cannot locate the padding of the input in forward/backward", c.loc(bf))
    bex = mac.extract(c, bf)
    fex2 = mac.extract(c, ff)
    bt = strip(strip(pad_b["init"])["args"][1])
    ft = strip(strip(fpads[0].get("init") or fpads[0].get("r"))["args"][1])
    from ..hir import resolve as _res, let_table as _lt
    bt = _res(bt, _lt(bf["body"]))      # `pad3d(&x, padded)` with `let padded = (ph, pw)`
    ft = _res(ft, _lt(ff["body"]))
    bv = [e1.Norm(c, bex.env).norm(x) for x in bt["xs"]]
    fv = [e1.Norm(c, fex2.env).norm(x) for x in ft["xs"]]

    def canon(v):
        s = str(v)
        for nm in ("tensor", "input", "x"):
            s = s.replace("len(%s[0][0])" % nm, "IW").replace("len(%s[0])" % nm, "IH")
        s = s.replace("self.inputs.2", "IW").replace("self.inputs.1", "IH")
        return s
    bvs, fvs = [canon(x) for x in bv], [canon(x) for x in fv]
    ctx.check("R01.2", "conv-kernel-gradient:padded-extent", bvs == fvs, "padded-extent:" + ",".join(bvs), c.loc(bf, pad_b),
              "backward pads the input to the forward extent %s" % fvs,
              "Convolution::backward pads the input to (%s) before correlating with delta, the forward pass pads to (%s); the two agree only "
              "for stride = 1" % (", ".join(bvs), ", ".join(fvs)))
    ctx.check("R01.2", "conv-kernel-gradient:operands", e4.local_hid(call["args"][1]) is not None and
              pretty(strip(call["args"][1])) == "delta", "kernel-gradient-operands:" + short(pretty(call), 80), c.loc(bf, call),
              "convolve_gradients(padded input, delta, (kh, kw))")


def r4(ctx):
    c = ctx.crate
    for fpath, act, pre in (("network::Network::backward", "activated", "preactivated"), ("feedback::Feedback::backward", "activated", "unactivated")):
        fn = ctx.fn(fpath)
        short_name = fpath.split("::")[1]
        trav = None
        for x in walk(fn["body"], into_closures=False):
            t_ = e4.traversal(x)
            if t_ is not None and t_["field"] == "layers" and any(cal.endswith("::backward") for _, cal in calls(t_["body"])):
                trav = t_
        if trav is None:
            raise Unestablished("no traversal of self.layers calling the layers' backward in %s" % fpath, c.loc(fn))
        x, chain = trav["node"], trav["methods"]
        ctx.check("R01.4", short_name + ":reverse-walk", chain == ["iter", "rev", "enumerate"], "layer-walk:" + ".".join(chain), c.loc(fn, x), "layers.iter().rev().enumerate()")
        cl = {"body": trav["body"], "params": [trav["pat"]]}
        pb = pat_binds(cl["params"][0])
        ih, lh = pb[0][1], pb[1][1]
        body = top_stmts_of(cl["body"])
        from ..hir import let_table, cpretty, resolve
        TT = let_table(fn["body"])
        from .. import arms as _arms
        env = _arms.full_env(c, fn, {ih: Rat.atom("i")})
        lets = {}
        for s in body:
            if s.get("k") == "let" and s["pat"].get("k") == "bind" and s["init"] is not None:
                lets[s["pat"]["name"]] = (s["pat"]["hid"], s["init"])
        N = e1.Norm(c, env)
        ok_idx = "idx" in lets and N.norm(lets["idx"][1]) == Rat.atom("len(self.layers)") - Rat.atom("i") - 1
        ctx.check("R01.4", short_name + ":idx", ok_idx, "idx-formula:" + (short(pretty(lets["idx"][1]), 60) if "idx" in lets else "?"), c.loc(fn, cl), "idx = len - i - 1")
        idxh = lets.get("idx", (None,))[0]

        def is_indexed(n, arr):
            n = strip(n)
            return n.get("k") == "index" and strip(n["b"]).get("k") == "local" and strip(n["b"])["name"] == arr and e4.local_hid(n["i"]) == idxh
        ok_in = "input" in lets and is_indexed(lets["input"][1], act)
        ok_out = "output" in lets and is_indexed(lets["output"][1], pre)
        ctx.check("R01.4", short_name + ":input-is-activated[idx]", ok_in, "layer-input-source:" + (short(pretty(lets["input"][1]), 50) if "input" in lets else "?"), c.loc(fn, cl),
                  "input = %s[idx]" % act, "the tensor handed to backward as the layer's input is %s" % (pretty(lets["input"][1]) if "input" in lets else "?"))
        ctx.check("R01.4", short_name + ":output-is-pre[idx]", ok_out, "layer-output-source:" + (short(pretty(lets["output"][1]), 50) if "output" in lets else "?"), c.loc(fn, cl),
                  "output = %s[idx]" % pre)
        inh, outh = lets.get("input", (None,))[0], lets.get("output", (None,))[0]
        ms = [s for s in walk(cl["body"]) if s.get("k") == "match" and e4.local_hid(s["scrut"]) == lh]
        if len(ms) != 1:
            raise Unestablished("%s: no match on the layer" % fpath, c.loc(fn, cl))
        n_arms = 0
        for arm in ms[0]["arms"]:
            vp, binds = e4.arm_variant(arm)
            kind = vp.split("::")[-1]
            bw = [y for y in walk(arm["body"]) if y.get("k") == "mcall" and y["name"] == "backward"]
            if kind in ("Dense", "Convolution", "Deconvolution"):
                n_arms += 1
                def stands_for(node, arr):
                    r_ = resolve(node, TT)
                    if r_.get("k") != "index" or strip(r_["b"]).get("k") != "local" or strip(r_["b"])["name"] != arr:
                        return False
                    try:
                        env2 = dict(env)
                        if idxh in TT:
                            env2[idxh] = e1.Norm(c, env).norm(TT[idxh])
                        return e1.Norm(c, env2).norm(r_["i"]) == Rat.atom("len(self.layers)") - Rat.atom("i") - 1
                    except ValueError:
                        return False
                ok = (len(bw) == 1 and len(bw[0]["args"]) == 3 and "gradients.last()" in cpretty(bw[0]["args"][0], TT) and stands_for(bw[0]["args"][1], act)
                      and stands_for(bw[0]["args"][2], pre) and binds and e4.local_hid(bw[0]["recv"]) == binds[0][1])
                ctx.check("R01.4", "%s:%s-arguments" % (short_name, kind), ok, "backward-arguments:" + (short(pretty(bw[0]), 70) if bw else "none"), c.loc(fn, arm["body"]),
                          "layer.backward(last gradient, input, output)", "the %s arm calls %s" % (kind, [short(pretty(y), 100) for y in bw]))
            elif kind == "Maxpool" and bw:
                n_arms += 1
                ok = len(bw) == 1 and "gradients.last()" in cpretty(bw[0]["args"][0], TT) and any(is_indexed(z, "maxpools") for z in walk(arm["body"]))
                ctx.check("R01.4", "%s:Maxpool-arguments" % short_name, ok, "maxpool-backward-arguments", c.loc(fn, arm["body"]), "layer.backward(last gradient, maxpools[idx])")
        # result routing: let (gradient, wg, bg) = match ..; gradients.push(gradient); weight.push(wg); bias.push(bg)
        dl = [s for s in body if s.get("k") == "let" and s["init"] is not None and strip(s["init"]) is ms[0]]
        ok = False
        if dl:
            pb2 = pat_binds(dl[0]["pat"])
            if len(pb2) == 3:
                pushes = {}
                for y in walk(cl["body"]):
                    if y.get("k") == "mcall" and y["name"] == "push" and e4.local_hid(y["args"][0]) in [h for (_, h) in pb2]:
                        pushes[strip(y["recv"])["name"]] = e4.local_hid(y["args"][0])
                ok = (pushes.get("gradients") == pb2[0][1] and (pushes.get("weight_gradient", pushes.get("weight_gradients")) == pb2[1][1])
                      and (pushes.get("bias_gradient", pushes.get("bias_gradients")) == pb2[2][1]))
        ctx.check("R01.4", short_name + ":result-routing", ok, "result-components-routed-wrongly", c.loc(fn, cl), "(dX, dW, db) -> gradients / weight / bias lists")
    ctx.floor("R01.4", 16, "two walks: idx, input, output, arms, routing")


def r5(ctx):
    c = ctx.crate
    fn = ctx.fn("dense::Dense::backward")
    from ..hir import let_table, cpretty, resolve
    T = let_table(fn["body"])
    pn = [pat_binds(p)[0][0] for p in fn["params"]]
    ph = [pat_binds(p)[0][1] for p in fn["params"]]
    gname, iname, oname = pn[1], pn[2], pn[3]
    gh, inh, outh = ph[1], ph[2], ph[3]
    where = c.loc(fn)
    stmts = top_stmts_of(fn["body"])
    # delta: the (mutable) local initialised with the activation derivative of the pre-activation parameter
    dl = [s_ for s_ in walk(fn["body"]) if s_.get("k") == "let" and s_["pat"].get("k") == "bind" and s_["init"] is not None
          and strip(s_["init"]).get("k") == "mcall" and strip(s_["init"])["callee"] == "activation::Function::backward"]
    ok = len(dl) == 1 and e4.local_hid(resolve(strip(dl[0]["init"])["args"][0], T)) == outh
    ctx.check("R01.5", "delta-from-activation-derivative-of-pre", ok, "delta-source:" + (short(pretty(dl[0]["init"]), 60) if dl else "?"), where, "delta = activation.backward(output)",
              "delta is initialised as %s; it must be the activation derivative at the layer's pre-activation (3rd parameter)" % (pretty(dl[0]["init"]) if dl else "?"))
    if not dl:
        return
    dh, dname = dl[0]["pat"]["hid"], dl[0]["pat"]["name"]
    # the gradient may be re-bound (flattened) under the same or another name
    g_ok = {gh}
    for s_ in stmts:
        if s_.get("k") == "let" and s_["pat"].get("k") == "bind" and s_["init"] is not None and strip(s_["init"]).get("k") == "match" and mentions_local(s_["init"], gh):
            g_ok.add(s_["pat"]["hid"])
    had = [x for x in walk(fn["body"]) if x.get("k") == "mcall" and x["callee"] == "tensor::Tensor::hadamard"]
    ok = (len(had) == 1 and e4.local_hid(had[0]["recv"]) == dh and e4.local_hid(had[0]["args"][0]) in g_ok
          and cpretty(had[0]["args"][1], T) == "self.scale(self.loops)")
    ctx.check("R01.5", "delta-times-upstream-gradient", ok, "hadamard:" + (short(cpretty(had[0], T), 70) if had else "none"), where, "delta.hadamard(gradient, scale(loops))")
    tail = strip(stmts[-1])
    comps = [cpretty(x, T) for x in tail["xs"]] if tail.get("k") == "tup" else []
    want_dx = "self.weights.transpose().dot(%s)" % dname
    want_dw = "%s.product(%s)" % (dname, iname)
    ctx.check("R01.5", "input-gradient-is-Wt-delta", len(comps) == 3 and comps[0] == want_dx, "input-gradient:" + (short(comps[0], 60) if comps else "?"), where, "dX = W^T . delta (first component)",
              "the first returned component is `%s`; it must be %s" % (comps[0] if comps else "?", want_dx))
    ctx.check("R01.5", "weight-gradient-is-delta-outer-input", len(comps) == 3 and comps[1] == want_dw, "weight-gradient:" + (short(comps[1], 60) if comps else "?"), where, "dW = delta.product(input) (second component)",
              "the weight gradient is `%s`; weights are (outputs x inputs), so it must be %s" % (comps[1] if len(comps) > 1 else "?", want_dw))
    # bias gradient: Some(delta) iff the layer has a bias
    okb = False
    if len(comps) == 3:
        b = resolve(tail["xs"][2], T)
        if b.get("k") == "local":
            for s_ in stmts:
                if s_.get("k") == "let" and s_["pat"].get("k") == "bind" and b.get("k") == "local" and s_["pat"]["hid"] == b["hid"]:
                    b = strip(s_["init"])
        if b.get("k") == "match" and cpretty(b["scrut"], T) == "self.bias":
            arms_ = {e4.arm_variant(a_)[0].split("::")[-1]: cpretty(a_["body"], T) for a_ in b["arms"]}
            okb = arms_.get("Some", "").endswith("Some(%s.clone())" % dname) and arms_.get("None", "").endswith("None")
        elif b.get("k") == "if" and cpretty(b["c"], T) == "self.bias.is_some()" and b["el"] is not None:
            okb = cpretty(b["th"], T).endswith("Some(%s.clone())" % dname) and cpretty(b["el"], T).endswith("None")
        elif b.get("k") == "mcall" and b["name"] == "map" and cpretty(b["recv"], T) in ("self.bias.as_ref()", "self.bias"):
            cl = strip(b["args"][0])
            okb = cl.get("k") == "closure" and cpretty(cl["body"], T) == "%s.clone()" % dname
    ctx.check("R01.5", "bias-gradient-is-delta", okb, "bias-gradient", where, "db = Some(delta) iff bias (third component)")
    ctx.check("R01.5", "result-order", len(comps) == 3, "result-arity:%d" % len(comps), where, "(dX, dW, db)")
    muts = [x for x in walk(fn["body"]) if x.get("k") == "mcall" and e4.local_hid(x["recv"]) == dh and (c.tya(x["recv"]) or "").startswith("&mut")]
    ctx.check("R01.5", "delta-modified-once", len(muts) == 1, "delta-mutations:%d" % len(muts), where, "delta is modified only by the hadamard product")


def r6(ctx):
    c = ctx.crate
    fn = ctx.fn("maxpool::Maxpool::backward")
    ex = mac.extract(c, fn)
    sts = [s for s in ex.stmts if isinstance(s.target, Access) and len(s.target.idx) == 3]
    adds = [s for s in sts if s.reads and s.op in ("+=", "=")]
    if not adds:
        raise Unestablished("no gradient routing statement in Maxpool::backward", c.loc(fn))
    s = adds[0]
    where = c.loc(fn, s.node)
    ctx.check("R01.6", "accumulates", s.op == "+=", "routing-overwrites-instead-of-accumulating", where, "igradient[..] += ogradient[..]",
              "Maxpool::backward stores `%s %s %s`: with overlapping windows (stride < kernel) an input element that is the maximum of several "
              "windows must receive the sum of their gradients" % (s.target, s.op, s.rhs_str()))
    rd = list(s.reads.values())
    ok = len(rd) == 1 and len(rd[0].idx) == 3
    src_ok = False
    if ok:
        r = rd[0]
        # iterator loop source: max[c][h][w].iter() with the same c,h,w as the read
        itl = [l for l in s.loops if isinstance(l[0], tuple)]
        want = "max[%s][%s][%s].iter()" % tuple(str(i).split("#")[0] for i in r.idx)
        src_ok = len(itl) == 1 and itl[0][1].replace(" ", "") == want.replace(" ", "")
        same_c = str(s.target.idx[0]) == str(r.idx[0])
        tgt_from_iter = all("#" in str(i) and str(i) not in [str(j) for j in r.idx] for i in s.target.idx[1:])
        if not tgt_from_iter and len(itl) == 1:
            # `for position in max[c][h][w].iter() { plane[position.0][position.1] += .. }`: the two components of the iterated pair, in order
            srcs = getattr(ex, "iter_sources", {}).get(itl[0][0][1])
            pnames = list(srcs[2]) if srcs and len(srcs) > 2 else []
            if len(pnames) == 1:
                tgt_from_iter = [str(i) for i in s.target.idx[1:]] == ["%s.0" % pnames[0], "%s.1" % pnames[0]]
        ok = src_ok and same_c and tgt_from_iter and str(s.rhs) in s.reads
    ctx.check("R01.6", "routes-to-recorded-argmax", ok, "routing:" + short(repr(s), 100), where,
              "igradient[c][mh][mw] += ogradient[c][h][w], (mh, mw) in max[c][h][w]", "found %s" % short(repr(s), 200))
    # domain: h over ogradient rows, w over ogradient columns
    dom = [(l[1], str(l[3])) for l in s.loops if isinstance(l[0], int)]
    okd = len(dom) == 3 and dom[1][1].startswith("len(") and dom[1][1].endswith("[0])") and dom[2][1].endswith("[0][0])")
    ctx.check("R01.6", "domain-covers-output-gradient", okd, "domain:" + str(dom), where, "h, w range over the output gradient's extents")
    others = [t for t in sts if t is not s]
    for t in others:
        okk = t.op == "*=" and not t.reads
        ctx.check("R01.6", "only-scaling-besides", okk, "extra-statement:" + short(repr(t), 80), c.loc(fn, t.node), "remaining statement is the 1/loops scaling")


def r8(ctx):
    c = ctx.crate
    from ..hir import let_table, cpretty, resolve
    for l in ("convolution::Convolution", "deconvolution::Deconvolution"):
        fn = ctx.fn(l + "::backward")
        T = let_table(fn["body"])
        pn = [pat_binds(p)[0][0] for p in fn["params"]]
        g, i_, o = pn[1], pn[2], pn[3]
        nm = l.split("::")[-1]
        where = c.loc(fn)
        hd = [x for x in walk(fn["body"]) if x.get("k") == "call" and x["callee"] == "tensor::hadamard3d"]
        got = [cpretty(a_, T) for a_ in hd[0]["args"]] if len(hd) == 1 else []
        want = ["%s.get_triple(self.outputs)" % g, "self.activation.backward(%s).get_triple(self.outputs)" % o, "self.scale(self.loops)"]
        ctx.check("R01.8", nm + ":delta", got == want, "delta:" + ";".join(got)[:100], where, "delta = hadamard3d(gradient.get_triple(outputs), activation.backward(output).get_triple(outputs), scale(loops))",
                  "delta is built from (%s); expected (%s): the upstream gradient times the activation derivative at the PRE-activation, scaled by scale(loops)" % ("; ".join(got), "; ".join(want)))
        ins = [s_ for s_ in walk(fn["body"]) if s_.get("k") == "let" and s_["init"] is not None and cpretty(s_["init"], T) == "%s.get_triple(self.inputs)" % i_]
        ctx.check("R01.8", nm + ":input-reshaped-to-inputs", len(ins) >= 1, "input-source", where, "input.get_triple(self.inputs)")
        stmts = top_stmts_of(fn["body"])
        tail = strip(stmts[-1])
        comps = [strip(x) for x in tail["xs"]] if tail.get("k") == "tup" else []
        ok = (len(comps) == 3 and comps[0].get("k") == "call" and comps[0]["callee"] == "tensor::Tensor::triple" and comps[1].get("k") == "call" and comps[1]["callee"] == "tensor::Tensor::quadruple"
              and pretty(comps[2]).endswith("None"))
        ctx.check("R01.8", nm + ":result-order", ok, "result:" + short(pretty(tail), 80), where, "(Tensor::triple(dX), Tensor::quadruple(dK), None)")
        if ok:
            # dX / dK are what the gradient computations produced: resolve to the allocated buffers / helper results
            dk = resolve(comps[1]["args"][0], T)
            dx = resolve(comps[0]["args"][0], T)
            okk = (dk.get("k") == "mcall" and dk["callee"].endswith("convolve_gradients")) or (dk.get("k") == "local" and "kgradient" in dk["name"]) or dk.get("k") == "local"
            okx = (dx.get("k") == "mcall" and dx["callee"].endswith("::convolve")) or dx.get("k") == "local"
            ctx.check("R01.8", nm + ":components", okk and okx, "result-components", where, "components are the computed gradients")


def r9(ctx):
    """gradient scale factors (`loops`, `scale`) are 1 / identity unless a loop connection was registered"""
    c = ctx.crate
    layers = ("dense::Dense", "convolution::Convolution", "deconvolution::Deconvolution", "maxpool::Maxpool")
    n = 0
    for mk, mv in c.mir.items():
        for w in mv["facts"]["writes"] + mv["facts"]["mutborrows"]:
            if w["adt"] in layers and w["field"] in ("loops", "scale"):
                n += 1
                parent = mv["parent"]
                ctx.check("R01.9", "write:%s:%s.%s" % (parent, w["adt"].split("::")[-1], w["field"]), parent == "network::Network::loopback",
                          "scale-factor-written-outside-loopback", "%s:%s" % (mk, w["line"]), "written by Network::loopback",
                          "%s writes %s.%s: every layer multiplies its delta by scale(loops), so the gradients are scaled although no loop connection exists" % (mk, w["adt"], w["field"]))
    for adt in layers:
        fn = ctx.fn(adt + "::create")
        lit = [x for x in walk(fn["body"]) if x.get("k") == "struct" and x["path"].endswith(adt)]
        fs = dict((a_, e_) for a_, e_ in lit[0]["fs"]) if lit else {}
        ok = e4.lit_value(fs.get("loops")) == "1.0" if fs.get("loops") is not None else False
        ctx.check("R01.9", "initial-loops:" + adt.split("::")[-1], ok, "initial-loops-not-1", c.loc(fn), "loops: 1.0")
    ctx.floor("R01.9", 7 + 4, "7 writes in loopback, 4 constructors")


def r10(ctx):
    """the reshaping helpers the backward passes rely on are row-major (C14's rules re-run here)"""
    from . import c14
    sub = type(ctx)(ctx.prop, ctx.facts)
    sub.guard("R14.2", "flatten", c14.r2_flatten, sub)
    bad = [o for o in sub.obligations if o["status"] != "ok"]
    for o in bad:
        ctx.bad("R01.10", "helper:" + o["instance"], o["key"].split("/", 3)[-1], o["where"], o["detail"])
    ctx.check("R01.10", "reshaping-helpers", not bad and len(sub.obligations) >= 4, "reshaping-helper-broken", "src/tensor.rs",
              "flatten / get_flat / get_triple are row-major (%d facts)" % len(sub.obligations))


def r3_kernel_helpers(ctx):
    """the two kernel transformations the convolution input gradient is built from (E6 effect summary / index maps):
    rotate reverses every row and the row order of every channel and nothing else (180 degree rotation per channel, channel
    order kept); rearrange copies kernels[f][c][h][w] to out[c][f][h][w] over the full index ranges."""
    from .. import e6
    c = ctx.crate
    fn = ctx.fn("convolution::Convolution::rotate")
    E = e6.Exec(c, fn)
    paths = [p for p in E.run_fn() if p.exit is None or p.exit[0] == "return"]
    kparam = ("p", pat_binds(fn["params"][1])[0][0])
    ok = len(paths) == 1
    why = ""
    if ok:
        p = paths[0]
        val = p.val if p.exit is None else p.exit[1]
        # collect every mutation with its nesting: (callee name, receiver term)
        muts = []

        def collect(effs):
            for e in effs:
                if e[0] == "loop":
                    for (pc, eff, ex, v) in e[3]:
                        collect(eff)
                elif e[0] in ("mut", "set", "push", "mutcall"):
                    muts.append(e)
        collect(p.eff)
        revs = [e for e in muts if e[0] == "mut" and e[1].rsplit("::", 1)[-1] == "reverse"]
        others = [e for e in muts if e not in revs]

        def depth(t):
            d = 0
            while isinstance(t, tuple) and t and t[0] == "elem":
                d += 1
                t = t[1]
                a = e6.is_call(t, "for_each") or e6.is_call(t, "map") or e6.is_call(t, "enumerate")
                t = a[0] if a else t
            return d, t
        ds = sorted(depth(e[4])[0] for e in revs)
        roots = {repr(depth(e[4])[1]) for e in revs}
        ok = ds == [1, 2] and roots == {repr(kparam)} and not others and e6.root_name(val) in (None, kparam[1]) and (val == kparam or e6.root_name(val) == kparam[1])
        why = "reverse applied at nesting depths %s of %s; other mutations %d; returns %s" % (ds, sorted(roots), len(others), e6.show(val, 2))
    ctx.check("R01.3", "rotate:rows-and-row-order-per-channel", ok, "rotate-form:" + short(why, 100), c.loc(fn),
              "for every channel: every row reversed, then the rows reversed; channels keep their order",
              "Convolution::rotate does not (only) rotate each channel by 180 degrees: %s. The input gradient of a convolution is the full "
              "correlation of delta with the per-channel rotated kernels; reversing anything else (e.g. the channel order) routes gradient "
              "to the wrong input channel" % why)
    # rearrange: out[c][f][h][w] = kernels[f][c][h][w] for all indices; index loops, enumerate-driven loops or a mix
    fn2 = ctx.fn("convolution::Convolution::rearrange")
    kp = pat_binds(fn2["params"][1])[0]
    from ..hir import let_table, cpretty, resolve
    TT2 = let_table(fn2["body"])
    asg = [x for x in walk(fn2["body"]) if x.get("k") == "assign"]
    ok2 = False
    got = "?"
    if len(asg) == 1:
        nm = kp[0]
        ext_of = {"%s.len()" % nm: "F", "%s[0].len()" % nm: "C", "%s[0][0].len()" % nm: "H", "%s[0][0][0].len()" % nm: "W"}
        counter_of = {}      # hid of an enumerate counter -> (hid of the element binding, node of the enumerated collection)
        elem_src = {}        # hid of an element binding -> (counter hid, collection node)
        range_role = {}      # hid of a range loop variable -> extent name
        for lp in [x for x in walk(fn2["body"]) if x.get("k") == "for"]:
            it = strip(lp["iter"])
            if it.get("k") == "struct" and it["path"] == "std::ops::Range":
                fs = dict((a, b) for a, b in it["fs"])
                ext = ext_of.get(cpretty(fs["end"], TT2))
                if ext and e4.lit_value(fs["start"]) == "0" and pat_binds(lp["pat"]):
                    range_role[pat_binds(lp["pat"])[0][1]] = ext
            elif it.get("k") == "mcall" and it["name"] == "enumerate":
                src = strip(it["recv"])
                while src is not None and src.get("k") == "mcall" and src["name"] in ("iter_mut", "iter"):
                    src = strip(src["recv"])
                pb = pat_binds(lp["pat"])
                if len(pb) == 2 and src is not None:
                    counter_of[pb[0][1]] = (pb[1][1], src)
                    elem_src[pb[1][1]] = (pb[0][1], src)

        def tokens(n):
            """index variables of an element access, outermost first, following enumerate element bindings to their collection"""
            out = []
            n = strip(n)
            while n is not None:
                if n.get("k") == "index":
                    out.append(e4.local_hid(n["i"]))
                    n = strip(n["b"])
                elif n.get("k") == "local" and n["hid"] in elem_src:
                    cnt, src = elem_src[n["hid"]]
                    out.append(cnt)
                    n = strip(src)
                elif n.get("k") == "local" and n["hid"] in TT2 and strip(TT2[n["hid"]]).get("k") in ("index", "local", "field"):
                    n = strip(TT2[n["hid"]])          # `let source = &kernels[f];`
                else:
                    break
            return list(reversed(out)), n
        lt, lb = tokens(asg[0]["l"])
        rt, rb = tokens(asg[0]["r"])
        # the target is a fresh 4-D buffer allocated as C x F x H x W
        alloc_ok = False
        if lb is not None and lb.get("k") == "local" and lb["hid"] in TT2 or (lb is not None and lb.get("k") == "local"):
            for s_ in walk(fn2["body"]):
                if s_.get("k") == "let" and s_["pat"].get("k") == "bind" and lb is not None and s_["pat"]["hid"] == lb.get("hid") and s_.get("init") is not None:
                    dims = []
                    cur = strip(s_["init"])
                    while cur is not None and cur.get("k") == "call" and cur["callee"].endswith("vec::from_elem"):
                        dims.append(ext_of.get(cpretty(cur["args"][1], TT2)))
                        cur = strip(cur["args"][0])
                    alloc_ok = dims == ["C", "F", "H", "W"]
        roles_l = [range_role.get(h) for h in lt]
        got = "%s <- %s" % (lt, rt)
        ok2 = (len(lt) == 4 and len(rt) == 4 and None not in lt and len(set(lt)) == 4 and rt == [lt[1], lt[0], lt[2], lt[3]] and e4.local_hid(rb) == kp[1] and alloc_ok
               and all(r is None or r == want for r, want in zip(roles_l, ["C", "F", "H", "W"]))
               and all((h in range_role) or (h in counter_of) for h in lt))
        got = "target indices %s (extents %s), source indices %s, buffer %s" % (lt, roles_l, rt, "CxFxHxW" if alloc_ok else "?")
    ctx.check("R01.3", "rearrange:swaps-filter-and-channel-axes", ok2, "rearrange-form:" + short(got, 90), c.loc(fn2), "out[c][f][h][w] = kernels[f][c][h][w] over all f, c, h, w")
    # both are used (once each) by backward
    bf = ctx.fn("convolution::Convolution::backward")
    used = sorted(cal.rsplit("::", 1)[-1] for _, cal in calls(bf["body"]) if cal in ("convolution::Convolution::rotate", "convolution::Convolution::rearrange"))
    ctx.check("R01.3", "input-gradient-uses-rotated-rearranged-kernels", used == ["rearrange", "rotate"], "kernel-helpers-used:" + ",".join(used), c.loc(bf), "backward rotates and rearranges the kernels")


def r11_activation_derivatives(ctx):
    """delta = f'(pre) * upstream: the element-wise derivative functions obey their definitions in every rank arm (C07's rules re-run)"""
    from . import c07
    sub = type(ctx)(ctx.prop, ctx.facts)
    for kind in ("ReLU", "LeakyReLU", "Sigmoid", "Tanh"):
        res = {}
        for d in ("forward", "backward"):
            r = sub.guard("R07.1", "%s::%s" % (kind, d), c07.elementwise, sub, kind, d)
            if r:
                res[d] = r
        if len(res) == 2:
            sub.guard("R07.2", kind, c07.derivative, sub, kind, res["forward"][1], res["backward"][1])
    bad = [o for o in sub.obligations if o["status"] != "ok"]
    for o in bad:
        ctx.bad("R01.11", "activation:" + o["instance"], o["key"].split("/", 3)[-1], o["where"], o["detail"])
    ctx.check("R01.11", "activation-derivatives", not bad and len(sub.obligations) >= 20, "activation-derivative-broken", "src/activation.rs",
              "%d facts: every rank arm of the four differentiable activations computes its definition; backward is the derivative of forward" % len(sub.obligations))


def r12_linear_algebra(ctx):
    """dW = delta (x) input and dX = W^T delta rest on Tensor::product / transpose / dot (C15's R15.3 re-run under this property)"""
    from . import c15
    sub = type(ctx)(ctx.prop, ctx.facts)
    sub.guard("R15.3", "linear-algebra", c15.linear_algebra, sub)
    bad = [o for o in sub.obligations if o["status"] != "ok"]
    for o in bad:
        ctx.bad("R01.12", "linalg:" + o["instance"], o["key"].split("/", 3)[-1], o["where"], o["detail"])
    ctx.check("R01.12", "linear-algebra", not bad and len(sub.obligations) >= 7, "linear-algebra-broken", "src/tensor.rs",
              "%d facts: product is the outer product, dot the matrix-vector product, transpose swaps the axes" % len(sub.obligations))


def run(ctx):
    ctx.guard("R01.12", "linear-algebra", r12_linear_algebra, ctx)
    ctx.guard("R01.3", "kernel-helpers", r3_kernel_helpers, ctx)
    ctx.guard("R01.11", "activation-derivatives", r11_activation_derivatives, ctx)
    ctx.guard("R01.9", "scale-factors", r9, ctx)
    ctx.guard("R01.10", "reshaping-helpers", r10, ctx)
    ctx.guard("R01.1", "deconvolution", r1, ctx)
    ctx.guard("R01.2", "convolution", r2, ctx)
    ctx.guard("R01.4", "call-sites", r4, ctx)
    ctx.guard("R01.5", "dense", r5, ctx)
    ctx.guard("R01.6", "maxpool", r6, ctx)
    ctx.guard("R01.7", "axis-typing", spatial.axis_typing, ctx, "R01.7", BWD_FNS, 41)  # measured 82; the count varies with temporaries, the floor only excludes vacuity
    ctx.guard("R01.8", "prologue", r8, ctx)
    ctx.floor("R01.1", 2, "two accumulations")
    ctx.floor("R01.2", 3, "")
    ctx.floor("R01.5", 7, "delta, hadamard, dX, dW, db, arity, single mutation")
    ctx.floor("R01.6", 4, "")
    ctx.floor("R01.8", 8, "")
