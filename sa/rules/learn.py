"""Structural decomposition of Network::learn shared by C04 and C13."""
from ..core import Unestablished
from ..hir import walk, strip, pretty, short, calls, pat_binds
from .. import e4
from .common import top_stmts_of, mentions_local


class Learn:
    pass


def chain_of(n):
    """method chain of an expression: ([names outermost-last], base node)"""
    names = []
    n = strip(n)
    while n is not None and n.get("k") == "mcall":
        names.append(n["name"])
        n = strip(n["recv"])
    return list(reversed(names)), n


def parts(ctx):
    c = ctx.crate
    fn = ctx.fn("network::Network::learn")
    L = Learn()
    L.fn = fn
    L.params = {pat_binds(p)[0][0]: pat_binds(p)[0][1] for p in fn["params"] if pat_binds(p)}
    for need in ("inputs", "targets", "validation", "batch", "epochs"):
        if need not in L.params:
            raise Unestablished("learn has no parameter `%s`" % need, c.loc(fn))
    L.stmts = top_stmts_of(fn["body"])
    L.lets = {}
    for s in L.stmts:
        if s.get("k") == "let":
            for nm, h in pat_binds(s["pat"]):
                L.lets[nm] = (h, s)
    epochs = [s for s in L.stmts if s.get("k") == "for" and any(cal == "network::Network::update" for _, cal in calls(s))]
    if len(epochs) != 1:
        raise Unestablished("expected exactly one top-level epoch loop containing the update call", c.loc(fn))
    L.epoch = epochs[0]
    L.epoch_var = pat_binds(L.epoch["pat"])[0][1]
    L.epoch_body = top_stmts_of(L.epoch["body"])
    bl = [s for s in L.epoch_body if s.get("k") == "for" and any(cal == "network::Network::update" for _, cal in calls(s))]
    if len(bl) != 1:
        raise Unestablished("expected exactly one batch loop (direct child of the epoch loop) containing the update call", c.loc(fn, L.epoch))
    L.batch_loop = bl[0]
    L.batch_var = pat_binds(L.batch_loop["pat"])[0][1]
    L.batch_body = top_stmts_of(L.batch_loop["body"])
    L.blets = {}
    for s in L.batch_body:
        if s.get("k") == "let":
            for nm, h in pat_binds(s["pat"]):
                L.blets[nm] = (h, s)
    L.elets = {}
    for s in L.epoch_body:
        if s.get("k") == "let":
            for nm, h in pat_binds(s["pat"]):
                L.elets[nm] = (h, s)
    return L
