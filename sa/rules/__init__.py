import importlib

PROPS = ["C%02d" % i for i in range(1, 19)]


def load(prop):
    return importlib.import_module("sa.rules.%s" % prop.lower())
