"""C02 - each layer's forward pass computes its defining operator."""
from ..core import Unestablished
from ..hir import walk, strip, pretty, short, calls, pat_binds
from .. import e1, e4
from . import spatial

LEVEL = "other"
RULES = {
    "R02.2": "axis typing (type-directed dataflow, sa/e3.py): in convolve, pad3d, upsample3d and the three spatial forward passes no "
             "additive / comparison / step / index / tuple-position use combines a height quantity (`.0` of kernel/stride/padding/"
             "dilation, x[0].len(), row index) with a width quantity (`.1`, x[0][0].len(), column index)",
    "R02.3": "flat-input re-chunking, sibling agreement: in the Data::Single arm of every spatial forward the vector is split with "
             "chunks_exact(h*w) then chunks_exact(w) where (h, w) are components 1, 2 of the layer's *inputs* shape",
}
ASSUMPTIONS = ["layer inputs match self.inputs (documented precondition of the spatial forwards)"]
TRUSTED = ["rustc nightly front end", "driver/src/main.rs", "sa/e1.py"]


FWD_FNS = ["convolution::Convolution::convolve", "convolution::Convolution::forward", "deconvolution::Deconvolution::forward",
           "maxpool::Maxpool::forward", "tensor::pad3d", "tensor::upsample3d"]


def run(ctx):
    ctx.guard("R02.2", "axis-typing", spatial.axis_typing, ctx, "R02.2", FWD_FNS, 120)
    for l in spatial.LAYERS:
        ctx.guard("R02.3", l, spatial.flat_rechunk, ctx, "R02.3", l)
    ctx.floor("R02.3", 6, "dims source + chunk sizes in three forwards")
