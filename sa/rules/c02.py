"""C02 - each layer's forward pass computes its defining operator."""
from ..core import Unestablished
from ..hir import walk, strip, pretty, short, calls, pat_binds
from .. import e1, e4
from . import spatial

LEVEL = "other"
RULES = {
    "R02.3": "flat-input re-chunking, sibling agreement: in the Data::Single arm of every spatial forward the vector is split with "
             "chunks_exact(h*w) then chunks_exact(w) where (h, w) are components 1, 2 of the layer's *inputs* shape",
}
ASSUMPTIONS = ["layer inputs match self.inputs (documented precondition of the spatial forwards)"]
TRUSTED = ["rustc nightly front end", "driver/src/main.rs", "sa/e1.py"]


def run(ctx):
    for l in spatial.LAYERS:
        ctx.guard("R02.3", l, spatial.flat_rechunk, ctx, "R02.3", l)
    ctx.floor("R02.3", 6, "dims source + chunk sizes in three forwards")
